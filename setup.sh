#!/bin/sh
# Offline set-up: warm the Go build cache for the harness (plain and -race) from files on disk only.
set -e
cd "$(dirname "$0")/harness"
export GOFLAGS=-mod=mod GOPROXY=off GOSUMDB=off GOTOOLCHAIN=local
GO=$(command -v go1.26.8 || echo /usr/local/bin/go1.26.8)
mkdir -p ../.build ../evidence ../replays/found
"$GO" test -c -tags verif -o ../.build/setup.test . 
"$GO" test -c -race -tags verif -o ../.build/setup.race.test .
"$GO" test -c -fuzz=Fuzz -tags verif -o ../.build/setup.fuzz.test .
rm -f ../.build/setup.test ../.build/setup.race.test ../.build/setup.fuzz.test
echo setup ok
