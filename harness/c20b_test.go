package harness

// C20 (b) — the bundled registries forward samples to the right backend metric and poll gauges
// only between Start and Stop; Start/Stop are idempotent and terminate the poller.
//
// Life-cycle runs on the REAL clock (a run-away poller cannot be unwound inside a synctest bubble);
// every oracle is independent of how fast that clock runs: logical stamps + goroutine ids.

import (
	"bytes"
	"fmt"
	"net"
	"runtime"
	"strconv"
	"strings"
	"sync"
	"sync/atomic"
	"testing"
	"time"

	"github.com/DataDog/datadog-go/v5/statsd"
	"github.com/platinummonkey/go-concurrency-limits/core"
	"github.com/platinummonkey/go-concurrency-limits/metric_registry/datadog"
	"github.com/platinummonkey/go-concurrency-limits/metric_registry/gometrics"
	gm "github.com/rcrowley/go-metrics"
	"pgregory.net/rapid"

	"verifharness/kit"
)

// ---- backends ---------------------------------------------------------------------------------

type capWriter struct {
	mu  sync.Mutex
	buf bytes.Buffer
}

func (w *capWriter) Write(p []byte) (int, error) {
	w.mu.Lock()
	defer w.mu.Unlock()
	return w.buf.Write(p)
}
func (w *capWriter) Close() error { return nil }
func (w *capWriter) take() []string {
	w.mu.Lock()
	defer w.mu.Unlock()
	s := w.buf.String()
	w.buf.Reset()
	var out []string
	for _, l := range strings.Split(s, "\n") {
		if l != "" {
			out = append(out, l)
		}
	}
	return out
}

type regBackend struct {
	kind   string // gometrics | datadog
	reg    core.MetricRegistry
	gmReg  gm.Registry
	cap    *capWriter
	client *statsd.Client
	prefix string // normalised prefix the backend names are expected to carry
}

func normPrefix(kind, p string) string {
	if kind == "gometrics" && p == "" {
		p = "limiter."
	}
	if !strings.HasSuffix(p, ".") {
		p += "."
	}
	return p
}

func newBackend(kind, prefix string, poll time.Duration) (*regBackend, error) {
	b := &regBackend{kind: kind, prefix: normPrefix(kind, prefix)}
	switch kind {
	case "gometrics":
		b.gmReg = gm.NewRegistry()
		r, err := gometrics.NewGoMetricsMetricRegistry(b.gmReg, "", prefix, poll)
		if err != nil {
			return nil, err
		}
		b.reg = r
	case "datadog":
		b.cap = &capWriter{}
		cl, err := statsd.NewWithWriter(b.cap, statsd.WithoutClientSideAggregation(), statsd.WithoutTelemetry(), statsd.WithoutOriginDetection())
		if err != nil {
			return nil, err
		}
		b.client = cl
		r, err := datadog.NewMetricRegistryWithClient(cl, prefix, poll)
		if err != nil {
			return nil, err
		}
		b.reg = r
	}
	return b, nil
}

func (b *regBackend) close() {
	if b.client != nil {
		_ = b.client.Close()
	}
}

// ---- forwarding -------------------------------------------------------------------------------

type c20FOp struct {
	K    string  `json:"k"` // reg | add
	Kind string  `json:"kind,omitempty"`
	ID   int     `json:"id"`
	Dot  bool    `json:"dot,omitempty"` // register under ".<id>"
	V    float64 `json:"v,omitempty"`
}

type c20FCase struct {
	Backend string   `json:"backend"`
	Prefix  string   `json:"prefix"`
	Ops     []c20FOp `json:"ops"`
	// Shared (gometrics): the go-metrics backend is not fresh. 1 = another registry wrapper with the same prefix has
	// registered and used the same metric names before (a limiter rebuilt on a configuration reload); 2 = the names
	// already exist in the backend as metrics of the right kind (an operator pre-registered them).
	Shared int `json:"shared,omitempty"`
	Times  int `json:"times,omitempty"` // the op list is gone through that many times
}

func genC20F(t *rapid.T) c20FCase {
	c := c20FCase{Backend: rapid.SampledFrom([]string{"gometrics", "datadog"}).Draw(t, "backend")}
	c.Prefix = rapid.SampledFrom([]string{"pfx", "pfx.", "a.b", "svc.limiter."}).Draw(t, "prefix")
	if c.Backend == "gometrics" && rapid.IntRange(0, 3).Draw(t, "defprefix") == 0 {
		c.Prefix = ""
	}
	op := rapid.Custom(func(t *rapid.T) c20FOp {
		o := c20FOp{K: rapid.SampledFrom([]string{"reg", "add", "add", "add"}).Draw(t, "k"),
			Kind: rapid.SampledFrom([]string{"distribution", "timing", "count"}).Draw(t, "kind"),
			ID:   rapid.IntRange(0, 2).Draw(t, "id"), Dot: rapid.IntRange(0, 3).Draw(t, "dot") == 0}
		o.V = float64(rapid.IntRange(0, 100000).Draw(t, "v"))
		return o
	})
	c.Ops = rapid.SliceOfN(op, 1, 40).Draw(t, "ops")
	// long-lived listeners: the op list is gone through several times (hundreds / thousands of samples per metric)
	c.Times = rapid.SampledFrom([]int{1, 1, 1, 1, 1, 3, 10}).Draw(t, "times")
	if c.Backend == "gometrics" && rapid.IntRange(0, 5).Draw(t, "long") == 0 {
		c.Times = rapid.SampledFrom([]int{30, 100, 300}).Draw(t, "longTimes")
	}
	if c.Backend == "gometrics" {
		c.Shared = rapid.SampledFrom([]int{0, 0, 1, 2}).Draw(t, "shared")
	}
	return c
}

func runC20F(_ *testing.T, c c20FCase) (out kit.Outcome) {
	defer func() {
		if r := recover(); r != nil {
			out = kit.Viol(c.Backend+":panic", "panic: %v", r)
		}
	}()
	b, err := newBackend(c.Backend, c.Prefix, time.Hour)
	if err != nil {
		return kit.Outcome{Harness: err.Error()}
	}
	defer b.close()
	if c.Backend == "gometrics" && c.Shared > 0 {
		var other core.MetricRegistry
		if c.Shared == 1 {
			o, err := gometrics.NewGoMetricsMetricRegistry(b.gmReg, "", c.Prefix, time.Hour)
			if err != nil {
				return kit.Outcome{Harness: err.Error()}
			}
			other = o
		}
		for id := 0; id <= 2; id++ {
			for _, kind := range []string{"distribution", "timing", "count"} {
				short := fmt.Sprintf("%c%d", kind[0], id)
				switch {
				case c.Shared == 1 && kind == "distribution":
					other.RegisterDistribution(short).AddSample(5)
				case c.Shared == 1 && kind == "timing":
					other.RegisterTiming(short).AddSample(5)
				case c.Shared == 1:
					other.RegisterCount(short).AddSample(5)
				case kind == "distribution":
					gm.GetOrRegisterHistogram(b.prefix+short, b.gmReg, gm.NewUniformSample(64))
				case kind == "timing":
					gm.GetOrRegisterTimer(b.prefix+short, b.gmReg)
				default:
					gm.GetOrRegisterCounter(b.prefix+short, b.gmReg)
				}
			}
		}
	}
	listeners := map[string]core.MetricSampleListener{}
	kinds := map[string]bool{}
	adds := 0
	times := c.Times
	if times < 1 {
		times = 1
	}
	ops := make([]c20FOp, 0, len(c.Ops)*times)
	for r := 0; r < times; r++ {
		ops = append(ops, c.Ops...)
	}
	maxCount := int64(0)
	for i, o := range ops {
		id := fmt.Sprintf("%c%d", o.Kind[0], o.ID) // distinct names per kind
		name := b.prefix + id
		key := o.Kind + "/" + id
		if o.K == "reg" || listeners[key] == nil {
			rid := id
			if o.Dot {
				rid = "." + id
			}
			var l core.MetricSampleListener
			switch o.Kind {
			case "distribution":
				l = b.reg.RegisterDistribution(rid)
			case "timing":
				l = b.reg.RegisterTiming(rid)
			case "count":
				l = b.reg.RegisterCount(rid)
			}
			if l == nil {
				return kit.Viol(c.Backend+":register", "op %d: Register%s(%q) returned nil", i, o.Kind, rid)
			}
			if prev := listeners[key]; prev != nil && prev != l {
				return kit.Viol(c.Backend+":register-reuse", "op %d: registering %q again returned a different listener", i, rid)
			}
			listeners[key] = l
			if o.K == "reg" {
				continue
			}
		}
		l := listeners[key]
		adds++
		kinds[o.Kind] = true
		switch c.Backend {
		case "gometrics":
			before := gmSnapshot(b.gmReg, name)
			l.AddSample(o.V)
			after := gmSnapshot(b.gmReg, name)
			want := map[string]string{"distribution": "histogram", "timing": "timer", "count": "counter"}[o.Kind]
			if after.kind != want {
				return kit.Viol("gometrics:kind", "op %d: %s sample for %q: backend metric %q is a %s, want a %s", i, o.Kind, id, name, after.kind, want)
			}
			switch o.Kind {
			case "distribution":
				if after.count > maxCount {
					maxCount = after.count
				}
				// the histogram counts every sample ever recorded; its sum is the sum of its *reservoir* (a bounded
				// sample of the values, go-metrics semantics), exact only while nothing has been evicted from it
				if after.count != before.count+1 || (before.count < 50 && after.sum-before.sum != int64(o.V)) {
					return kit.Viol("gometrics:value", "op %d: distribution sample %v for %q: histogram count %d->%d sum %d->%d", i, o.V, name, before.count, after.count, before.sum, after.sum)
				}
			case "timing":
				if after.count != before.count+1 || (before.count < 50 && after.sum-before.sum != int64(time.Duration(o.V)*time.Millisecond)) {
					return kit.Viol("gometrics:value", "op %d: timing sample %v for %q: timer count %d->%d sum %d->%d", i, o.V, name, before.count, after.count, before.sum, after.sum)
				}
			case "count":
				if after.count-before.count != int64(o.V) {
					return kit.Viol("gometrics:value", "op %d: count sample %v for %q: counter %d->%d", i, o.V, name, before.count, after.count)
				}
			}
		case "datadog":
			_ = b.client.Flush()
			b.cap.take()
			l.AddSample(o.V)
			_ = b.client.Flush()
			lines := b.cap.take()
			suffix := map[string]string{"distribution": "d", "timing": "ms", "count": "c"}[o.Kind]
			if len(lines) != 1 {
				return kit.Viol("datadog:lines", "op %d: one %s sample for %q produced %d statsd lines %q", i, o.Kind, name, len(lines), lines)
			}
			n, v, ty, ok := parseStatsd(lines[0])
			if !ok || n != name || ty != suffix || v != o.V {
				return kit.Viol("datadog:line", "op %d: %s sample %v for %q was written as %q (want name %q, type %q)", i, o.Kind, o.V, id, lines[0], name, suffix)
			}
		}
	}
	return kit.Outcome{NonTrivial: len(kinds) == 3 && adds >= 3, Labels: []string{"backend:" + c.Backend, fmt.Sprintf("shared-backend:%d", c.Shared), fmt.Sprintf("histogram-count>256:%v", maxCount > 256)}}
}

type gmSnap struct {
	kind       string
	count, sum int64
}

func gmSnapshot(r gm.Registry, name string) gmSnap {
	switch m := r.Get(name).(type) {
	case gm.Histogram:
		return gmSnap{"histogram", m.Count(), m.Sum()}
	case gm.Timer:
		return gmSnap{"timer", m.Count(), m.Sum()}
	case gm.Counter:
		return gmSnap{"counter", m.Count(), 0}
	case gm.GaugeFloat64:
		return gmSnap{"gaugefloat64", 0, int64(m.Value())}
	case nil:
		return gmSnap{kind: "missing"}
	default:
		return gmSnap{kind: fmt.Sprintf("%T", m)}
	}
}

func parseStatsd(line string) (name string, v float64, ty string, ok bool) {
	i := strings.LastIndex(line[:strings.Index(line+"|", "|")], ":")
	if i < 0 {
		return
	}
	name = line[:i]
	rest := strings.Split(line[i+1:], "|")
	if len(rest) < 2 {
		return
	}
	f, err := strconv.ParseFloat(rest[0], 64)
	if err != nil {
		return
	}
	return name, f, rest[1], true
}

func TestC20_registry_forwarding(t *testing.T) {
	kit.RequireMode(t, "std")
	kit.Check(t, kit.Prop[c20FCase]{
		ID: "C20", Quick: 1500, Thor: 200_000,
		Rule: "gometrics (fresh go-metrics registry) and datadog (statsd client over a capturing writer) x prefixes (with/without trailing dot, default) x Register/AddSample sequences with IDs with and without a leading dot; each sample must reach the backend metric of the right kind under prefix+ID; non-trivial = all three kinds sampled",
		Gen:  genC20F, Run: runC20F,
	})
}

// ---- life cycle -------------------------------------------------------------------------------

type c20LOp struct {
	K string `json:"k"` // start | pstart (N goroutines call Start at the same moment) | stop | pause | gauge
	N int    `json:"n,omitempty"`
}

type c20LifeCase struct {
	Backend string   `json:"backend"`
	PollUs  int      `json:"poll_us"`
	Slow    int      `json:"slow"` // each gauge supplier call takes Slow/2 poll periods (a Stop then usually lands in the middle of a poll)
	Ops     []c20LOp `json:"ops"`
}

func genC20L(t *rapid.T) c20LifeCase {
	c := c20LifeCase{Backend: rapid.SampledFrom([]string{"gometrics", "datadog"}).Draw(t, "backend"),
		PollUs: rapid.SampledFrom([]int{200, 500, 1000}).Draw(t, "poll")}
	op := rapid.Custom(func(t *rapid.T) c20LOp {
		switch k := rapid.IntRange(0, 10).Draw(t, "k"); {
		case k == 10 && rapid.Bool().Draw(t, "restart"):
			// a registry that is stopped and started again many times over (configuration reloads): N quick Stop / Start
			// pairs, after which it must behave like one that was started once
			return c20LOp{K: "restart", N: rapid.SampledFrom([]int{2, 5, 17, 64, 200}).Draw(t, "restarts")}
		case k == 10:
			return c20LOp{K: "pstart", N: rapid.IntRange(2, 6).Draw(t, "starters")}
		case k < 4:
			return c20LOp{K: "start"}
		case k < 7:
			return c20LOp{K: "stop"}
		case k < 9:
			return c20LOp{K: "pause", N: rapid.IntRange(5, 25).Draw(t, "n")}
		default:
			return c20LOp{K: "gauge"}
		}
	})
	c.Ops = rapid.SliceOfN(op, 2, 10).Draw(t, "ops")
	c.Slow = rapid.SampledFrom([]int{0, 1, 2, 4}).Draw(t, "slow")
	return c
}

type pollRec struct {
	stamp int64
	gid   int64
}

// waitFor polls cond on the real clock (never an oracle by itself: expiry = inconclusive unless a
// goroutine dump proves the defect).
func waitFor(d time.Duration, cond func() bool) bool {
	deadline := time.Now().Add(d)
	for time.Now().Before(deadline) {
		if cond() {
			return true
		}
		time.Sleep(50 * time.Microsecond)
	}
	return cond()
}

// pollerParked reports whether the dump shows a goroutine inside a registry's poll loop that is parked (waiting in a
// select / channel operation / sleep), i.e. not running, not runnable, not inside a supplier.
func pollerParked(dump string) bool {
	for _, g := range strings.Split(dump, "\n\n") {
		if !strings.Contains(g, "MetricRegistry).run") {
			continue
		}
		head := g
		if i := strings.Index(g, "\n"); i > 0 {
			head = g[:i]
		}
		for _, st := range []string{"[select", "[chan receive", "[sleep", "[sync.Cond.Wait", "[semacquire"} {
			if strings.Contains(head, st) {
				return true
			}
		}
	}
	return false
}

// idlePollerProven: a started registry has made no poll during a 30 s guard (tens of thousands of poll periods). That
// alone would be a statement about the clock. It becomes a proof when the poller goroutine is then seen parked - not
// running, not runnable - at both ends of a further two seconds (a thousand periods or more) in which still no poll
// arrives: nothing is going to wake it within any multiple of the period, whatever the load of the machine.
func idlePollerProven(polls func() int) bool {
	before := polls()
	if !pollerParked(allStacks()) {
		return false
	}
	time.Sleep(2 * time.Second)
	return polls() == before && pollerParked(allStacks())
}

func allStacks() string {
	buf := make([]byte, 1<<20)
	return string(buf[:runtime.Stack(buf, true)])
}

func runC20L(_ *testing.T, c c20LifeCase) (out kit.Outcome) {
	period := time.Duration(c.PollUs) * time.Microsecond
	b, err := newBackend(c.Backend, "p", period)
	if err != nil {
		return kit.Outcome{Harness: err.Error()}
	}
	var clock atomic.Int64
	var mu sync.Mutex
	var polls []pollRec
	perGauge := map[int]int{} // polls seen per gauge
	supplierOf := func(idx int) core.MetricSupplier {
		return func() (float64, bool) {
			s := clock.Add(1)
			g := kit.GoID()
			mu.Lock()
			polls = append(polls, pollRec{s, g})
			perGauge[idx]++
			mu.Unlock()
			if c.Slow > 0 {
				time.Sleep(time.Duration(c.Slow) * period / 2)
			}
			return 1, true
		}
	}
	nPolls := func() int { mu.Lock(); defer mu.Unlock(); return len(polls) }
	pollsOf := func(idx int) int { mu.Lock(); defer mu.Unlock(); return perGauge[idx] }
	b.reg.RegisterGauge("g0", supplierOf(0))
	b.reg.RegisterGauge("g1", supplierOf(1))
	b.reg.RegisterGauge("g2", supplierOf(2))
	gauges := 3
	sawLateGauge := false
	running := false                   // model: between a Start and the next returned Stop
	var intervalStart int64            // stamp taken right before the Start that opened the current interval
	var quietFrom int64 = clock.Add(1) // polls stamped after this (and before the next Start) are illegal
	var sawDoubleStart, sawStop, sawPauseAfterStop bool

	checkQuiet := func(upTo int64, why string) *kit.Outcome {
		mu.Lock()
		defer mu.Unlock()
		for _, p := range polls {
			if p.stamp > quietFrom && p.stamp < upTo {
				o := kit.Viol(c.Backend+":poll-outside-start-stop", "a gauge was polled %s (poll stamp %d, quiet since %d, until %d)", why, p.stamp, quietFrom, upTo)
				return &o
			}
		}
		return nil
	}
	checkOnePoller := func(from, to int64) *kit.Outcome {
		mu.Lock()
		defer mu.Unlock()
		ids := map[int64]int{}
		for _, p := range polls {
			if p.stamp > from && p.stamp < to {
				ids[p.gid]++
			}
		}
		if len(ids) > 1 {
			o := kit.Viol(c.Backend+":several-pollers", "gauges were polled from %d different goroutines within one Start..Stop interval (%v)", len(ids), ids)
			return &o
		}
		return nil
	}
	stop := func() *kit.Outcome {
		done := make(chan struct{})
		go func() { b.reg.Stop(); close(done) }()
		select {
		case <-done:
			return nil
		case <-time.After(30 * time.Second):
			st := allStacks()
			if strings.Contains(st, "MetricRegistry).Stop") && (strings.Contains(st, "sync.(*WaitGroup).Wait") || strings.Contains(st, "sync.(*Mutex).Lock")) {
				o := kit.Viol(c.Backend+":stop-hangs", "Stop did not return within 30 s; the goroutine dump shows it parked inside Stop")
				return &o
			}
			o := kit.Outcome{Harness: "Stop did not return within 30 s (inconclusive)"}
			return &o
		}
	}
	finish := func(o kit.Outcome) kit.Outcome {
		// best effort: leave no poller behind
		go b.reg.Stop()
		time.Sleep(2 * period)
		b.close()
		return o
	}
	for i, op := range c.Ops {
		switch op.K {
		case "gauge":
			idx := gauges
			b.reg.RegisterGauge(fmt.Sprintf("g%d", idx), supplierOf(idx))
			gauges++
			if running {
				// a gauge registered while the registry is started is polled like the others: counted in rounds of
				// the poller (polls of g0), not in time
				sawLateGauge = true
				base := pollsOf(0)
				if !waitFor(30*time.Second, func() bool { return pollsOf(idx) > 0 || pollsOf(0) >= base+20 }) {
					if idlePollerProven(nPolls) {
						return finish(kit.Viol(c.Backend+":started-not-polling", "op %d: the registry is started (its poller goroutine exists, parked) but no gauge has been polled for 32 s at a poll period of %v", i, period))
					}
					return finish(kit.Outcome{Harness: "poller made no progress within 30 s (inconclusive)"})
				}
				if pollsOf(idx) == 0 {
					return finish(kit.Viol(c.Backend+":late-gauge-not-polled", "op %d: gauge g%d was registered while the registry was started; the poller has since gone through %d further rounds (polls of g0) without ever asking it", i, idx, pollsOf(0)-base))
				}
			}
		case "pause":
			time.Sleep(time.Duration(op.N) * period)
			if !running && sawStop {
				sawPauseAfterStop = true
			}
		case "start", "pstart":
			stamp := clock.Add(1)
			if !running {
				if o := checkQuiet(stamp, "while the registry was not started"); o != nil {
					return finish(*o)
				}
				intervalStart = stamp
			} else {
				sawDoubleStart = true
			}
			before := nPolls()
			if op.K == "pstart" {
				var ready, wg sync.WaitGroup
				var gate atomic.Bool
				for g := 0; g < op.N; g++ {
					ready.Add(1)
					wg.Add(1)
					go func() {
						defer wg.Done()
						ready.Done()
						for !gate.Load() {
							runtime.Gosched()
						}
						b.reg.Start()
					}()
				}
				ready.Wait()
				gate.Store(true)
				wg.Wait()
				sawDoubleStart = true
			} else {
				b.reg.Start()
			}
			running = true
			// after Start at least one poll arrives
			if !waitFor(30*time.Second, func() bool { return nPolls() > before }) {
				if !strings.Contains(allStacks(), "MetricRegistry).run") {
					return finish(kit.Viol(c.Backend+":start-no-poller", "op %d: no gauge poll arrived after Start and no goroutine is inside the registry's poll loop", i))
				}
				if idlePollerProven(nPolls) {
					return finish(kit.Viol(c.Backend+":started-not-polling", "op %d: after Start (ops so far %v) the poller goroutine exists but is parked and no gauge has been polled for 32 s at a poll period of %v", i, c.Ops[:i+1], period))
				}
				return finish(kit.Outcome{Harness: "no poll within 30 s after Start although a poller exists (inconclusive)"})
			}
		case "restart":
			if !running {
				if o := checkQuiet(clock.Add(1), "while the registry was not started"); o != nil {
					return finish(*o)
				}
			}
			for r := 0; r < op.N; r++ {
				if o := stop(); o != nil {
					return finish(*o)
				}
				b.reg.Start()
			}
			// the registry is started now (whatever it was before): a fresh interval begins here
			before := nPolls()
			intervalStart = clock.Add(1)
			running = true
			if !waitFor(30*time.Second, func() bool { return nPolls() > before }) {
				if !strings.Contains(allStacks(), "MetricRegistry).run") {
					return finish(kit.Viol(c.Backend+":start-no-poller", "op %d: after %d Stop/Start pairs no gauge poll arrives and no goroutine is inside the registry's poll loop", i, op.N))
				}
				if idlePollerProven(nPolls) {
					return finish(kit.Viol(c.Backend+":started-not-polling", "op %d: after %d Stop/Start pairs the poller goroutine exists but is parked and no gauge has been polled for 32 s at a poll period of %v", i, op.N, period))
				}
				return finish(kit.Outcome{Harness: "no poll within 30 s after the restarts although a poller exists (inconclusive)"})
			}
		case "stop":
			if o := stop(); o != nil {
				return finish(*o)
			}
			ret := clock.Add(1)
			if running {
				if o := checkOnePoller(intervalStart, ret); o != nil {
					return finish(*o)
				}
				sawStop = true
			}
			running = false
			quietFrom = ret
			// a late poll is a violation whenever it shows up; give it 20 periods to show up
			time.Sleep(20 * period)
		}
	}
	end := clock.Add(1)
	if !running {
		if o := checkQuiet(end, "after Stop had returned"); o != nil {
			return finish(*o)
		}
	} else {
		if o := checkOnePoller(intervalStart, end); o != nil {
			return finish(*o)
		}
		if o := stop(); o != nil {
			return finish(*o)
		}
		quietFrom = clock.Add(1)
		time.Sleep(20 * period)
		if o := checkQuiet(clock.Add(1), "after the final Stop had returned"); o != nil {
			return finish(*o)
		}
	}
	// gauges reach the backend with the supplier's value
	b.close()
	out.NonTrivial = sawDoubleStart && sawStop && sawPauseAfterStop
	out.Labels = []string{"backend:" + c.Backend, fmt.Sprintf("slow-supplier:%v", c.Slow > 0)}
	if sawDoubleStart {
		out.Labels = append(out.Labels, "start-start")
	}
	if sawLateGauge {
		out.Labels = append(out.Labels, "gauge-registered-while-started")
	}
	return out
}

func TestC20_registry_lifecycle(t *testing.T) {
	kit.RequireMode(t, "std")
	kit.Check(t, kit.Prop[c20LifeCase]{
		ID: "C20", Quick: 40, Thor: 600,
		Rule: "Start/Stop/pause/RegisterGauge sequences on both registries on the real clock (poll period 0.2-1 ms); gauge suppliers record a logical stamp and the calling goroutine's id; no poll outside Start..Stop (observed over 20 periods), one poller goroutine per started interval, Stop returns, a poll arrives after Start; non-trivial = contains Start,Start, a Stop and a pause after it",
		Gen:  genC20L, Run: runC20L, NoShrink: true,
	})
}

// gauges are forwarded with the supplier's value (enumerated probes per backend, prefix, id, value)
type c20GCase struct {
	Backend string  `json:"backend"`
	Prefix  string  `json:"prefix"`
	ID      string  `json:"id"`
	Value   float64 `json:"value"`
}

func runC20G(_ *testing.T, c c20GCase) kit.Outcome {
	b, err := newBackend(c.Backend, c.Prefix, 200*time.Microsecond)
	if err != nil {
		return kit.Outcome{Harness: err.Error()}
	}
	defer b.close()
	var polled atomic.Int64
	v := c.Value
	b.reg.RegisterGauge(c.ID, func() (float64, bool) { polled.Add(1); return v, true })
	b.reg.Start()
	name := b.prefix + strings.TrimPrefix(c.ID, ".")
	ok := waitFor(20*time.Second, func() bool {
		if c.Backend == "gometrics" {
			g, is := b.gmReg.Get(name).(gm.GaugeFloat64)
			return is && g.Value() == v
		}
		_ = b.client.Flush()
		for _, l := range b.cap.take() {
			if n, val, ty, ok := parseStatsd(l); ok && n == name && ty == "g" && val == v {
				return true
			}
		}
		return false
	})
	if !ok {
		// the clock alone proves nothing: distinguish "polled but not forwarded" (a violation
		// whatever the load) from "never polled yet"
		n := polled.Load()
		hasPoller := strings.Contains(allStacks(), "MetricRegistry).run")
		stopRegistry(b.reg)
		switch {
		case n >= 3:
			return kit.Viol(c.Backend+":gauge", "gauge %q (prefix %q) was polled %d times with value %v but the backend never showed it as %q", c.ID, c.Prefix, n, v, name)
		case !hasPoller:
			return kit.Viol(c.Backend+":start-no-poller", "after Start no goroutine is inside the registry's poll loop (gauge %q never polled)", c.ID)
		default:
			return kit.Outcome{Harness: "gauge not polled within 20 s although a poller exists (inconclusive)"}
		}
	}
	stopRegistry(b.reg)
	return kit.Outcome{NonTrivial: true}
}

func TestC20_registry_gauges(t *testing.T) {
	kit.RequireMode(t, "std")
	if kit.Replay != "" {
		kit.Check(t, kit.Prop[c20GCase]{ID: "C20", Run: runC20G})
		return
	}
	d := kit.NewDirect[c20GCase](t, "C20", "enumerated: backend x prefix x gauge id (with/without leading dot) x value; after Start the backend must show a gauge prefix+ID with the supplier's value")
	for _, backend := range []string{"gometrics", "datadog"} {
		for _, prefix := range []string{"pfx", "pfx.", "a.b."} {
			for _, id := range []string{"limit", ".limit", "x.y"} {
				for _, v := range []float64{0, 7, 123.5} {
					c := c20GCase{backend, prefix, id, v}
					if !d.Account(c, runC20G(t, c)) {
						return
					}
				}
			}
		}
	}
}

// ---- every registered gauge is polled on every tick -------------------------------------------

type c20PCase struct {
	Backend string    `json:"backend"`
	Gauges  []float64 `json:"gauges"`  // supplier values
	Decline []bool    `json:"decline"` // supplier i answers ok=false
	Ticks   int       `json:"ticks"`
}

func runC20P(_ *testing.T, c c20PCase) kit.Outcome {
	period := 200 * time.Microsecond
	b, err := newBackend(c.Backend, "p", period)
	if err != nil {
		return kit.Outcome{Harness: err.Error()}
	}
	defer b.close()
	n := len(c.Gauges)
	counts := make([]atomic.Int64, n)
	for i := 0; i < n; i++ {
		i := i
		b.reg.RegisterGauge(fmt.Sprintf("g%02d", i), func() (float64, bool) {
			counts[i].Add(1)
			return c.Gauges[i], !(i < len(c.Decline) && c.Decline[i])
		})
	}
	b.reg.Start()
	max := func() int64 {
		var m int64
		for i := range counts {
			if v := counts[i].Load(); v > m {
				m = v
			}
		}
		return m
	}
	if !waitFor(30*time.Second, func() bool { return max() >= int64(c.Ticks) }) {
		hasPoller := strings.Contains(allStacks(), "MetricRegistry).run")
		stopRegistry(b.reg)
		if !hasPoller {
			return kit.Viol(c.Backend+":start-no-poller", "after Start no goroutine is inside the registry's poll loop")
		}
		return kit.Outcome{Harness: "fewer than the requested ticks within 30 s (inconclusive)"}
	}
	stopRegistry(b.reg) // Stop waits for the poller: only whole ticks have happened
	ticks := max()
	for i := range counts {
		if v := counts[i].Load(); v != ticks {
			return kit.Viol(c.Backend+":gauge-skipped", "after Stop returned, gauge #%d of %d was polled %d times while another was polled %d times: every tick must poll every registered gauge (declining suppliers: %v)", i, n, v, ticks, c.Decline)
		}
	}
	// forwarded values
	if c.Backend == "datadog" {
		_ = b.client.Flush()
	}
	lines := []string{}
	if b.cap != nil {
		lines = b.cap.take()
	}
	for i := 0; i < n; i++ {
		declines := i < len(c.Decline) && c.Decline[i]
		name := fmt.Sprintf("%sg%02d", b.prefix, i)
		seen := false
		if c.Backend == "gometrics" {
			g, is := b.gmReg.Get(name).(gm.GaugeFloat64)
			seen = is && g.Value() == c.Gauges[i]
			if declines {
				seen = is
			}
		} else {
			for _, l := range lines {
				if nm, v, ty, ok := parseStatsd(l); ok && nm == name && ty == "g" && (declines || v == c.Gauges[i]) {
					seen = true
				}
			}
		}
		if !declines && !seen {
			return kit.Viol(c.Backend+":gauge", "gauge %q was polled %d times with value %v but the backend does not show it", name, ticks, c.Gauges[i])
		}
		if declines && seen {
			return kit.Viol(c.Backend+":declined-gauge-forwarded", "gauge %q declined (ok=false) every time, yet the backend shows a value for it", name)
		}
	}
	anyDecline := false
	for _, d := range c.Decline {
		anyDecline = anyDecline || d
	}
	return kit.Outcome{NonTrivial: anyDecline && n >= 3, Labels: []string{"backend:" + c.Backend, fmt.Sprintf("declining:%v", anyDecline)}}
}

func TestC20_registry_pollall(t *testing.T) {
	kit.RequireMode(t, "std")
	kit.Check(t, kit.Prop[c20PCase]{
		ID: "C20", Quick: 60, Thor: 1500,
		Rule: "both registries with 1-16 gauges of which a generated subset answers ok=false: after Start .. Stop every gauge has been polled exactly once per tick (equal counts), accepted values are in the backend, declined ones are not; non-trivial = >=3 gauges with at least one declining",
		Gen: func(t *rapid.T) c20PCase {
			n := rapid.IntRange(1, 16).Draw(t, "n")
			c := c20PCase{Backend: rapid.SampledFrom([]string{"gometrics", "datadog"}).Draw(t, "backend"), Ticks: rapid.IntRange(3, 12).Draw(t, "ticks")}
			for i := 0; i < n; i++ {
				c.Gauges = append(c.Gauges, float64(rapid.IntRange(0, 1000).Draw(t, "v")))
				c.Decline = append(c.Decline, rapid.IntRange(0, 3).Draw(t, "decline") == 0)
			}
			return c
		},
		Run: runC20P, NoShrink: true,
	})
}

// ---- Start called by several goroutines at the same moment -------------------------------------

type c20SCase struct {
	Backend  string `json:"backend"`
	Starters int    `json:"starters"`
	Trials   int    `json:"trials"`
	// Busy: the starters arrive while the registry is busy with something else. "hold" (go-metrics): a registration is
	// in progress inside the caller-supplied go-metrics Registry (a public interface), which keeps it there until every
	// starter is inside Start; "storm": another goroutine registers listeners and gauges in a loop while the starters
	// arrive.
	Busy string `json:"busy,omitempty"`
}

// heldGM is a caller-supplied go-metrics registry whose GetOrRegister can be made to take its time.
type heldGM struct {
	gm.Registry
	armed   atomic.Bool
	entered chan struct{}
	release chan struct{}
}

func (h *heldGM) GetOrRegister(name string, v interface{}) interface{} {
	if h.armed.CompareAndSwap(true, false) {
		close(h.entered)
		<-h.release
	}
	return h.Registry.GetOrRegister(name, v)
}

func runC20S(_ *testing.T, c c20SCase) kit.Outcome {
	period := 200 * time.Microsecond
	for trial := 0; trial < c.Trials; trial++ {
		b, err := newBackend(c.Backend, "p", period)
		if err != nil {
			return kit.Outcome{Harness: err.Error()}
		}
		var held *heldGM
		if c.Busy == "hold" && c.Backend == "gometrics" {
			held = &heldGM{Registry: gm.NewRegistry(), entered: make(chan struct{}), release: make(chan struct{})}
			r, err := gometrics.NewGoMetricsMetricRegistry(held, "", "p", period)
			if err != nil {
				return kit.Outcome{Harness: err.Error()}
			}
			b.reg, b.gmReg = r, held
		}
		var clock atomic.Int64
		var mu sync.Mutex
		var polls []pollRec
		b.reg.RegisterGauge("g", func() (float64, bool) {
			s := clock.Add(1)
			g := kit.GoID()
			mu.Lock()
			polls = append(polls, pollRec{s, g})
			mu.Unlock()
			return 1, true
		})
		var ready, wg sync.WaitGroup
		var gate atomic.Bool
		for g := 0; g < c.Starters; g++ {
			ready.Add(1)
			wg.Add(1)
			go func() {
				defer wg.Done()
				ready.Done()
				for !gate.Load() {
					runtime.Gosched()
				}
				b.reg.Start()
			}()
		}
		ready.Wait()
		var stormStop atomic.Bool
		var stormDone sync.WaitGroup
		if c.Busy == "storm" {
			stormDone.Add(1)
			go func() {
				defer stormDone.Done()
				for i := 0; !stormStop.Load(); i++ {
					b.reg.RegisterCount(fmt.Sprintf("c%d", i%7))
					b.reg.RegisterGauge(fmt.Sprintf("h%d", i%5), func() (float64, bool) { return 0, false })
				}
			}()
		}
		if held != nil {
			held.armed.Store(true)
			go b.reg.RegisterDistribution("held")
			select {
			case <-held.entered:
			case <-time.After(30 * time.Second):
				close(held.release)
				return kit.Outcome{Harness: "the registration did not reach the go-metrics registry within 30 s"}
			}
		}
		gate.Store(true)
		if held != nil {
			// every starter is inside Start (or has returned from it) before the registration is allowed to finish;
			// the wait only decides how much the case exercises, not what it concludes
			waitFor(2*time.Second, func() bool {
				return strings.Count(allStacks(), "gometrics.(*MetricRegistry).Start") >= c.Starters
			})
			close(held.release)
		}
		wg.Wait()
		stormStop.Store(true)
		stormDone.Wait()
		n := func() int { mu.Lock(); defer mu.Unlock(); return len(polls) }
		if !waitFor(30*time.Second, func() bool { return n() >= 3 }) {
			stopRegistry(b.reg)
			b.close()
			if !strings.Contains(allStacks(), "MetricRegistry).run") {
				return kit.Viol(c.Backend+":start-no-poller", "after %d concurrent Start calls no goroutine is inside the poll loop", c.Starters)
			}
			return kit.Outcome{Harness: "fewer than 3 polls within 30 s (inconclusive)"}
		}
		done := make(chan struct{})
		go func() { b.reg.Stop(); close(done) }()
		select {
		case <-done:
		case <-time.After(30 * time.Second):
			b.close()
			return kit.Outcome{Harness: "Stop did not return within 30 s (inconclusive)"}
		}
		stopped := clock.Add(1)
		time.Sleep(20 * period)
		end := clock.Add(1)
		mu.Lock()
		ids := map[int64]int{}
		late := 0
		for _, p := range polls {
			if p.stamp < stopped {
				ids[p.gid]++
			} else if p.stamp < end {
				late++
			}
		}
		mu.Unlock()
		b.reg.Stop()
		b.close()
		if late > 0 {
			return kit.Viol(c.Backend+":poll-outside-start-stop", "trial %d: %d goroutines called Start at the same moment; after Stop had returned the gauge was still polled %d times", trial, c.Starters, late)
		}
		if len(ids) > 1 {
			return kit.Viol(c.Backend+":several-pollers", "trial %d: %d goroutines called Start at the same moment: gauges were polled from %d different goroutines", trial, c.Starters, len(ids))
		}
	}
	return kit.Outcome{NonTrivial: c.Starters >= 2, Labels: []string{"backend:" + c.Backend, "busy:" + c.Busy}}
}

func TestC20_registry_parallel_start(t *testing.T) {
	kit.RequireMode(t, "std")
	kit.Check(t, kit.Prop[c20SCase]{
		ID: "C20", Quick: 24, Thor: 600,
		Rule: "2-8 real threads call Start on a fresh registry at the same moment (spin barrier), 10-30 fresh registries per case, on an idle registry, during a storm of registrations, or while a registration sits inside the caller-supplied go-metrics registry until every starter is inside Start; one poller goroutine only, no poll after Stop returned (observed over 20 periods); non-trivial = at least two starters",
		Gen: func(t *rapid.T) c20SCase {
			c := c20SCase{Backend: rapid.SampledFrom([]string{"gometrics", "datadog"}).Draw(t, "backend"), Starters: rapid.IntRange(2, 8).Draw(t, "starters"), Trials: rapid.IntRange(10, 30).Draw(t, "trials")}
			c.Busy = rapid.SampledFrom([]string{"", "storm", "hold"}).Draw(t, "busy")
			if c.Busy == "hold" {
				if c.Backend != "gometrics" {
					c.Busy = "storm" // nothing caller-supplied runs inside a datadog registration
				} else {
					c.Trials = rapid.IntRange(2, 5).Draw(t, "heldTrials")
				}
			}
			return c
		},
		Run: runC20S, NoShrink: true,
	})
}

// ---- the address-based datadog constructor -----------------------------------------------------------------
//
// NewMetricRegistry(addr, prefix, ...) builds its own statsd client; observed through a UDP listener on the
// loopback interface. Samples must arrive under normalised-prefix + ID, also for the empty prefix (the package
// default "limiter.", as for the go-metrics registry). Waiting for a datagram is bounded by a guard whose expiry
// is inconclusive, never a violation.

type c20ACase struct {
	Prefix string `json:"prefix"`
	Kind   string `json:"kind"` // dist | timing | count | gauge
	ID     int    `json:"id"`
	// Cycles: completed Start..Stop periods the registry has been through before the metric is produced (Stop ends
	// the polling, not the registry: samples are forwarded as before, and a later Start polls again)
	Cycles int `json:"cycles,omitempty"`
}

func runC20A(_ *testing.T, c c20ACase) kit.Outcome {
	pc, err := net.ListenPacket("udp", "127.0.0.1:0")
	if err != nil {
		return kit.Outcome{Labels: []string{"skipped:no-loopback-udp"}} // nothing can be observed here: a skipped case, not a verdict
	}
	defer pc.Close()
	r, err := datadog.NewMetricRegistry(pc.LocalAddr().String(), c.Prefix, 200*time.Microsecond)
	if err != nil {
		return kit.Outcome{Harness: err.Error()}
	}
	id := fmt.Sprintf("m%d", c.ID)
	for i := 0; i < c.Cycles; i++ {
		r.Start()
		stopRegistry(r)
	}
	emit := func() {}
	switch c.Kind {
	case "dist":
		l := r.RegisterDistribution(id)
		emit = func() { l.AddSample(7) }
	case "timing":
		l := r.RegisterTiming(id)
		emit = func() { l.AddSample(7) }
	case "count":
		l := r.RegisterCount(id)
		emit = func() { l.AddSample(7) }
	default:
		r.RegisterGauge(id, func() (float64, bool) { return 7, true })
		r.Start()
		defer stopRegistry(r)
	}
	emit()
	if c.Cycles > 0 {
		return runC20ACycled(c, pc, r, id, emit)
	}
	p := c.Prefix
	if p == "" {
		p = "limiter."
	}
	if !strings.HasSuffix(p, ".") {
		p += "."
	}
	want := p + id
	buf := make([]byte, 65536)
	deadline := time.Now().Add(20 * time.Second)
	var seen []string
	for time.Now().Before(deadline) {
		_ = pc.SetReadDeadline(time.Now().Add(500 * time.Millisecond))
		n, _, err := pc.ReadFrom(buf)
		if err != nil {
			continue
		}
		for _, line := range strings.Split(string(buf[:n]), "\n") {
			name, _, _, ok := parseStatsd(line)
			if !ok {
				continue
			}
			if name == want {
				return kit.Outcome{NonTrivial: true, Labels: []string{"kind:" + c.Kind, fmt.Sprintf("default-prefix:%v", c.Prefix == "")}}
			}
			if strings.HasSuffix(name, id) {
				return kit.Viol("datadog:name", "registry built with NewMetricRegistry(addr, prefix %q): the %s %q reached the statsd endpoint as %q, expected %q", c.Prefix, c.Kind, id, name, want)
			}
			seen = append(seen, name)
		}
	}
	_ = seen
	return kit.Outcome{Labels: []string{"skipped:no-datagram-within-guard"}} // inconclusive by construction (real clock): a skipped case
}

// runC20ACycled: the registry has been through Start..Stop before. Absence of a datagram cannot be judged on a real
// clock by waiting alone, so every round pairs the metric with a control: a metric sent *afterwards* through a fresh
// registry to the same endpoint. Only when, three rounds in a row, the control arrived and a further 3 s (more than the
// client's flush and aggregation periods) passed without the metric - which is produced anew in every round - is the
// metric reported as never forwarded. A round whose control does not arrive makes the case a skipped one.
func runC20ACycled(c c20ACase, pc net.PacketConn, r core.MetricRegistry, id string, emit func()) kit.Outcome {
	p := c.Prefix
	if p == "" {
		p = "limiter."
	}
	if !strings.HasSuffix(p, ".") {
		p += "."
	}
	want := p + id
	buf := make([]byte, 65536)
	sawWant := false
	readUntil := func(deadline time.Time, stop func(name string) bool) bool {
		for time.Now().Before(deadline) {
			_ = pc.SetReadDeadline(time.Now().Add(200 * time.Millisecond))
			n, _, err := pc.ReadFrom(buf)
			if err != nil {
				continue
			}
			for _, line := range strings.Split(string(buf[:n]), "\n") {
				name, _, _, ok := parseStatsd(line)
				if !ok {
					continue
				}
				if name == want {
					sawWant = true
				}
				if stop(name) {
					return true
				}
			}
			if sawWant {
				return true
			}
		}
		return false
	}
	for round := 0; round < 3; round++ {
		emit()
		ctl, err := datadog.NewMetricRegistry(pc.LocalAddr().String(), "ctl", 200*time.Microsecond)
		if err != nil {
			return kit.Outcome{Harness: err.Error()}
		}
		cid := fmt.Sprintf("c%d", round)
		ctl.RegisterCount(cid).AddSample(1)
		got := readUntil(time.Now().Add(20*time.Second), func(name string) bool { return name == "ctl."+cid })
		if sawWant {
			return kit.Outcome{NonTrivial: true, Labels: []string{"kind:" + c.Kind, fmt.Sprintf("after-cycles:%d", c.Cycles)}}
		}
		if !got {
			return kit.Outcome{Labels: []string{"skipped:no-control-datagram-within-guard"}}
		}
		readUntil(time.Now().Add(3*time.Second), func(string) bool { return false })
		if sawWant {
			return kit.Outcome{NonTrivial: true, Labels: []string{"kind:" + c.Kind, fmt.Sprintf("after-cycles:%d", c.Cycles)}}
		}
	}
	return kit.Viol("datadog:not-forwarded-after-stop", "registry built with NewMetricRegistry(addr, prefix %q) after %d completed Start..Stop period(s): the %s %q was produced three times over more than 9 s and never reached the statsd endpoint, while three control metrics sent later through fresh registries all did", c.Prefix, c.Cycles, c.Kind, id)
}

func TestC20_datadog_address_constructor(t *testing.T) {
	kit.RequireMode(t, "std")
	kit.Check(t, kit.Prop[c20ACase]{
		ID: "C20", Quick: 12, Thor: 300,
		Rule: "datadog.NewMetricRegistry (own statsd client, UDP listener on loopback) x prefixes (empty = package default, with / without trailing dot) x metric kinds x 0-2 completed Start..Stop periods beforehand: the metric reaches the endpoint under normalised-prefix + ID (after a Start..Stop period: judged against control metrics sent later through fresh registries, three rounds); non-trivial = a datagram carrying the metric was observed (cases without loopback UDP or without a datagram within the 20 s guard are skipped and labelled)",
		Gen: func(t *rapid.T) c20ACase {
			return c20ACase{Prefix: rapid.SampledFrom([]string{"", "", "p", "p.", "svc.x"}).Draw(t, "prefix"),
				Kind: rapid.SampledFrom([]string{"dist", "timing", "count", "gauge"}).Draw(t, "kind"), ID: rapid.IntRange(0, 99).Draw(t, "id"),
				Cycles: rapid.SampledFrom([]int{0, 0, 1, 2}).Draw(t, "cycles")}
		},
		Run: runC20A, NoShrink: true,
	})
}
