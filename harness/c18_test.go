package harness

// C18 — measurement primitives compute what they name, reset cleanly, report changes.

import (
	"fmt"
	"math"
	"testing"

	"github.com/platinummonkey/go-concurrency-limits/core"
	"github.com/platinummonkey/go-concurrency-limits/measurements"
	"pgregory.net/rapid"

	"verifharness/kit"
)

type c18Op struct {
	K string  `json:"k"` // add | get | reset | mul | plus | addcur (Add(Get())) | addlast (repeat the last sample)
	V float64 `json:"v,omitempty"`
	N int     `json:"n,omitempty"` // addlast: that many times in a row (a long constant stretch: averages converge, changes become tiny)
}

type c18Case struct {
	Type   string  `json:"type"` // min | single | expavg | sema | var | pct
	Window int     `json:"window,omitempty"`
	Warmup int     `json:"warmup,omitempty"`
	Alpha  float64 `json:"alpha,omitempty"`
	Alpha2 float64 `json:"alpha2,omitempty"`
	P      float64 `json:"p,omitempty"`
	Delta  float64 `json:"delta,omitempty"`
	Ops    []c18Op `json:"ops"`
}

func genSample() *rapid.Generator[float64] {
	return rapid.OneOf(
		rapid.Map(rapid.IntRange(1, 20), func(i int) float64 { return float64(i) }),
		rapid.Map(rapid.IntRange(1, 1_000_000), func(i int) float64 { return float64(i) }),
		rapid.Float64Range(1e-3, 1e3),
		rapid.Float64Range(1e3, 1e12),
		rapid.SampledFrom([]float64{1, 1, 100, 100, 0.5, 1e9}),
	)
}

func genC18(t *rapid.T) c18Case {
	c := c18Case{Type: rapid.SampledFrom([]string{"min", "single", "expavg", "sema", "var", "pct"}).Draw(t, "type")}
	switch c.Type {
	case "expavg":
		c.Window = rapid.IntRange(1, 1000).Draw(t, "window")
		c.Warmup = rapid.IntRange(1, 20).Draw(t, "warmup") // 0 would seed the average with the constant 0: degenerate configuration, excluded (DESIGN 6)
	case "sema":
		c.Alpha = genAlpha().Draw(t, "alpha")
	case "var":
		c.Alpha = genAlpha().Draw(t, "alpha")
		c.Alpha2 = genAlpha().Draw(t, "alpha2")
	case "pct":
		c.P = rapid.SampledFrom([]float64{0.1, 0.5, 0.9, 0.99, 0.25}).Draw(t, "p")
		c.Delta = rapid.SampledFrom([]float64{0, 0.001, 0.01, 0.1, 1}).Draw(t, "delta")
		c.Alpha = genAlpha().Draw(t, "alpha")
		c.Alpha2 = genAlpha().Draw(t, "alpha2")
	}
	n := rapid.IntRange(1, 60).Draw(t, "n")
	for i := 0; i < n; i++ {
		k := rapid.SampledFrom([]string{"add", "add", "add", "add", "add", "add", "get", "reset", "mul", "plus", "addcur", "addlast", "addlast"}).Draw(t, "k")
		op := c18Op{K: k}
		switch k {
		case "add":
			op.V = genSample().Draw(t, "v")
			if (c.Type == "min" || c.Type == "single" || c.Type == "expavg" || c.Type == "sema") && rapid.IntRange(0, 5).Draw(t, "edge") == 0 {
				// finite positive samples at the edges of the scale: far below one (a unit other than nanoseconds),
				// and whole nanosecond counts of a second and more that differ by 1 (a relative difference of 1e-9 and less)
				op.V = rapid.OneOf(
					rapid.SampledFrom([]float64{1e-12, 2.5e-12, 4e-10, 8e-10, 9.99e-10, 1e-9, 1.01e-9, 5e-7, 1e-6}),
					rapid.Map(rapid.IntRange(0, 3), func(i int) float64 { return 4_000_000_000 - float64(i) }),
					rapid.Map(rapid.IntRange(0, 3), func(i int) float64 { return 1_000_000_000 + float64(i) }),
					rapid.Map(rapid.IntRange(0, 3), func(i int) float64 { return 3_600_000_000_000 - float64(i) }),
				).Draw(t, "edgeV")
			}
			if c.Type != "min" && rapid.IntRange(0, 7).Draw(t, "zero") == 0 {
				op.V = 0 // a zero sample (RTT >= 0 is the domain; the minimum type keeps 0 as its "unset" sentinel, DESIGN 6)
			}
		case "plus":
			op.V = float64(rapid.OneOf(rapid.IntRange(1, 1000), rapid.IntRange(1, 6)).Draw(t, "c"))
		case "addlast":
			op.N = rapid.SampledFrom([]int{1, 1, 1, 2, 5, 40, 120, 600}).Draw(t, "repeat")
		}
		c.Ops = append(c.Ops, op)
	}
	return c
}

func genAlpha() *rapid.Generator[float64] {
	return rapid.OneOf(rapid.SampledFrom([]float64{1, 0.5, 0.05, 0.2, 0.01, 0.3}), rapid.Float64Range(0.005, 1))
}

func c18New(c c18Case) core.MeasurementInterface {
	switch c.Type {
	case "min":
		return &measurements.MinimumMeasurement{}
	case "single":
		return &measurements.SingleMeasurement{}
	case "expavg":
		return measurements.NewExponentialAverageMeasurement(c.Window, c.Warmup)
	case "sema":
		m, err := measurements.NewSimpleExponentialMovingAverage(c.Alpha)
		if err != nil {
			panic(err)
		}
		return m
	case "var":
		m, err := measurements.NewSimpleMovingVariance(c.Alpha, c.Alpha2)
		if err != nil {
			panic(err)
		}
		return m
	case "pct":
		m, err := measurements.NewWindowlessMovingPercentile(c.P, c.Delta, c.Alpha, c.Alpha2)
		if err != nil {
			panic(err)
		}
		return m
	}
	panic("type " + c.Type)
}

func sameF(a, b float64) bool { return a == b || (math.IsNaN(a) && math.IsNaN(b)) }

func c18Apply(m core.MeasurementInterface, op c18Op) (v float64, flag bool, got float64) {
	switch op.K {
	case "add":
		v, flag = m.Add(op.V)
	case "reset":
		m.Reset()
	case "mul":
		m.Update(func(x float64) float64 { return x * 0.9 })
	case "plus":
		c := op.V
		m.Update(func(x float64) float64 { return x + c })
	}
	return v, flag, m.Get()
}

func runC18(_ *testing.T, c c18Case) (out kit.Outcome) {
	defer func() {
		if r := recover(); r != nil {
			out = kit.Viol(c.Type+":panic", "panic: %v", r)
		}
	}()
	m := c18New(c)
	var twin core.MeasurementInterface // fresh instance created at the last Reset
	// reference state since the last reset
	var (
		count             int
		sum, lo, hi, last float64
		updated           bool // an Update intervened since the last reset
		addsBeforeReset   int
		addsAfterReset    int
		sawReset          bool
		sawNoChange       bool
		prevStdev         float64
		prevStdevKnown    = true // a new instance reports 0
		varWasPositive    bool   // variance type: Get() was > 0 after some earlier Add since the reset (no Update in between)
		outsidePrev       bool   // the sample just added lies outside the range of the earlier samples since the reset
		prevLo, prevHi    float64
	)
	resetRef := func() { count, sum, lo, hi, last, updated = 0, 0, 0, 0, 0, false }
	tol := func(x float64) float64 { return math.Abs(x)*1e-9 + 1e-300 }
	ops := make([]c18Op, 0, len(c.Ops))
	for _, op := range c.Ops {
		for r := 0; r < maxInt(1, op.N); r++ {
			ops = append(ops, c18Op{K: op.K, V: op.V})
		}
	}
	for i, op := range ops {
		before := m.Get()
		switch {
		case op.K == "addcur" && before > 0 && c.Type != "var": // (the variance type stores squared units: feeding it back leaves the sample domain)
			op = c18Op{K: "add", V: before} // a sample exactly equal to the stored value
		case op.K == "addlast" && count > 0:
			op = c18Op{K: "add", V: last} // a constant stretch of samples
		case op.K == "addcur" || op.K == "addlast":
			op = c18Op{K: "get"}
		}
		v, flag, got := c18Apply(m, op)
		if math.IsNaN(got) || math.IsInf(got, 0) {
			return kit.Viol(c.Type+":nonfinite", "op %d %+v: Get()=%v", i, op, got)
		}
		if twin != nil {
			tv, tf, tg := c18Apply(twin, op)
			if op.K == "reset" {
				// both are reset; fall through to replacing the twin below
			} else if !sameF(v, tv) || flag != tf || !sameF(got, tg) {
				return kit.Viol(c.Type+":reset-not-fresh",
					"op %d %+v after Reset: instance returned (%v,%v) Get=%v, a new instance fed the same ops returned (%v,%v) Get=%v",
					i, op, v, flag, got, tv, tf, tg)
			}
		}
		switch op.K {
		case "reset":
			varWasPositive = false
			resetRef()
			prevStdev, prevStdevKnown = 0, true
			twin = c18New(c)
			if g := twin.Get(); !sameF(g, got) {
				return kit.Viol(c.Type+":reset-value", "op %d: Get() after Reset = %v, new instance = %v", i, got, g)
			}
			sawReset = true
			addsAfterReset = 0
		case "add":
			outsidePrev = count >= 1 && (op.V < lo || op.V > hi)
			prevLo, prevHi = lo, hi
			count++
			sum += op.V
			if count == 1 || op.V < lo {
				lo = op.V
			}
			if count == 1 || op.V > hi {
				hi = op.V
			}
			last = op.V
			if sawReset {
				addsAfterReset++
			} else {
				addsBeforeReset++
			}
			// flag: true whenever the stored value changed
			changed := !sameF(before, got)
			if c.Type == "var" {
				// the variance type reports the standard deviation: its flag must be true whenever the
				// returned standard deviation differs from the previously returned one
				changed = prevStdevKnown && !sameF(prevStdev, v)
				if !prevStdevKnown && updated && !sameF(before, got) {
					// right after an Update there is no previously returned deviation to compare with; what Get()
					// reports is the stored value all the same, and it moved
					changed = true
				}
				prevStdev, prevStdevKnown = v, true
			}
			if changed && !flag {
				return kit.Viol(c.Type+":flag", "op %d Add(%v): value changed %v -> %v but flag=false", i, op.V, before, got)
			}
			if !changed {
				sawNoChange = true
			}
			if c.Type != "var" && !sameF(v, got) {
				return kit.Viol(c.Type+":add-return", "op %d Add(%v) returned %v but Get()=%v", i, op.V, v, got)
			}
		case "mul", "plus":
			updated = true
			prevStdevKnown = false // Update overwrites the remembered deviation
		}
		// per-type value oracles
		switch c.Type {
		case "min":
			// Update(op) is documented as "update the value given an operation": the result
			// op(value) competes as a candidate minimum; reference handles it the same way.
			if op.K == "mul" || op.K == "plus" {
				cand := before * 0.9
				if op.K == "plus" {
					cand = before + op.V
				}
				want := before
				if before == 0 || cand < before {
					want = cand
				}
				if !sameF(got, want) {
					return kit.Viol("min:update", "op %d %+v: Get()=%v want %v", i, op, got, want)
				}
			} else if op.K == "add" && !updated {
				if got != lo {
					return kit.Viol("min:value", "op %d Add(%v): Get()=%v, minimum of samples since reset is %v", i, op.V, got, lo)
				}
			} else if op.K == "add" {
				want := before
				if before == 0 || op.V < before {
					want = op.V
				}
				if got != want {
					return kit.Viol("min:value", "op %d Add(%v): Get()=%v want min(%v,%v)", i, op.V, got, before, op.V)
				}
			}
		case "single":
			if op.K == "add" && got != last {
				return kit.Viol("single:value", "op %d Add(%v): Get()=%v", i, op.V, got)
			}
		case "expavg":
			if op.K == "add" {
				if count <= c.Warmup {
					mean := sum / float64(count)
					if math.Abs(got-mean) > tol(mean) {
						return kit.Viol("expavg:warmup-mean", "op %d Add(%v): during warm-up (%d/%d) Get()=%v, arithmetic mean=%v", i, op.V, count, c.Warmup, got, mean)
					}
				}
				if !updated && (got < lo-tol(lo) || got > hi+tol(hi)) {
					return kit.Viol("expavg:hull", "op %d Add(%v): Get()=%v outside [%v,%v] of samples seen", i, op.V, got, lo, hi)
				}
			}
		case "sema":
			if op.K == "add" && !updated {
				if got < lo-tol(lo) || got > hi+tol(hi) {
					return kit.Viol("sema:hull", "op %d Add(%v): Get()=%v outside [%v,%v] of samples seen", i, op.V, got, lo, hi)
				}
				minSamples := int(math.Ceil(1 / c.Alpha))
				if count < minSamples {
					mean := sum / float64(count)
					if math.Abs(got-mean) > math.Abs(mean)*1e-9*float64(count) {
						return kit.Viol("sema:warmup-mean", "op %d Add(%v): warm-up sample %d/%d Get()=%v, arithmetic mean=%v", i, op.V, count, minSamples, got, mean)
					}
				}
			}
		case "var":
			if got < 0 {
				return kit.Viol("var:negative", "op %d %+v: variance Get()=%v < 0", i, op, got)
			}
			if op.K == "add" && !updated && varWasPositive && c.Alpha2 < 1 && got == 0 && before*(1-c.Alpha2) > 1e-300 {
				// (a variance that has decayed to the bottom of the float range - hundreds of identical samples - does
				// underflow to 0 in one step: before x (1 - alpha) must be representable)
				// a variance smoothed with a factor below 1 keeps part of every earlier squared deviation: it cannot fall
				// back to exactly 0 in one step (the configured alphaVariance must be the factor in use)
				return kit.Viol("var:forgotten", "op %d Add(%v): the variance was %v and is smoothed with alphaVariance=%v < 1, yet it reads 0 after one more sample", i, op.V, before, c.Alpha2)
			}
			if op.K == "add" && !updated && outsidePrev && got == 0 {
				// whatever mean the variance is taken around lies within the earlier samples; a sample outside their
				// range deviates from it, so the variance cannot be zero afterwards
				return kit.Viol("var:zero", "op %d Add(%v): the sample lies outside the range [%v,%v] of all %d earlier samples since the reset, yet the variance reads 0", i, op.V, prevLo, prevHi, count-1)
			}
			if op.K == "add" {
				if v < 0 || math.IsNaN(v) {
					return kit.Viol("var:stdev", "op %d Add(%v): returned standard deviation %v", i, op.V, v)
				}
				if math.Abs(v-math.Sqrt(got)) > tol(v) {
					return kit.Viol("var:stdev", "op %d Add(%v): returned %v, sqrt(variance)=%v", i, op.V, v, math.Sqrt(got))
				}
				varWasPositive = !updated && got > 0
			}
		case "pct":
			if op.K == "add" && count == 1 && !updated && got != op.V {
				return kit.Viol("pct:first", "op %d first Add(%v) since reset: Get()=%v", i, op.V, got)
			}
		}
	}
	out.NonTrivial = sawReset && addsBeforeReset >= 3 && addsAfterReset >= 2 && sawNoChange
	out.Labels = []string{"type:" + c.Type}
	if sawReset && addsAfterReset >= 2 {
		out.Labels = append(out.Labels, "reset-then-adds")
	}
	if sawNoChange {
		out.Labels = append(out.Labels, "add-without-change")
	}
	return out
}

func TestC18_ops(t *testing.T) {
	kit.RequireMode(t, "std")
	kit.Check(t, kit.Prop[c18Case]{
		ID: "C18", Quick: 6000, Thor: 1_000_000,
		Rule: "op sequences (Add/Get/Reset/Update) on each measurement type; non-trivial = a Reset after >=3 adds followed by >=2 adds, and an Add that did not change the value; distinct by FNV-64 of the case JSON",
		Gen:  genC18, Run: runC18,
	})
}

// ---- sample window --------------------------------------------------------------------------

type c18WSample struct {
	RTT  int64 `json:"rtt"`
	Inf  int   `json:"inf"`
	Drop bool  `json:"drop,omitempty"`
}
type c18WCase struct {
	Samples []c18WSample `json:"samples"`
	Perm    []int        `json:"perm"`
	// Times: the list is folded that many times over into one window (long-lived windows: tens of thousands of
	// samples). InitN / InitAvg: the fold starts from a window built through the exported constructor that already
	// summarises InitN samples of InitAvg each (0 = the empty window).
	Times   int   `json:"times,omitempty"`
	InitN   int   `json:"init_n,omitempty"`
	InitAvg int64 `json:"init_avg,omitempty"`
}

func genC18W(t *rapid.T) c18WCase {
	n := rapid.IntRange(0, 30).Draw(t, "n")
	var c c18WCase
	for i := 0; i < n; i++ {
		c.Samples = append(c.Samples, c18WSample{
			RTT:  rapid.OneOf(rapid.Int64Range(1, 50), rapid.Int64Range(1, 1<<40)).Draw(t, "rtt"),
			Inf:  rapid.IntRange(0, 1000).Draw(t, "inf"),
			Drop: rapid.IntRange(0, 3).Draw(t, "drop") == 0,
		})
	}
	c.Perm = rapid.Permutation(seq(n)).Draw(t, "perm")
	c.Times = rapid.SampledFrom([]int{1, 1, 1, 1, 1, 1, 2, 20, 300, 3000}).Draw(t, "times")
	if rapid.IntRange(0, 3).Draw(t, "init") == 0 {
		c.InitN = rapid.OneOf(rapid.IntRange(1, 100), rapid.IntRange(1, 1<<20), rapid.SampledFrom([]int{255, 256, 1023, 1024, 32767, 32768, 65535, 65536, 1<<20 - 1})).Draw(t, "initN")
		c.InitAvg = rapid.Int64Range(1, 1<<30).Draw(t, "initAvg")
	}
	return c
}

func seq(n int) []int {
	s := make([]int, n)
	for i := range s {
		s[i] = i
	}
	return s
}

type winSummary struct {
	Min, Avg  int64
	MaxInf, N int
	Drop      bool
}

func summarise(w *measurements.ImmutableSampleWindow) winSummary {
	return winSummary{w.CandidateRTTNanoseconds(), w.AverageRTTNanoseconds(), w.MaxInFlight(), w.SampleCount(), w.DidDrop()}
}

func runC18W(_ *testing.T, c c18WCase) kit.Outcome {
	times := c.Times
	if times < 1 {
		times = 1
	}
	fold := func(order []int) (winSummary, string) {
		w := measurements.NewImmutableSampleWindow(-1, 0, 0, 0, 0, false)
		if c.InitN > 0 {
			w = measurements.NewImmutableSampleWindow(-1, c.InitAvg, c.InitAvg*int64(c.InitN), 0, c.InitN, false)
		}
		for round := 0; round < times; round++ {
			for _, i := range order {
				s := c.Samples[i]
				before := summarise(w)
				var nw *measurements.ImmutableSampleWindow
				if s.Drop {
					nw = w.AddDroppedSample(-1, s.Inf)
				} else {
					nw = w.AddSample(-1, s.RTT, s.Inf)
				}
				if summarise(w) != before {
					return winSummary{}, fmt.Sprintf("receiver changed by adding %+v: %+v -> %+v", s, before, summarise(w))
				}
				w = nw
			}
		}
		return summarise(w), ""
	}
	got, msg := fold(seq(len(c.Samples)))
	if msg != "" {
		return kit.Viol("window:mutated", "%s", msg)
	}
	want := winSummary{Min: math.MaxInt64}
	var sum int64
	if c.InitN > 0 {
		want.Min, want.N, sum = c.InitAvg, c.InitN, c.InitAvg*int64(c.InitN)
	}
	drops := 0
	for _, s := range c.Samples {
		if s.Inf > want.MaxInf {
			want.MaxInf = s.Inf
		}
		if s.Drop {
			want.Drop = true
			drops++
			continue
		}
		want.N += times
		sum += s.RTT * int64(times) // <= 30 samples x 2^40 x 3000 + 2^20 x 2^30: far below 2^63
		if s.RTT < want.Min {
			want.Min = s.RTT
		}
	}
	if want.N > 0 {
		want.Avg = sum / int64(want.N)
	}
	if got != want {
		return kit.Viol("window:fold", "window summary %+v, exact fold of the samples %+v", got, want)
	}
	perm := c.Perm
	if len(perm) != len(c.Samples) {
		perm = seq(len(c.Samples))
	}
	got2, msg := fold(perm)
	if msg != "" {
		return kit.Viol("window:mutated", "%s", msg)
	}
	if got2 != got {
		return kit.Viol("window:order", "summary depends on order: %+v vs %+v", got, got2)
	}
	return kit.Outcome{NonTrivial: drops > 0 && want.N >= 2, Labels: []string{fmt.Sprintf("drops>0:%v", drops > 0), fmt.Sprintf("folded>=65536:%v", want.N >= 65536)}}
}

func TestC18_window(t *testing.T) {
	kit.RequireMode(t, "std")
	kit.Check(t, kit.Prop[c18WCase]{
		ID: "C18", Quick: 3000, Thor: 400_000,
		Rule: "sample lists folded into ImmutableSampleWindow in given and permuted order, 1-3000 times over (windows of up to 90 000 samples) and optionally on top of a window built through the exported constructor that already holds up to 2^20 samples; non-trivial = at least one drop and two successes",
		Gen:  genC18W, Run: runC18W,
	})
}
