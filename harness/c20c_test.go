package harness

// C20 (a) — in-flight samples of a strategy used directly by several goroutines: every admission decision
// reports the count it produced. k admissions that start from an idle strategy and overlap (cooperative
// schedule, yields between the limit check and the increment) therefore report exactly 1..k, once each - in
// the recorded samples and in the tokens' InFlightCount - and so does a second round after everything was
// released.

import (
	"context"
	"fmt"
	"sort"
	"sync"
	"testing"

	"github.com/platinummonkey/go-concurrency-limits/core"
	"github.com/platinummonkey/go-concurrency-limits/strategy"
	"pgregory.net/rapid"

	"verifharness/kit"
)

type c20cCase struct {
	Strategy string    `json:"strategy"` // simple | precise
	K        int       `json:"k"`
	Rounds   int       `json:"rounds"`
	Yields   yieldList `json:"yields"`
	Par      bool      `json:"par,omitempty"`
}

func runC20C(_ *testing.T, c c20cCase) kit.Outcome {
	reg := newRecRegistry()
	var st core.Strategy
	switch c.Strategy {
	case "precise":
		st = strategy.NewPreciseStrategyWithMetricRegistry(c.K+2, reg)
	default:
		st = strategy.NewSimpleStrategyWithMetricRegistry(c.K+2, reg)
	}
	sc := newSched(c.Yields)
	sc.spin = c.Par
	sc.install()
	defer (*sched)(nil).install()
	reg.take()
	overlapped := false
	for round := 0; round < c.Rounds; round++ {
		toks := make([]core.StrategyToken, c.K)
		var wg sync.WaitGroup
		start := make(chan struct{})
		for g := 0; g < c.K; g++ {
			wg.Add(1)
			go func(g int) {
				defer wg.Done()
				<-start
				toks[g], _ = st.TryAcquire(context.Background())
			}(g)
		}
		close(start)
		wg.Wait()
		var fromSamples, fromTokens []int
		for _, s := range reg.take() {
			if s.ID == core.MetricInFlight {
				fromSamples = append(fromSamples, int(s.Value))
			}
		}
		for g, tk := range toks {
			if tk == nil || !tk.IsAcquired() {
				return kit.Viol(c.Strategy+":refused-with-room", "round %d: goroutine %d was refused although the limit is %d and only %d callers exist", round, g, c.K+2, c.K)
			}
			fromTokens = append(fromTokens, tk.InFlightCount())
		}
		sort.Ints(fromSamples)
		sort.Ints(fromTokens)
		want := make([]int, c.K)
		for i := range want {
			want[i] = i + 1
		}
		if fmt.Sprint(fromSamples) != fmt.Sprint(want) {
			return kit.Viol(c.Strategy+":inflight-samples", "round %d: %d overlapping admissions from an idle strategy reported the in-flight samples %v; each admission reports the count it produced: %v; points %v", round, c.K, fromSamples, want, sc.Trace)
		}
		if fmt.Sprint(fromTokens) != fmt.Sprint(want) {
			return kit.Viol(c.Strategy+":token-counts", "round %d: %d overlapping admissions from an idle strategy carry the in-flight counts %v in their tokens, expected %v", round, c.K, fromTokens, want)
		}
		for _, tk := range toks {
			tk.Release()
		}
		reg.take()
	}
	for i, y := range c.Yields {
		if y > 0 && i < c.K*c.Rounds {
			overlapped = true
		}
	}
	return kit.Outcome{NonTrivial: overlapped && c.K >= 2, Labels: []string{"strategy:" + c.Strategy, fmt.Sprintf("k:%d", c.K)}}
}

func TestC20_strategy_samples_Coop(t *testing.T) {
	kit.RequireMode(t, "coop")
	kit.Check(t, kit.Prop[c20cCase]{
		ID: "C20", Quick: 1500, Thor: 200_000,
		Rule: "simple / precise strategy with a recording registry, used directly: 2-5 goroutines acquire at once from the idle strategy under a cooperative schedule (yields between the limit check and the increment), 1-3 rounds; the in-flight samples and the tokens' counts are exactly 1..k; non-trivial = some admission was interrupted between check and increment",
		Gen: func(t *rapid.T) c20cCase {
			return c20cCase{Strategy: rapid.SampledFrom([]string{"simple", "simple", "precise"}).Draw(t, "strategy"), K: rapid.IntRange(2, 5).Draw(t, "k"), Rounds: rapid.IntRange(1, 3).Draw(t, "rounds"),
				Yields: yieldList(rapid.SliceOfN(rapid.SampledFrom([]uint8{0, 1, 1, 2, 3}), 0, 15).Draw(t, "yields"))}
		},
		Run: runC20C,
	})
}

func TestC20_strategy_samples_parallel(t *testing.T) {
	kit.RequireMode(t, "std")
	kit.Check(t, kit.Prop[c20cCase]{
		ID: "C20", Quick: 1500, Thor: 200_000,
		Rule: "as TestC20_strategy_samples_Coop with real threads (spins at the point between check and increment)",
		Gen: func(t *rapid.T) c20cCase {
			return c20cCase{Strategy: rapid.SampledFrom([]string{"simple", "simple", "precise"}).Draw(t, "strategy"), K: rapid.IntRange(2, 8).Draw(t, "k"), Rounds: rapid.IntRange(1, 3).Draw(t, "rounds"),
				Yields: yieldList(rapid.SliceOfN(rapid.SampledFrom([]uint8{0, 1, 1, 2, 3}), 0, 24).Draw(t, "yields")), Par: true}
		},
		Run: runC20C, NoShrink: true,
	})
}
