package harness

// C12 — the reported queue size as an operator sees it: the queue limiter's gauges polled by the bundled registries
// (go-metrics registry, datadog registry over a capturing writer). The backlog is filled and drained in steps; after
// every step, once the registry has polled at least three more times (counted by a gauge of our own in the same
// registry - no wall-clock oracle), the backend must show the number of callers blocked right now, including the
// return to zero.

import (
	"context"
	"fmt"
	"sync"
	"sync/atomic"
	"testing"
	"time"

	"github.com/platinummonkey/go-concurrency-limits/core"
	"github.com/platinummonkey/go-concurrency-limits/limit"
	"github.com/platinummonkey/go-concurrency-limits/limiter"
	"github.com/platinummonkey/go-concurrency-limits/strategy"
	gm "github.com/rcrowley/go-metrics"
	"pgregory.net/rapid"

	"verifharness/kit"
)

type c12rCase struct {
	Backend  string `json:"backend"`
	Ordering string `json:"ordering"`
	Steps    []int  `json:"steps"` // number of callers that should be blocked after each step (0..4)
}

func TestC12_registry_gauge(t *testing.T) {
	kit.RequireMode(t, "std")
	kit.Check(t, kit.Prop[c12rCase]{
		ID: "C12", Quick: 40, Thor: 1500,
		Rule: "queue limiter over each bundled registry (polling every 200 us): the backlog is brought to a generated sequence of sizes (0-4, by blocking callers and by handing tokens through); after >= 3 further polls the backend's queue_size must equal the number of blocked callers; non-trivial = the sequence returns to 0 after a non-zero size",
		Gen: func(t *rapid.T) c12rCase {
			c := c12rCase{Backend: rapid.SampledFrom([]string{"gometrics", "datadog"}).Draw(t, "backend"), Ordering: rapid.SampledFrom([]string{"fifo", "lifo"}).Draw(t, "ordering")}
			c.Steps = rapid.SliceOfN(rapid.IntRange(0, 4), 2, 8).Draw(t, "steps")
			return c
		},
		Run: func(_ *testing.T, c c12rCase) kit.Outcome {
			b, err := newBackend(c.Backend, "q", 200*time.Microsecond)
			if err != nil {
				return kit.Outcome{Harness: err.Error()}
			}
			defer b.close()
			def, err := limiter.NewDefaultLimiter(limit.NewFixedLimit("f", 1, nil), 1e6, 1e6, 1, 10, strategy.NewSimpleStrategy(1), nil, nil)
			if err != nil {
				return kit.Outcome{Harness: err.Error()}
			}
			q := limiter.NewQueueBlockingLimiterFromConfig(def, limiter.QueueLimiterConfig{Ordering: limiter.QueueOrdering(c.Ordering), MaxBacklogSize: 8, MaxBacklogTimeout: time.Hour, MetricRegistry: b.reg})
			var ticks atomic.Int64
			b.reg.RegisterGauge("zz_tick", func() (float64, bool) { ticks.Add(1); return 1, true })
			b.reg.Start()
			defer stopRegistry(b.reg)
			holder, ok := q.Acquire(context.Background())
			if !ok {
				return kit.Outcome{Harness: "first acquire refused"}
			}
			var mu sync.Mutex
			var granted []core.Listener
			blocked := 0
			var wg sync.WaitGroup
			defer func() {
				// unwind: hand the token through every waiter
				for i := 0; i < 20 && blocked > 0; i++ {
					holder.OnIgnore()
					if !waitFor(10*time.Second, func() bool { mu.Lock(); defer mu.Unlock(); return len(granted) > 0 }) {
						return
					}
					mu.Lock()
					holder, granted = granted[0], granted[1:]
					mu.Unlock()
					blocked--
				}
				holder.OnIgnore()
				wg.Wait()
			}()
			name := b.prefix + core.MetricQueueSize
			read := func() (float64, bool) {
				if c.Backend == "gometrics" {
					g, is := b.gmReg.Get(name).(gm.GaugeFloat64)
					if !is {
						return 0, false
					}
					return g.Value(), true
				}
				_ = b.client.Flush()
				v, seen := 0.0, false
				for _, l := range b.cap.take() {
					if n, val, ty, ok := parseStatsd(l); ok && n == name && ty == "g" {
						v, seen = val, true // the latest line wins
					}
				}
				return v, seen
			}
			sawReturnToZero, sawNonZero := false, false
			for si, want := range c.Steps {
				for blocked < want {
					wg.Add(1)
					go func() {
						defer wg.Done()
						if l, ok := q.Acquire(context.Background()); ok {
							mu.Lock()
							granted = append(granted, l)
							mu.Unlock()
						}
					}()
					blocked++
					n := blocked
					if !waitFor(10*time.Second, func() bool { return q.VerifBacklogLen() == n }) {
						return kit.Outcome{Harness: "caller did not reach the backlog within 10 s (inconclusive)"}
					}
				}
				for blocked > want {
					holder.OnSuccess()
					if !waitFor(10*time.Second, func() bool { mu.Lock(); defer mu.Unlock(); return len(granted) > 0 }) {
						return kit.Outcome{Harness: "hand-off did not arrive within 10 s (inconclusive)"}
					}
					mu.Lock()
					holder, granted = granted[0], granted[1:]
					mu.Unlock()
					blocked--
				}
				if c.Backend == "datadog" {
					_ = b.client.Flush()
					b.cap.take() // only lines written from now on count
				}
				from := ticks.Load()
				if !waitFor(20*time.Second, func() bool { return ticks.Load() >= from+3 }) {
					return kit.Outcome{Harness: "fewer than 3 polls within 20 s (inconclusive)"}
				}
				got, seen := read()
				if c.Backend == "datadog" && !seen {
					// the capture was cleared after the step: no line at all since then although >= 3 polls happened
					return kit.Viol(c.Backend+":queue-size-not-reported", "step %d: %d callers are blocked; the registry polled %d more times but wrote no %q gauge", si, want, ticks.Load()-from, name)
				}
				if !seen || got != float64(want) {
					return kit.Viol(c.Backend+":queue-size", "step %d (sizes so far %v): %d callers are blocked (backlog length %d); after %d further polls the backend shows %q = %v (present=%v)", si, c.Steps[:si+1], want, q.VerifBacklogLen(), ticks.Load()-from, name, got, seen)
				}
				if want > 0 {
					sawNonZero = true
				} else if sawNonZero {
					sawReturnToZero = true
				}
			}
			return kit.Outcome{NonTrivial: sawReturnToZero, Labels: []string{"backend:" + c.Backend, fmt.Sprintf("returned-to-zero:%v", sawReturnToZero)}}
		},
		NoShrink: true,
	})
}
