package harness

// C13 — a cancellation that lands while the caller is between "attempt failed" and "asleep" must not
// harm anybody else's bound: caller A's context is cancelled at the very instant A calls Acquire
// (generated cooperative schedule over the delegate / logger schedule points), caller B arrives later
// and must still return refused exactly at its own bound (cancellation or deadline).

import (
	"fmt"
	"testing"
	"testing/synctest"
	"time"

	"pgregory.net/rapid"

	"verifharness/kit"
)

type c13wCase struct {
	Stack    StackCfg  `json:"stack"`
	Order    []int     `json:"order"`             // 0 = A's Acquire, 1 = A's cancellation
	Release  bool      `json:"release,omitempty"` // the holder also releases at that instant (actor 2 in Order: hand-off races with A's give-up)
	BAfterMs int       `json:"b_after_ms"`        // B arrives that long after A
	BBoundMs int       `json:"b_bound_ms"`        // blocking: B is cancelled that long after its arrival (deadline kind: the deadline bounds B)
	Yields   yieldList `json:"yields"`
}

func genC13W(t *rapid.T) c13wCase {
	c := c13wCase{}
	c.Stack.Kind = rapid.SampledFrom([]string{"blocking", "deadline", "queue"}).Draw(t, "kind")
	c.Stack.Limit = 1
	c.Stack.Strategy = rapid.SampledFrom([]string{"simple", "precise"}).Draw(t, "strategy")
	c.Stack.Inject = true
	c.Stack.DeadlineMs = 50
	c.Stack.Backlog = 3
	c.Stack.TimeoutMs = rapid.SampledFrom([]int{0, 30}).Draw(t, "timeout")
	if c.Stack.Kind == "queue" {
		c.Stack.TimeoutMs = 30
		c.Stack.Evict = true
		c.Stack.Ordering = rapid.SampledFrom([]string{"fifo", "lifo"}).Draw(t, "ordering")
	}
	c.Release = rapid.Bool().Draw(t, "release")
	if c.Release {
		c.Order = rapid.Permutation([]int{0, 1, 2}).Draw(t, "order")
	} else {
		c.Order = rapid.Permutation([]int{0, 1}).Draw(t, "order")
	}
	c.BAfterMs = rapid.SampledFrom([]int{0, 1, 5}).Draw(t, "bafter")
	c.BBoundMs = rapid.SampledFrom([]int{1, 7, 20}).Draw(t, "bbound")
	c.Yields = yieldList(rapid.SliceOfN(rapid.SampledFrom([]uint8{0, 0, 1, 1, 2, 3}), 0, 16).Draw(t, "yields"))
	return c
}

func runC13W(t *testing.T, c c13wCase) kit.Outcome {
	return bubble(t, func() kit.Outcome {
		t0 := time.Now()
		sc := newSched(c.Yields)
		sc.arm(false)
		st, err := buildStack(c.Stack, nil, sc, t0)
		if err != nil {
			return kit.Outcome{Harness: err.Error()}
		}
		sc.install()
		defer (*sched)(nil).install()
		w := newWorld(st, t0)
		kind := c.Stack.Kind
		holder := w.newCaller("a", 0, 0)
		w.start(holder)
		synctest.Wait()
		if !holder.Done || !holder.OK {
			return kit.Outcome{Harness: "prefill refused"}
		}
		a := w.newCaller("a", 0, 0)
		sc.arm(true)
		for _, x := range c.Order {
			switch x {
			case 0:
				w.start(a)
			case 1:
				w.wg.Add(1)
				go func() { defer w.wg.Done(); defer notePanic(); a.cancel() }()
			case 2:
				if c.Release {
					w.mu.Lock()
					holder.Released = true
					w.mu.Unlock()
					w.wg.Add(1)
					go func() { defer w.wg.Done(); defer notePanic(); complete(holder.L, 0) }()
				}
			}
		}
		synctest.Wait()
		sc.arm(false)
		// whoever holds the token now keeps it; if it is free, a filler takes it so that B finds the limiter full
		var filler *vtCaller
		if st.busy() < c.Stack.Limit {
			filler = w.newCaller("a", 0, 0)
			w.start(filler)
			synctest.Wait()
			if !filler.Done || !filler.OK {
				w.unwind(2 * time.Second)
				w.flush()
				return kit.Viol(kind+":free-not-granted", "after the scenario the token is free (busy=%d) but a fresh caller was not admitted at once", st.busy())
			}
		}
		if d := time.Duration(c.BAfterMs) * time.Millisecond; d > 0 {
			time.Sleep(d)
			synctest.Wait()
		}
		b := w.newCaller("a", 0, 0)
		w.start(b)
		synctest.Wait()
		bArr := w.now()
		bound := bArr + time.Duration(c.BBoundMs)*time.Millisecond
		why := "cancellation"
		switch kind {
		case "deadline":
			if d := time.Duration(c.Stack.DeadlineMs) * time.Millisecond; d < bound {
				bound, why = d, "deadline"
			}
		case "queue":
			if d := bArr + c.Stack.effTimeout(); d < bound {
				bound, why = d, "backlog timeout"
			}
		}
		time.Sleep(time.Duration(c.BBoundMs) * time.Millisecond)
		b.cancel()
		synctest.Wait()
		time.Sleep(100 * time.Millisecond)
		synctest.Wait()
		w.mu.Lock()
		sa, sb := *a, *b
		w.mu.Unlock()
		var viol *kit.Outcome
		switch {
		case c.Release && (!sa.Done || sa.RetAt != sa.Arrived):
			o := kit.Viol(kind+":cancel-in-window", "caller A (cancelled at the instant of its call while the holder released) should be answered at once; got done=%v ok=%v at +%v; points %v", sa.Done, sa.OK, sa.RetAt, sc.Trace)
			viol = &o
		case !c.Release && (!sa.Done || sa.OK || sa.RetAt != sa.Arrived):
			o := kit.Viol(kind+":cancel-in-window", "caller A (context cancelled at the instant of its call, limiter full) should return refused at once; got done=%v ok=%v at +%v (arrived +%v); points %v", sa.Done, sa.OK, sa.RetAt, sa.Arrived, sc.Trace)
			viol = &o
		case !sb.Done:
			o := kit.Viol(kind+":not-bounded", "caller B (arrived +%v, bound +%v by %s) is still blocked at +%v after another caller's cancellation raced with its going to sleep; points %v", sb.Arrived, bound, why, w.now(), sc.Trace)
			viol = &o
		case sb.OK:
			o := kit.Viol(kind+":granted-without-capacity", "caller B was granted although the only token is still held")
			viol = &o
		case sb.RetAt != bound:
			o := kit.Viol(kind+":bound-instant", "caller B (arrived +%v) returned refused at +%v, its bound is +%v (%s)", sb.Arrived, sb.RetAt, bound, why)
			viol = &o
		}
		w.release(holder, 1)
		if filler != nil {
			w.release(filler, 1)
		}
		w.release(a, 1)
		msg := w.unwind(2 * time.Second)
		w.flush()
		if viol != nil {
			return *viol
		}
		if msg != "" {
			return kit.Viol(kind+":stuck", "%s", msg)
		}
		inWindow := false
		for _, p := range sc.Trace {
			if p == "delegate.failed" {
				inWindow = true
			}
		}
		return kit.Outcome{NonTrivial: inWindow, Labels: []string{"kind:" + kind, fmt.Sprintf("a-attempted:%v", inWindow)}}
	})
}

func TestC13_window_Coop(t *testing.T) {
	kit.RequireMode(t, "coop")
	kit.Check(t, kit.Prop[c13wCase]{
		ID: "C13", Quick: 2500, Thor: 200_000,
		Rule: "blocking / deadline / evicting queue limiter, full: caller A's Acquire and A's cancellation start at one virtual instant under a generated cooperative schedule (yields around the delegate attempt and at the limiter's log calls); caller B arrives later and must return refused exactly at its own bound; non-trivial = A got as far as its failed attempt before the cancellation took effect",
		Gen:  genC13W, Run: runC13W, Timeout: 30 * time.Second,
	})
}
