package harness

// C09 — completions from several goroutines at once: the window still folds every one of them.
// M tokens are acquired, then completed in parallel with a window size of M-1: the algorithm must
// receive exactly one update whose in-flight maximum is M and whose drop flag is set iff a drop was
// among them (whatever the interleaving, because the update needs all M-k successes to be counted).

import (
	"context"
	"fmt"
	"sync"
	"testing"
	"time"

	"github.com/platinummonkey/go-concurrency-limits/core"
	"github.com/platinummonkey/go-concurrency-limits/limiter"
	"github.com/platinummonkey/go-concurrency-limits/strategy"
	"pgregory.net/rapid"

	"verifharness/kit"
)

type c09pCase struct {
	M       int `json:"m"`
	Workers int `json:"workers"`
	Drops   int `json:"drops"`   // that many of the M completions are drops
	Ignores int `json:"ignores"` // and that many are ignored
	// Early: the window is ready long before the last completion (window size = a third of the successes, period one
	// hour): many completions find a ready, due window at the same moment, exactly one of them may deliver the update
	Early bool `json:"early,omitempty"`
}

func TestC09_parallel(t *testing.T) {
	kit.RequireMode(t, "std")
	kit.Check(t, kit.Prop[c09pCase]{
		ID: "C09", Quick: 300, Thor: 15_000,
		Rule: "M (50-2000) tokens acquired, then completed by 2-16 real threads at once (successes, a few drops and ignores) with window size = successes-1: exactly one update, max in-flight M, no drop flag without a drop; non-trivial = M >= 200 with drops and ignores",
		Gen: func(t *rapid.T) c09pCase {
			c := c09pCase{M: rapid.SampledFrom([]int{50, 200, 500, 2000}).Draw(t, "m"), Workers: rapid.IntRange(2, 16).Draw(t, "workers")}
			c.Drops = rapid.IntRange(0, 5).Draw(t, "drops")
			c.Ignores = rapid.IntRange(0, 5).Draw(t, "ignores")
			c.Early = rapid.Bool().Draw(t, "early")
			return c
		},
		Run: func(_ *testing.T, c c09pCase) kit.Outcome {
			rec := &lockedRecLimit{est: c.M + 10}
			succ := c.M - c.Drops - c.Ignores
			win := succ - 1
			if c.Early {
				win = maxInt(10, succ/3)
			}
			lim, err := limiter.NewDefaultLimiter(rec, int64(time.Hour), int64(time.Hour), 1, win, strategy.NewPreciseStrategy(c.M+10), nil, nil)
			if err != nil {
				return kit.Outcome{Harness: err.Error()}
			}
			toks := make([]core.Listener, 0, c.M)
			for i := 0; i < c.M; i++ {
				l, ok := lim.Acquire(context.Background())
				if !ok {
					return kit.Outcome{Harness: "acquire refused"}
				}
				toks = append(toks, l)
			}
			time.Sleep(50 * time.Microsecond) // every RTT is well above the 1 ns threshold
			start := make(chan struct{})
			var wg sync.WaitGroup
			for g := 0; g < c.Workers; g++ {
				wg.Add(1)
				go func(g int) {
					defer wg.Done()
					<-start
					for i := g; i < c.M; i += c.Workers {
						switch {
						case i < c.Drops:
							toks[i].OnDropped()
						case i < c.Drops+c.Ignores:
							toks[i].OnIgnore()
						default:
							toks[i].OnSuccess()
						}
					}
				}(g)
			}
			close(start)
			wg.Wait()
			got := rec.snapshot()
			if len(got) != 1 {
				return kit.Viol("default:parallel-fold", "%d tokens completed by %d threads at once (%d successes, %d drops, %d ignored; window needs all %d successes): the algorithm received %d updates, expected exactly 1", c.M, c.Workers, succ, c.Drops, c.Ignores, succ, len(got))
			}
			if c.Early {
				// which completions the one update covers depends on the interleaving; that there is exactly one within
				// the period does not
				if u := got[0]; u.Inf > c.M || u.Inf <= win-c.Drops-c.Ignores-1 {
					return kit.Viol("default:parallel-aggregate", "early window (size %d) of %d completions: update %+v carries an impossible in-flight maximum", win, c.M, u)
				}
				return kit.Outcome{NonTrivial: c.M >= 200, Labels: []string{fmt.Sprintf("m:%d", c.M), "early-window"}}
			}
			u := got[0]
			// a drop completing after the last success belongs to the next window: the flag may then be false;
			// it must never be set without any drop, and the maximum in-flight (held by a success) must be there
			if u.Inf != c.M || (u.Drop && c.Drops == 0) {
				return kit.Viol("default:parallel-aggregate", "update %+v, expected max in-flight %d (drops among the completions: %d)", u, c.M, c.Drops)
			}
			return kit.Outcome{NonTrivial: c.M >= 200 && c.Drops > 0 && c.Ignores > 0, Labels: []string{fmt.Sprintf("m:%d", c.M)}}
		},
		NoShrink: true,
	})
}

type lockedRecLimit struct {
	mu  sync.Mutex
	est int
	got []Sample
}

func (r *lockedRecLimit) EstimatedLimit() int                     { return r.est }
func (r *lockedRecLimit) NotifyOnChange(core.LimitChangeListener) {}
func (r *lockedRecLimit) OnSample(start, rtt int64, inf int, drop bool) {
	r.mu.Lock()
	r.got = append(r.got, Sample{RTT: rtt, Inf: inf, Drop: drop})
	r.mu.Unlock()
}
func (r *lockedRecLimit) snapshot() []Sample {
	r.mu.Lock()
	defer r.mu.Unlock()
	return append([]Sample(nil), r.got...)
}
