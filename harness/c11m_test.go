package harness

// C11 — order on a limiter that has been saturated for a very long time. One caller sits at the far end of the line
// (the bottom of a LIFO stack, behind a standing queue in FIFO) while tens of thousands of later callers arrive and are
// served: whatever numbering, ticketing or recycling the backlog uses internally, every single release must serve the
// caller the configured order names. Real goroutines on the real clock, no timing oracle: arrivals are sequenced by
// waiting for the reported queue size, every release is followed by exactly one return, and its owner is compared with
// the model's head of the line. The backlog timeout is an hour, nobody expires.

import (
	"context"
	"fmt"
	"runtime"
	"testing"
	"time"

	"github.com/platinummonkey/go-concurrency-limits/core"
	"pgregory.net/rapid"

	"verifharness/kit"
)

type c11mCase struct {
	Stack    StackCfg `json:"stack"`
	Standing int      `json:"standing"` // callers already waiting before the rounds start
	Rounds   int      `json:"rounds"`
}

func TestC11_marathon(t *testing.T) {
	kit.RequireMode(t, "std")
	kit.Check(t, kit.Prop[c11mCase]{
		ID: "C11", Quick: 10, Thor: 400,
		Rule: "queue limiters / ordered pools (limit 1, one-hour backlog timeout) with 1-3 callers waiting, then 300-70000 rounds of 'a new caller arrives, the token is released': every release serves the head of the configured order (LIFO: the newcomer, the first waiters stay at the bottom throughout; FIFO: the longest-waiting); non-trivial = at least 33000 rounds",
		Gen: func(t *rapid.T) c11mCase {
			var c c11mCase
			c.Stack.Kind = rapid.SampledFrom([]string{"queue", "queue", "lifo-dep", "fifo-dep", "pool", "fixedpool"}).Draw(t, "kind")
			c.Stack.Strategy = rapid.SampledFrom([]string{"simple", "precise"}).Draw(t, "strategy")
			c.Stack.Limit = 1
			c.Stack.Backlog = 8
			c.Stack.TimeoutMs = 3_600_000
			switch c.Stack.Kind {
			case "queue":
				c.Stack.Ordering = rapid.SampledFrom([]string{"lifo", "lifo", "fifo", ""}).Draw(t, "ordering")
			case "pool", "fixedpool":
				c.Stack.Ordering = rapid.SampledFrom([]string{"lifo", "lifo", "fifo"}).Draw(t, "ordering")
				if c.Stack.Kind == "fixedpool" {
					c.Stack.Strategy = ""
				}
			}
			c.Standing = rapid.IntRange(1, 3).Draw(t, "standing")
			c.Rounds = rapid.SampledFrom([]int{300, 33000, 33000, 40000, 70000}).Draw(t, "rounds")
			return c
		},
		Run:      runC11M,
		NoShrink: true,
		Timeout:  5 * time.Minute,
	})
}

func runC11M(_ *testing.T, c c11mCase) kit.Outcome {
	st, err := buildStack(c.Stack, nil, nil, time.Now())
	if err != nil {
		return kit.Outcome{Harness: "stack: " + err.Error()}
	}
	lifo := c.Stack.wantLIFO()
	kind := c.Stack.Kind
	queued := func() int {
		if st.queue != nil {
			return st.queue.VerifBacklogLen()
		}
		v, _ := st.reg.gauge(core.MetricQueueSize, "")
		return int(v)
	}
	type ret struct {
		id int
		l  core.Listener
		ok bool
	}
	returns := make(chan ret, 16)
	ctx, cancelAll := context.WithCancel(context.Background())
	defer cancelAll()
	nextID := 0
	arrive := func() (int, bool) {
		id := nextID
		nextID++
		before := queued()
		go func() {
			l, ok := st.lim.Acquire(stackKeyCtx(ctx, "a"))
			returns <- ret{id, l, ok}
		}()
		deadline := time.Now().Add(60 * time.Second)
		for queued() != before+1 {
			if time.Now().After(deadline) {
				return id, false
			}
			runtime.Gosched()
		}
		return id, true
	}
	holder, ok := st.lim.Acquire(stackKeyCtx(ctx, "a"))
	if !ok || holder == nil {
		return kit.Outcome{Harness: "prefill refused"}
	}
	var line []int // waiting callers, oldest first
	unwind := func() {
		// serve everybody who still waits, then stop
		for len(line) > 0 {
			holder.OnIgnore()
			select {
			case r := <-returns:
				if !r.ok || r.l == nil {
					return
				}
				holder = r.l
				for i, id := range line {
					if id == r.id {
						line = append(line[:i], line[i+1:]...)
						break
					}
				}
			case <-time.After(30 * time.Second):
				return
			}
		}
		holder.OnIgnore()
	}
	for i := 0; i < c.Standing; i++ {
		id, ok := arrive()
		if !ok {
			unwind()
			return kit.Outcome{Harness: "a caller did not show up in the backlog within 60 s (inconclusive)"}
		}
		line = append(line, id)
	}
	for r := 0; r < c.Rounds; r++ {
		id, ok := arrive()
		if !ok {
			unwind()
			return kit.Outcome{Harness: "a caller did not show up in the backlog within 60 s (inconclusive)"}
		}
		line = append(line, id)
		want := line[0]
		if lifo {
			want = line[len(line)-1]
		}
		complete(holder, r)
		var got ret
		select {
		case got = <-returns:
		case <-time.After(60 * time.Second):
			cancelAll()
			return kit.Outcome{Harness: fmt.Sprintf("round %d: nobody returned within 60 s of a release (inconclusive here; C10 judges lost wake-ups)", r)}
		}
		if !got.ok || got.l == nil {
			unwind()
			return kit.Viol(kind+":marathon-order", "round %d: caller %d returned refused although the backlog timeout is an hour (waiting, oldest first: %v)", r, got.id, line)
		}
		holder = got.l
		if got.id != want {
			served := got.id
			for i, id := range line {
				if id == served {
					line = append(line[:i], line[i+1:]...)
					break
				}
			}
			unwind()
			return kit.Viol(kind+":marathon-order", "round %d of a permanently saturated %s limiter: the release served caller %d, the %s order among the waiting callers puts caller %d first (callers 0..%d have been waiting since before the first round)", r, kind, served, ordName(lifo), want, c.Standing-1)
		}
		if lifo {
			line = line[:len(line)-1]
		} else {
			line = line[1:]
		}
	}
	unwind()
	return kit.Outcome{NonTrivial: c.Rounds >= 33000, Labels: []string{"kind:" + kind, "order:" + ordName(lifo), fmt.Sprintf("rounds:%d", c.Rounds)}}
}
