package harness

// C17 — concurrent use of the public API is free of data races (race-detector stress).
//
// Runs only in the -race binary (mode "race"). A case = subject + goroutines x generated method
// calls from that subject's table of exported methods, released together by a start barrier.
// Oracle = the Go race detector (GORACE halt_on_error: the process exits 66 at the first report,
// the driver turns that into the VIOLATION; the case being run is saved before it starts).

import (
	"context"
	"encoding/json"
	"fmt"
	"io"
	"os"
	"path/filepath"
	"sync"
	"testing"
	"time"

	"github.com/DataDog/datadog-go/v5/statsd"
	"github.com/platinummonkey/go-concurrency-limits/core"
	"github.com/platinummonkey/go-concurrency-limits/limit"
	"github.com/platinummonkey/go-concurrency-limits/limit/functions"
	"github.com/platinummonkey/go-concurrency-limits/measurements"
	"github.com/platinummonkey/go-concurrency-limits/metric_registry/datadog"
	"github.com/platinummonkey/go-concurrency-limits/metric_registry/gometrics"
	"github.com/platinummonkey/go-concurrency-limits/strategy"
	"github.com/platinummonkey/go-concurrency-limits/strategy/matchers"
	gm "github.com/rcrowley/go-metrics"
	"pgregory.net/rapid"

	"verifharness/kit"
)

type c17Case struct {
	Subject string  `json:"subject"`
	Progs   [][]int `json:"progs"` // per goroutine: indexes into the subject's method table (mod len)
	Repeat  int     `json:"repeat"`
}

// c17Method is one exported-API call on the shared subject. arg varies the arguments.
type c17Method struct {
	Name    string
	Mutator bool
	Call    func(g, arg int)
}

type c17Subject struct {
	Name  string
	Build func() (methods []c17Method, cleanup func())
}

type stringer interface{ String() string }

func limitMethods(l core.Limit, extra ...c17Method) []c17Method {
	m := []c17Method{
		{"OnSample", true, func(g, a int) { l.OnSample(int64(a)*1e6, int64(1+a%1000)*1000, a%40, a%7 == 0) }},
		{"OnSampleSaturated", true, func(g, a int) { l.OnSample(int64(a)*1e6, 5000, 1000, false) }},
		{"EstimatedLimit", false, func(g, a int) { _ = l.EstimatedLimit() }},
		{"NotifyOnChange", true, func(g, a int) { l.NotifyOnChange(func(int) {}) }},
	}
	if s, ok := l.(stringer); ok {
		m = append(m, c17Method{"String", false, func(g, a int) { _ = s.String() }})
	}
	if r, ok := l.(rttNoLoader); ok {
		m = append(m, c17Method{"RTTNoLoad", false, func(g, a int) { _ = r.RTTNoLoad() }})
	}
	return append(m, extra...)
}

func measurementMethods(m core.MeasurementInterface) []c17Method {
	ms := []c17Method{
		{"Add", true, func(g, a int) { m.Add(float64(1 + a%100)) }},
		{"Get", false, func(g, a int) { _ = m.Get() }},
		{"Reset", true, func(g, a int) { m.Reset() }},
		{"Update", true, func(g, a int) { m.Update(func(v float64) float64 { return v*0.9 + 1 }) }},
	}
	if s, ok := m.(stringer); ok {
		ms = append(ms, c17Method{"String", false, func(g, a int) { _ = s.String() }})
	}
	return ms
}

// tokenBag: tokens acquired by one goroutine and not yet released (goroutine-local by index).
type tokenBag struct {
	mu sync.Mutex
	l  [][]core.Listener
	t  [][]core.StrategyToken
	// refused[g]: the token goroutine g got with its latest refused request
	refused []core.StrategyToken
}

func newBag() *tokenBag {
	return &tokenBag{l: make([][]core.Listener, 16), t: make([][]core.StrategyToken, 16), refused: make([]core.StrategyToken, 16)}
}

func limiterMethods(l core.Limiter, bag *tokenBag, blocking bool) []c17Method {
	acq := func(g, a int) {
		ctx := stackKeyCtx(context.Background(), []string{"a", "b", "zz"}[a%3])
		var cancel context.CancelFunc = func() {}
		if blocking {
			ctx, cancel = context.WithTimeout(ctx, 2*time.Millisecond)
		}
		ls, ok := l.Acquire(ctx)
		cancel()
		if ok && ls != nil {
			bag.l[g] = append(bag.l[g], ls)
		}
	}
	done := func(g, a int) {
		if n := len(bag.l[g]); n > 0 {
			ls := bag.l[g][n-1]
			bag.l[g] = bag.l[g][:n-1]
			complete(ls, a)
		}
	}
	cycle := func(g, a int) { // acquire + immediate success: feeds the sampling window quickly
		for i := 0; i < 3; i++ {
			ctx := stackKeyCtx(context.Background(), "a")
			var cancel context.CancelFunc = func() {}
			if blocking {
				ctx, cancel = context.WithTimeout(ctx, time.Millisecond)
			}
			ls, ok := l.Acquire(ctx)
			cancel()
			if ok && ls != nil {
				ls.OnSuccess()
			}
		}
	}
	m := []c17Method{{"Acquire", true, acq}, {"Complete", true, done}, {"Complete2", true, done}, {"SuccessCycle", true, cycle}}
	if s, ok := l.(stringer); ok {
		m = append(m, c17Method{"String", false, func(g, a int) { _ = s.String() }})
	}
	if e, ok := l.(interface{ EstimatedLimit() int }); ok {
		m = append(m, c17Method{"EstimatedLimit", false, func(g, a int) { _ = e.EstimatedLimit() }})
	}
	return m
}

func drainBag(bag *tokenBag) func() {
	return func() {
		for g := range bag.l {
			for _, l := range bag.l[g] {
				l.OnIgnore()
			}
			for _, t := range bag.t[g] {
				t.Release()
			}
		}
	}
}

type nopWriteCloser struct{ io.Writer }

func (nopWriteCloser) Close() error { return nil }

func registryMethods(r core.MetricRegistry, flush func()) []c17Method {
	var mu sync.Mutex
	var ls []core.MetricSampleListener
	add := func(l core.MetricSampleListener) {
		mu.Lock()
		ls = append(ls, l)
		mu.Unlock()
	}
	return []c17Method{
		{"RegisterDistribution", true, func(g, a int) { add(r.RegisterDistribution(fmt.Sprintf("d%d", a%5), "t:1")) }},
		{"RegisterDistributionSpareTags", true, func(g, a int) {
			// registration tags in a slice with spare capacity (built with append, as callers do)
			tags := append(make([]string, 0, 8), "t:1", "u:2")
			add(r.RegisterDistribution(fmt.Sprintf("ds%d", a%5), tags...))
			add(r.RegisterCount(fmt.Sprintf("cs%d", a%5), tags...))
		}},
		{"RegisterTiming", true, func(g, a int) { add(r.RegisterTiming(fmt.Sprintf("t%d", a%5))) }},
		{"RegisterCount", true, func(g, a int) { add(r.RegisterCount(fmt.Sprintf("c%d", a%5))) }},
		{"RegisterGauge", true, func(g, a int) {
			// mostly new IDs: registration keeps writing the gauge map while the poller iterates it
			r.RegisterGauge(fmt.Sprintf("g%d.%d", g, a), func() (float64, bool) { return float64(a), true })
		}},
		{"RegisterGaugeAgain", true, func(g, a int) {
			r.RegisterGauge(fmt.Sprintf("g%d", a%5), func() (float64, bool) { return float64(a), true })
		}},
		{"AddSample", true, func(g, a int) {
			mu.Lock()
			var l core.MetricSampleListener
			if len(ls) > 0 {
				l = ls[a%len(ls)]
			}
			mu.Unlock()
			if l != nil {
				l.AddSample(float64(a % 50))
			}
		}},
		{"AddSampleWithTags", true, func(g, a int) {
			mu.Lock()
			var l core.MetricSampleListener
			if len(ls) > 0 {
				l = ls[a%len(ls)]
			}
			mu.Unlock()
			if l != nil {
				l.AddSample(float64(a%50), fmt.Sprintf("k:%d", g), "w:x") // per-sample tags
			}
		}},
		{"Start", true, func(g, a int) { r.Start() }},
		{"Stop", true, func(g, a int) {
			if a%4 == 0 {
				r.Stop()
			}
		}},
		{"Flush", false, func(g, a int) { flush() }},
	}
}

func c17Subjects() []c17Subject {
	reg := func() core.MetricRegistry { return newRecRegistry() }
	mkLimit := func(name string, f func() core.Limit) c17Subject {
		return c17Subject{name, func() ([]c17Method, func()) { return limitMethods(f()), func() {} }}
	}
	subs := []c17Subject{
		mkLimit("aimd", func() core.Limit { return limit.NewAIMDLimit("t", 10, 0.9, 1, reg()) }),
		{"aimd+ratio", func() ([]c17Method, func()) {
			l := limit.NewAIMDLimit("t", 10, 0.9, 1, reg())
			return limitMethods(l, c17Method{"BackOffRatio", false, func(g, a int) { _ = l.BackOffRatio() }}), func() {}
		}},
		mkLimit("vegas", func() core.Limit { return limit.NewDefaultVegasLimitWithLimit("t", 10, nil, reg()) }),
		mkLimit("vegas(probe=1)", func() core.Limit {
			// probes every few samples: the baseline measurement object is replaced all the time
			return limit.NewVegasLimitWithRegistry("t", 3, nil, 20, 0.5, nil, nil, nil, nil, nil, 1, nil, reg())
		}),
		mkLimit("gradient(probe=2)", func() core.Limit {
			return limit.NewGradientLimitWithRegistry("t", 10, 1, 100, 0.2, nil, 2, 2, nil, reg())
		}),
		mkLimit("gradient", func() core.Limit {
			return limit.NewGradientLimitWithRegistry("t", 10, 1, 100, 0.2, nil, 2, 20, nil, reg())
		}),
		mkLimit("gradient2", func() core.Limit { return limit.NewDefaultGradient2Limit("t", nil, reg()) }),
		{"settable", func() ([]c17Method, func()) {
			l := limit.NewSettableLimit("t", 10, reg())
			return limitMethods(l, c17Method{"SetLimit", true, func(g, a int) { l.SetLimit(1 + a%20) }}), func() {}
		}},
		mkLimit("fixed", func() core.Limit { return limit.NewFixedLimit("t", 10, reg()) }),
		mkLimit("windowed(vegas)", func() core.Limit {
			return limit.NewDefaultWindowedLimit("w", limit.NewDefaultVegasLimitWithLimit("t", 10, nil, reg()), reg())
		}),
		mkLimit("windowed(aimd)", func() core.Limit {
			w, _ := limit.NewWindowedLimit("w", 1e8, 1e8, 10, 0, limit.NewAIMDLimit("t", 10, 0.9, 1, nil), nil)
			return w
		}),
		mkLimit("traced(gradient2)", func() core.Limit {
			return limit.NewTracedLimit(limit.NewDefaultGradient2Limit("t", nil, nil), limit.NoopLimitLogger{})
		}),
		// wrappers whose delegate is also used directly (the caller keeps the settable / algorithm it wrapped): the
		// delegate's estimate moves through its own API while listeners are registered and samples arrive through the wrapper
		{"windowed(settable)+delegate", func() ([]c17Method, func()) {
			d := limit.NewSettableLimit("t", 10, reg())
			w, _ := limit.NewWindowedLimit("w", 1e8, 1e8, 10, 0, d, reg())
			return limitMethods(w, c17Method{"Delegate.SetLimit", true, func(g, a int) { d.SetLimit(1 + a%20) }},
				c17Method{"Delegate.NotifyOnChange", true, func(g, a int) { d.NotifyOnChange(func(int) {}) }}), func() {}
		}},
		{"windowed(aimd)+delegate", func() ([]c17Method, func()) {
			d := limit.NewAIMDLimit("t", 10, 0.9, 1, nil)
			w, _ := limit.NewWindowedLimit("w", 1e8, 1e8, 10, 0, d, nil)
			return limitMethods(w, c17Method{"Delegate.OnSample", true, func(g, a int) { d.OnSample(0, int64(1+a%9), 10+a%20, a%7 == 0) }}), func() {}
		}},
		{"traced(settable,debug-logger)+delegate", func() ([]c17Method, func()) {
			d := limit.NewSettableLimit("t", 10, reg())
			w := limit.NewTracedLimit(d, debugDiscardLogger{}) // a logger with debug output enabled: the wrapper's tracing code really runs
			return limitMethods(w, c17Method{"Delegate.SetLimit", true, func(g, a int) { d.SetLimit(1 + a%20) }}), func() {}
		}},
		mkLimit("traced(aimd,debug-logger)", func() core.Limit {
			return limit.NewTracedLimit(limit.NewAIMDLimit("t", 10, 0.9, 1, nil), debugDiscardLogger{})
		}),
		{"traced(settable)+delegate", func() ([]c17Method, func()) {
			d := limit.NewSettableLimit("t", 10, reg())
			w := limit.NewTracedLimit(d, limit.NoopLimitLogger{})
			return limitMethods(w, c17Method{"Delegate.SetLimit", true, func(g, a int) { d.SetLimit(1 + a%20) }}), func() {}
		}},
	}
	// two independent instances of one type used by different goroutines (they must not share hidden state)
	mkTwo := func(name string, f func() core.Limit) c17Subject {
		return c17Subject{name, func() ([]c17Method, func()) {
			a, b := limitMethods(f()), limitMethods(f())
			ms := make([]c17Method, len(a))
			for i := range a {
				ma, mb := a[i], b[i]
				ms[i] = c17Method{ma.Name, ma.Mutator, func(g, x int) {
					if g%2 == 0 {
						ma.Call(g, x)
					} else {
						mb.Call(g, x)
					}
				}}
			}
			// fresh instances are also constructed while the others are in use
			ms = append(ms, c17Method{"Construct", true, func(g, x int) { _ = f().EstimatedLimit() }})
			return ms, func() {}
		}}
	}
	subs = append(subs,
		mkTwo("2x gradient(probe=2)", func() core.Limit {
			return limit.NewGradientLimitWithRegistry("t", 10, 1, 100, 0.2, nil, 2, 2, nil, nil)
		}),
		mkTwo("2x vegas(probe=1)", func() core.Limit {
			return limit.NewVegasLimitWithRegistry("t", 3, nil, 20, 0.5, nil, nil, nil, nil, nil, 1, nil, nil)
		}),
		mkTwo("2x gradient2", func() core.Limit { return limit.NewDefaultGradient2Limit("t", nil, nil) }),
		mkTwo("2x aimd", func() core.Limit { return limit.NewAIMDLimit("t", 10, 0.9, 1, nil) }),
	)
	// strategies
	strategyMethods := func(st core.Strategy, bag *tokenBag, extra ...c17Method) []c17Method {
		m := []c17Method{
			{"TryAcquire", true, func(g, a int) {
				tk, ok := st.TryAcquire(stackKeyCtx(context.Background(), []string{"a", "b", "zz"}[a%3]))
				_, _ = tk.IsAcquired(), tk.InFlightCount() // the token's own accessors, granted or refused
				if ok {
					bag.t[g] = append(bag.t[g], tk)
				} else {
					bag.refused[g] = tk // a caller may keep the token of its refused request and look at it later
				}
			}},
			{"TokenAccessors", false, func(g, a int) {
				if tk := bag.refused[g]; tk != nil {
					_, _ = tk.IsAcquired(), tk.InFlightCount()
				}
				if n := len(bag.t[g]); n > 0 {
					_, _ = bag.t[g][n-1].IsAcquired(), bag.t[g][n-1].InFlightCount()
				}
			}},
			{"Release", true, func(g, a int) {
				if n := len(bag.t[g]); n > 0 {
					tk := bag.t[g][n-1]
					bag.t[g] = bag.t[g][:n-1]
					tk.Release()
				}
			}},
			{"SetLimit", true, func(g, a int) { st.SetLimit(1 + a%8) }},
		}
		if s, ok := st.(stringer); ok {
			m = append(m, c17Method{"String", false, func(g, a int) { _ = s.String() }})
		}
		return append(m, extra...)
	}
	subs = append(subs,
		c17Subject{"simple-strategy", func() ([]c17Method, func()) {
			s := strategy.NewSimpleStrategyWithMetricRegistry(3, reg())
			bag := newBag()
			return strategyMethods(s, bag,
				c17Method{"GetLimit", false, func(g, a int) { _ = s.GetLimit() }},
				c17Method{"GetBusyCount", false, func(g, a int) { _ = s.GetBusyCount() }}), drainBag(bag)
		}},
		c17Subject{"precise-strategy", func() ([]c17Method, func()) {
			s := strategy.NewPreciseStrategyWithMetricRegistry(3, reg())
			bag := newBag()
			return strategyMethods(s, bag,
				c17Method{"GetLimit", false, func(g, a int) { _ = s.GetLimit() }},
				c17Method{"GetBusyCount", false, func(g, a int) { _ = s.GetBusyCount() }}), drainBag(bag)
		}},
		c17Subject{"lookup-strategy", func() ([]c17Method, func()) {
			r := reg()
			parts := map[string]*strategy.LookupPartition{}
			var objs []*strategy.LookupPartition
			for _, n := range []string{"a", "b"} {
				p := strategy.NewLookupPartitionWithMetricRegistry(n, stackBinFracs[n], 1, r)
				parts[n] = p
				objs = append(objs, p)
			}
			s, _ := strategy.NewLookupPartitionStrategyWithMetricRegistry(parts, nil, 4, r)
			bag := newBag()
			return strategyMethods(s, bag,
				c17Method{"Limit", false, func(g, a int) { _ = s.Limit() }},
				c17Method{"BusyCount", false, func(g, a int) { _ = s.BusyCount() }},
				c17Method{"BinBusyCount", false, func(g, a int) { _, _ = s.BinBusyCount([]string{"a", "b", "x"}[a%3]) }},
				c17Method{"BinLimit", false, func(g, a int) { _, _ = s.BinLimit([]string{"a", "b", "x"}[a%3]) }},
				c17Method{"AddPartition", true, func(g, a int) {
					s.AddPartition("x", strategy.NewLookupPartitionWithMetricRegistry("x", 0.1, 1, r))
				}},
				c17Method{"RemovePartition", true, func(g, a int) { s.RemovePartition("x") }},
				c17Method{"Partition.String", false, func(g, a int) { _ = objs[a%2].String() }},
				c17Method{"Partition.accessors", false, func(g, a int) {
					p := objs[a%2]
					_, _, _, _, _ = p.BusyCount(), p.Limit(), p.Name(), p.Percent(), p.IsLimitExceeded()
				}}), drainBag(bag)
		}},
		c17Subject{"predicate-strategy", func() ([]c17Method, func()) {
			r := reg()
			var objs []*strategy.PredicatePartition
			for _, n := range []string{"a", "b"} {
				objs = append(objs, strategy.NewPredicatePartitionWithMetricRegistry(n, stackBinFracs[n], matchers.StringPredicateMatcher(n, false), r))
			}
			s, _ := strategy.NewPredicatePartitionStrategyWithMetricRegistry(append([]*strategy.PredicatePartition{}, objs...), 4, r)
			bag := newBag()
			return strategyMethods(s, bag,
				c17Method{"Limit", false, func(g, a int) { _ = s.Limit() }},
				c17Method{"BusyCount", false, func(g, a int) { _ = s.BusyCount() }},
				c17Method{"BinBusyCount", false, func(g, a int) { _, _ = s.BinBusyCount(a % 2) }},
				c17Method{"BinLimit", false, func(g, a int) { _, _ = s.BinLimit(a % 2) }},
				c17Method{"AddPartition", true, func(g, a int) {
					s.AddPartition(strategy.NewPredicatePartitionWithMetricRegistry("x", 0.1, matchers.StringPredicateMatcher("x", false), r))
				}},
				c17Method{"RemovePartitionsMatching", true, func(g, a int) { s.RemovePartitionsMatching(stackKeyCtx(context.Background(), "x")) }},
				c17Method{"Partition.String", false, func(g, a int) { _ = objs[a%2].String() }},
				c17Method{"Partition.accessors", false, func(g, a int) {
					p := objs[a%2]
					_, _, _, _, _ = p.BusyCount(), p.Limit(), p.Name(), p.Percent(), p.IsLimitExceeded()
				}}), drainBag(bag)
		}},
	)
	// the exported partition objects used on their own (a caller may keep them and read or drive them directly)
	partMethods := func(p interface {
		UpdateLimit(int32)
		Limit() int
		BusyCount() int
		IsLimitExceeded() bool
		Name() string
		Percent() float64
		String() string
	}, acqRel func()) []c17Method { // (Acquire / Release are called by statement, whatever they return)
		return []c17Method{
			{"UpdateLimit", true, func(g, a int) { p.UpdateLimit(int32(1 + a%100)) }},
			{"AcquireRelease", true, func(g, a int) { acqRel() }},
			{"Accessors", false, func(g, a int) { _, _, _, _, _ = p.BusyCount(), p.Limit(), p.Name(), p.Percent(), p.IsLimitExceeded() }},
			{"String", false, func(g, a int) { _ = p.String() }},
		}
	}
	subs = append(subs,
		c17Subject{"lookup-partition-object", func() ([]c17Method, func()) {
			r := reg()
			lp := strategy.NewLookupPartitionWithMetricRegistry("a", 0.3, 1, r)
			ms := partMethods(lp, func() { lp.Acquire(); lp.Release() })
			return append(ms, c17Method{"PollGauges", false, func(g, a int) { r.(*recRegistry).pollAll() }}), func() {}
		}},
		c17Subject{"predicate-partition-object", func() ([]c17Method, func()) {
			r := reg()
			pp := strategy.NewPredicatePartitionWithMetricRegistry("a", 0.3, matchers.StringPredicateMatcher("a", false), r)
			ms := partMethods(pp, func() { pp.Acquire(); pp.Release() })
			return append(ms, c17Method{"PollGauges", false, func(g, a int) { r.(*recRegistry).pollAll() }}), func() {}
		}},
	)
	// limiters
	mkStack := func(name string, cfg StackCfg, lim func() core.Limit) c17Subject {
		return c17Subject{name, func() ([]c17Method, func()) {
			var l core.Limit
			if lim != nil {
				l = lim()
			}
			st, err := buildStack(cfg, l, nil, time.Now())
			if err != nil {
				panic(err)
			}
			bag := newBag()
			blocking := cfg.Kind != "default"
			ms := limiterMethods(st.lim, bag, blocking)
			// gauges registered by strategies, limits and the queue limiter are polled by a registry's own
			// goroutine in production: polling them concurrently is public-API use
			ms = append(ms, c17Method{"PollGauges", false, func(g, a int) { st.reg.pollAll() }})
			if st.def != nil && cfg.Kind != "default" {
				ms = append(ms, c17Method{"Inner.String", false, func(g, a int) { _ = st.def.String() }},
					c17Method{"Inner.EstimatedLimit", false, func(g, a int) { _ = st.def.EstimatedLimit() }})
			}
			return ms, drainBag(bag)
		}}
	}
	vegas := func() core.Limit { return limit.NewDefaultVegasLimitWithLimit("t", 3, nil, nil) }
	aimd := func() core.Limit { return limit.NewAIMDLimit("t", 3, 0.9, 1, nil) }
	subs = append(subs,
		mkStack("default(simple,vegas)", StackCfg{Kind: "default", Strategy: "simple", Limit: 3}, vegas),
		mkStack("default(simple,aimd,tiny-window)", StackCfg{Kind: "default", Strategy: "simple", Limit: 4, WinNs: 1}, aimd),
		mkStack("queue-fifo(tiny-window)", StackCfg{Kind: "queue", Strategy: "precise", Limit: 2, Ordering: "fifo", Backlog: 3, TimeoutMs: 1, WinNs: 1}, aimd),
		mkStack("default(precise,aimd)", StackCfg{Kind: "default", Strategy: "precise", Limit: 3}, aimd),
		mkStack("default(lookup,vegas)", StackCfg{Kind: "default", Strategy: "lookup", Limit: 3}, vegas),
		mkStack("default(predicate,aimd)", StackCfg{Kind: "default", Strategy: "predicate", Limit: 3}, aimd),
		mkStack("blocking", StackCfg{Kind: "blocking", Strategy: "simple", Limit: 2, TimeoutMs: 0}, aimd),
		mkStack("blocking(retry-timer)", StackCfg{Kind: "blocking", Strategy: "simple", Limit: 2, TimeoutMs: 1}, aimd),
		mkStack("deadline", StackCfg{Kind: "deadline", Strategy: "precise", Limit: 2, DeadlineMs: 3_600_000}, nil),
		mkStack("queue-lifo", StackCfg{Kind: "queue", Strategy: "simple", Limit: 2, Ordering: "lifo", Backlog: 3, TimeoutMs: 1, Evict: true}, aimd),
		mkStack("queue-fifo", StackCfg{Kind: "queue", Strategy: "lookup", Limit: 2, Ordering: "fifo", Backlog: 3, TimeoutMs: 1}, nil),
		mkStack("pool-random", StackCfg{Kind: "pool", Strategy: "simple", Limit: 2, Ordering: "random", Backlog: 3, TimeoutMs: 0}, nil),
		mkStack("fixedpool-lifo", StackCfg{Kind: "fixedpool", Limit: 2, Ordering: "lifo", Backlog: 3, TimeoutMs: 1}, nil),
	)
	// measurements
	mk := func(name string, f func() core.MeasurementInterface) c17Subject {
		return c17Subject{name, func() ([]c17Method, func()) { return measurementMethods(f()), func() {} }}
	}
	subs = append(subs,
		mk("minimum", func() core.MeasurementInterface { return &measurements.MinimumMeasurement{} }),
		mk("single", func() core.MeasurementInterface { return &measurements.SingleMeasurement{} }),
		mk("expavg", func() core.MeasurementInterface { return measurements.NewExponentialAverageMeasurement(100, 10) }),
		mk("sema", func() core.MeasurementInterface {
			m, _ := measurements.NewSimpleExponentialMovingAverage(0.05)
			return m
		}),
		mk("variance", func() core.MeasurementInterface {
			m, _ := measurements.NewSimpleMovingVariance(0.05, 0.05)
			return m
		}),
		mk("percentile", func() core.MeasurementInterface {
			m, _ := measurements.NewWindowlessMovingPercentile(0.9, 0.01, 0.05, 0.05)
			return m
		}),
	)
	// the sample window is documented as immutable: one instance shared by every goroutine
	mkWin := func(name string, f func() *measurements.ImmutableSampleWindow) c17Subject {
		return c17Subject{name, func() ([]c17Method, func()) {
			w := f()
			return []c17Method{
				{"AddSample", true, func(g, a int) {
					n := w.AddSample(int64(a), int64(1+a%500), a%30)
					_ = n.AddDroppedSample(int64(a), a%50).MaxInFlight()
				}},
				{"AddDroppedSample", true, func(g, a int) { n := w.AddDroppedSample(int64(a), a%40); _ = n.AddSample(int64(a), 7, a%60).String() }},
				{"AddDroppedSampleNow", true, func(g, a int) { _ = w.AddDroppedSample(-1, a%40) }},
				{"StartTimeNanoseconds", false, func(g, a int) { _ = w.StartTimeNanoseconds() }},
				{"CandidateRTTNanoseconds", false, func(g, a int) { _ = w.CandidateRTTNanoseconds() }},
				{"AverageRTTNanoseconds", false, func(g, a int) { _ = w.AverageRTTNanoseconds() }},
				{"MaxInFlight", false, func(g, a int) { _ = w.MaxInFlight() }},
				{"SampleCount", false, func(g, a int) { _ = w.SampleCount() }},
				{"DidDrop", false, func(g, a int) { _ = w.DidDrop() }},
				{"String", false, func(g, a int) { _ = w.String() }},
			}, func() {}
		}}
	}
	subs = append(subs,
		mkWin("sample-window(new)", func() *measurements.ImmutableSampleWindow { return measurements.NewDefaultImmutableSampleWindow() }),
		mkWin("sample-window(samples)", func() *measurements.ImmutableSampleWindow {
			return measurements.NewDefaultImmutableSampleWindow().AddSample(1, 100, 3).AddSample(2, 50, 5)
		}),
		mkWin("sample-window(dropped)", func() *measurements.ImmutableSampleWindow {
			return measurements.NewDefaultImmutableSampleWindow().AddSample(1, 100, 3).AddDroppedSample(2, 4)
		}),
	)
	// registries
	subs = append(subs,
		c17Subject{"gometrics-registry", func() ([]c17Method, func()) {
			r, err := gometrics.NewGoMetricsMetricRegistry(gm.NewRegistry(), "", "p.", 100*time.Microsecond)
			if err != nil {
				panic(err)
			}
			r.Start()
			return registryMethods(r, func() {}), func() { stopRegistry(r) }
		}},
		c17Subject{"datadog-registry", func() ([]c17Method, func()) {
			cl, err := statsd.NewWithWriter(nopWriteCloser{io.Discard}, statsd.WithoutClientSideAggregation(), statsd.WithoutTelemetry())
			if err != nil {
				panic(err)
			}
			r, err := datadog.NewMetricRegistryWithClient(cl, "p.", 100*time.Microsecond)
			if err != nil {
				panic(err)
			}
			r.Start()
			return registryMethods(r, func() { _ = cl.Flush() }), func() { stopRegistry(r); _ = cl.Close() }
		}},
	)
	// focused registry subjects: the generic ones spread their calls over many listeners and ids, so that two
	// goroutines rarely meet on the same one; here everybody works on ONE listener that was registered with a tag slice
	// that has spare capacity (and passes per-sample tags), and on a registry that is stopped and started again from
	// whichever goroutine gets there while a handful of gauge ids keep being registered and time passes for the poller
	mkRegs := func(kind string) (core.MetricRegistry, func(), func()) {
		if kind == "gometrics" {
			r, err := gometrics.NewGoMetricsMetricRegistry(gm.NewRegistry(), "", "p.", 100*time.Microsecond)
			if err != nil {
				panic(err)
			}
			return r, func() {}, func() { stopRegistry(r) }
		}
		cl, err := statsd.NewWithWriter(nopWriteCloser{io.Discard})
		if err != nil {
			panic(err)
		}
		r, err := datadog.NewMetricRegistryWithClient(cl, "p.", 100*time.Microsecond)
		if err != nil {
			panic(err)
		}
		return r, func() { _ = cl.Flush() }, func() { stopRegistry(r); _ = cl.Close() }
	}
	for _, kind := range []string{"gometrics", "datadog"} {
		kind := kind
		subs = append(subs,
			c17Subject{kind + "-one-tagged-listener", func() ([]c17Method, func()) {
				r, flush, done := mkRegs(kind)
				tags := append(make([]string, 0, 8), "t:1", "u:2")
				ld := r.RegisterDistribution("one", tags...)
				lt := r.RegisterTiming("one.t", tags[:1]...)
				lc := r.RegisterCount("one.c", tags...)
				return []c17Method{
					{"AddSampleWithTags", true, func(g, a int) { ld.AddSample(float64(a%50), fmt.Sprintf("k:%d", g), "w:x") }},
					{"AddTimingWithTags", true, func(g, a int) { lt.AddSample(float64(a%50), fmt.Sprintf("k:%d", g)) }},
					{"AddCountWithTags", true, func(g, a int) { lc.AddSample(1, "w:x") }},
					{"AddSample", true, func(g, a int) { ld.AddSample(float64(a % 50)) }},
					{"Flush", false, func(g, a int) { flush() }},
				}, done
			}},
			c17Subject{kind + "-restarts", func() ([]c17Method, func()) {
				r, flush, done := mkRegs(kind)
				for i := 0; i < 3; i++ {
					i := i
					r.RegisterGauge(fmt.Sprintf("base%d", i), func() (float64, bool) {
						time.Sleep(time.Duration(i) * 100 * time.Microsecond) // suppliers read limiters and may take their time: a poll is not instantaneous
						return float64(i), true
					})
				}
				r.Start()
				return []c17Method{
					{"StopStart", true, func(g, a int) { r.Stop(); r.Start() }},
					{"Start", true, func(g, a int) { r.Start() }},
					{"RegisterGaugeFewIDs", true, func(g, a int) {
						r.RegisterGauge(fmt.Sprintf("few%d", a%4), func() (float64, bool) { return float64(a), true })
					}},
					{"LetThePollerTick", false, func(g, a int) { time.Sleep(300 * time.Microsecond) }},
					{"LetThePollerTick2", false, func(g, a int) { time.Sleep(150 * time.Microsecond) }},
					{"Flush", false, func(g, a int) { flush() }},
				}, done
			}},
		)
	}
	// independent instances, one per goroutine: whatever the instances share behind the scenes (package-level tables,
	// caches, default objects) is shared state all the same. Estimates are placed where the built-in tables end
	// (1000 entries) and well beyond.
	perG := func(name string, mk func(g int) core.Limit) c17Subject {
		return c17Subject{name, func() ([]c17Method, func()) {
			var inst [16]core.Limit
			for g := range inst {
				inst[g] = mk(g)
			}
			return []c17Method{
				{"OnSampleSaturated", true, func(g, a int) { l := inst[g%16]; l.OnSample(0, int64(1000+a%7), 2*l.EstimatedLimit()+1, false) }},
				{"OnSampleSlow", true, func(g, a int) { l := inst[g%16]; l.OnSample(0, int64(5000+a%7), 2*l.EstimatedLimit()+1, false) }},
				{"OnSampleDrop", true, func(g, a int) { l := inst[g%16]; l.OnSample(0, int64(1000+a%7), l.EstimatedLimit(), a%16 == 0) }},
				{"EstimatedLimit", false, func(g, a int) { _ = inst[g%16].EstimatedLimit() }},
			}, func() {}
		}}
	}
	subs = append(subs,
		perG("gradient-instance-per-goroutine(around-1000)", func(g int) core.Limit {
			return limit.NewGradientLimitWithRegistry("t", 990+g*70, 900, 2100, 0.9, nil, 2, -1, nil, nil)
		}),
		perG("gradient2-instance-per-goroutine(around-1000)", func(g int) core.Limit {
			l, err := limit.NewGradient2Limit("t", 990+g*70, 2100, 900, nil, 0.9, 100, nil, nil)
			if err != nil {
				panic(err)
			}
			return l
		}),
		perG("vegas-instance-per-goroutine(around-1000)", func(g int) core.Limit {
			return limit.NewVegasLimitWithRegistry("t", 990+g*70, nil, 2100, 0.9, nil, nil, nil, nil, nil, -1, nil, nil)
		}),
		c17Subject{"limit-functions(any-argument)", func() ([]c17Method, func()) {
			sq, lg, lgf, sqf := functions.SqrtRootFunction(4), functions.Log10RootFunction(0), functions.Log10RootFloatFunction(0), functions.FixedQueueSizeFunc(4)
			return []c17Method{
				{"SqrtRoot", false, func(g, a int) { _ = sq(a % 4096) }},
				{"SqrtRootBeyondTable", false, func(g, a int) { _ = sq(1000 + (a*g)%1100) }},
				{"Log10Root", false, func(g, a int) { _ = lg(a % 4096) }},
				{"Log10RootFloat", false, func(g, a int) { _ = lgf(float64(a%4096) + 0.5) }},
				{"Fixed", false, func(g, a int) { _ = sqf(a) }},
			}, func() {}
		}},
	)
	// limits constructed while a started registry polls: a constructor hands its gauge suppliers to the registry, whose
	// poller may call them at once - whatever the constructor still writes afterwards is written under the poller's
	// eyes. Arguments are any the constructors accept, also initial values outside [min, max].
	for _, kind := range []string{"gometrics", "datadog"} {
		kind := kind
		subs = append(subs, c17Subject{"construct-under-" + kind + "-poller", func() ([]c17Method, func()) {
			r, flush, done := mkRegs(kind)
			r.Start()
			return []c17Method{
				{"NewGradient2(initial-above-max)", true, func(g, a int) {
					_, _ = limit.NewGradient2Limit(fmt.Sprintf("g2a%d", a%3), 500, 200, 20, nil, 0.2, 100, nil, r)
				}},
				{"NewGradient2(initial-below-min)", true, func(g, a int) {
					_, _ = limit.NewGradient2Limit(fmt.Sprintf("g2b%d", a%3), 5, 200, 20, nil, 0.2, 100, nil, r)
				}},
				{"NewGradient(initial-above-max)", true, func(g, a int) {
					_ = limit.NewGradientLimitWithRegistry(fmt.Sprintf("ga%d", a%3), 500, 20, 200, 0.2, nil, 2, 100, nil, r)
				}},
				{"NewGradient(initial-below-min)", true, func(g, a int) {
					_ = limit.NewGradientLimitWithRegistry(fmt.Sprintf("gb%d", a%3), 5, 20, 200, 0.2, nil, 2, 100, nil, r)
				}},
				{"NewVegas(initial-above-max)", true, func(g, a int) {
					_ = limit.NewVegasLimitWithRegistry(fmt.Sprintf("v%d", a%3), 500, nil, 200, 0.2, nil, nil, nil, nil, nil, 30, nil, r)
				}},
				{"NewAIMD", true, func(g, a int) { _ = limit.NewAIMDLimit(fmt.Sprintf("a%d", a%3), 10+a%5, 0.9, 1, r) }},
				{"NewSettable", true, func(g, a int) { _ = limit.NewSettableLimit(fmt.Sprintf("s%d", a%3), 10+a%5, r) }},
				{"NewStrategies", true, func(g, a int) {
					_ = strategy.NewPreciseStrategyWithMetricRegistry(3+a%3, r)
					_ = strategy.NewSimpleStrategyWithMetricRegistry(3+a%3, r)
					_ = strategy.NewLookupPartitionWithMetricRegistry(fmt.Sprintf("p%d", a%3), 0.5, int32(1+a%3), r)
				}},
				{"LetThePollerTick", false, func(g, a int) { time.Sleep(200 * time.Microsecond) }},
				{"Flush", false, func(g, a int) { flush() }},
			}, done
		}})
	}
	return subs
}

// stopRegistry stops a registry's poller; bounded because a defective Stop could wait for ever.
func stopRegistry(r core.MetricRegistry) {
	done := make(chan struct{})
	go func() { r.Stop(); close(done) }()
	select {
	case <-done:
	case <-time.After(2 * time.Second):
	}
}

var c17SubjectTable = c17Subjects()

func c17Find(name string) *c17Subject {
	for i := range c17SubjectTable {
		if c17SubjectTable[i].Name == name {
			return &c17SubjectTable[i]
		}
	}
	return nil
}

func genC17(t *rapid.T) c17Case {
	names := make([]string, len(c17SubjectTable))
	for i, s := range c17SubjectTable {
		names[i] = s.Name
	}
	if only := os.Getenv("VERIF_C17_SUBJECT"); only != "" { // debugging aid: restrict the subject
		names = []string{only}
	}
	c := c17Case{Subject: rapid.SampledFrom(names).Draw(t, "subject")}
	g := rapid.IntRange(2, 8).Draw(t, "goroutines")
	for i := 0; i < g; i++ {
		c.Progs = append(c.Progs, rapid.SliceOfN(rapid.IntRange(0, 63), 10, 300).Draw(t, "prog"))
	}
	c.Repeat = rapid.IntRange(1, 3).Draw(t, "repeat")
	return c
}

func runC17(_ *testing.T, c c17Case) kit.Outcome {
	sub := c17Find(c.Subject)
	if sub == nil {
		return kit.Outcome{Harness: "unknown subject " + c.Subject}
	}
	// remember the case being run: if the race detector halts the process the driver picks it up
	if kit.OutDir != "" {
		b, _ := json.Marshal(kit.ReplayFile{Property: "C17", Test: "TestC17_api_Race", Mode: "race", Case: mustJSON(c)})
		_ = os.WriteFile(filepath.Join(kit.OutDir, fmt.Sprintf("current-C17-%d.json", kit.Shard)), b, 0o644)
	}
	mutators := map[string]bool{}
	pairs := map[string]bool{}
	repeat := c.Repeat
	if kit.Replay != "" {
		repeat = 25 // a replayed race is reproduced statistically
	}
	for rep := 0; rep < repeat; rep++ {
		methods, cleanup := sub.Build()
		start := make(chan struct{})
		var wg sync.WaitGroup
		for g, prog := range c.Progs {
			wg.Add(1)
			go func(g int, prog []int) {
				defer wg.Done()
				<-start
				for i, k := range prog {
					m := methods[k%len(methods)]
					m.Call(g, k+i)
				}
			}(g, prog)
		}
		close(start)
		done := make(chan struct{})
		go func() { wg.Wait(); close(done) }()
		select {
		case <-done:
		case <-time.After(60 * time.Second):
			return kit.Outcome{Harness: "subject " + c.Subject + ": goroutines did not finish within 60 s"}
		}
		cleanup()
		if rep == 0 {
			for g, prog := range c.Progs {
				for _, k := range prog {
					m := methods[k%len(methods)]
					if m.Mutator {
						mutators[m.Name] = true
					}
					for g2, prog2 := range c.Progs {
						if g2 <= g {
							continue
						}
						for _, k2 := range prog2[:minInt(len(prog2), 8)] {
							pairs[m.Name+"|"+methods[k2%len(methods)].Name] = true
						}
					}
				}
			}
		}
	}
	return kit.Outcome{NonTrivial: len(c.Progs) >= 2 && len(mutators) >= 1, Labels: []string{"subject:" + c.Subject}}
}

func mustJSON(v any) json.RawMessage {
	b, err := json.Marshal(v)
	if err != nil {
		panic(err)
	}
	return b
}

func TestC17_api_Race(t *testing.T) {
	kit.RequireMode(t, "race")
	kit.Check(t, kit.Prop[c17Case]{
		ID: "C17", Quick: 400, Thor: 5_000,
		Rule: "subject (every limit, wrapper, strategy incl. partition objects, limiter stack, measurement, shared sample window, both registries) x 2-8 goroutines x 10-120 generated calls from the subject's table of exported methods (mutators, accessors, String, dynamic partitions, NotifyOnChange, Register*, Start/Stop), run under the Go race detector; non-trivial = >=2 goroutines sharing the object with >=1 mutator call",
		Gen:  genC17, Run: runC17, NoShrink: true,
	})
}
