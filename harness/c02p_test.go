package harness

// C02 — real-parallel conservation: many goroutines acquire and complete (all three outcomes) through a
// limiter stack on the real clock; only the FINAL state is asserted (no timing oracle): every counter
// zero, backlog empty, full re-admission.

import (
	"context"
	"runtime"
	"sync"
	"sync/atomic"
	"testing"
	"time"

	"github.com/platinummonkey/go-concurrency-limits/core"

	"pgregory.net/rapid"

	"verifharness/kit"
)

type c02pCase struct {
	Stack   StackCfg `json:"stack"`
	Workers int      `json:"workers"`
	Cycles  int      `json:"cycles"`
	Mix     int      `json:"mix"` // outcome mix seed
}

func genC02P(t *rapid.T) c02pCase {
	c := c02pCase{Stack: genStackCfg(t, []string{"default", "default", "blocking", "queue", "pool", "deadline", "deadline"}, false)}
	c.Stack.Limit = rapid.IntRange(1, 6).Draw(t, "plimit")
	c.Stack.Defaults = false
	if c.Stack.Kind != "default" {
		c.Stack.TimeoutMs = rapid.SampledFrom([]int{1, 2}).Draw(t, "ptimeout")
	}
	if c.Stack.Kind == "deadline" {
		// the deadline falls in the middle of the run; a slow delegate makes wake-ups straddle it
		c.Stack.DeadlineMs = rapid.SampledFrom([]int{3, 8, 15}).Draw(t, "pdeadline")
		c.Stack.SlowUs = rapid.SampledFrom([]int{0, 100, 500}).Draw(t, "slow")
	}
	c.Stack.WinNs = rapid.SampledFrom([]int64{1, 1000, 1_000_000}).Draw(t, "win")
	c.Workers = rapid.IntRange(4, 16).Draw(t, "workers")
	c.Cycles = rapid.SampledFrom([]int{200, 1000, 5000, 20000}).Draw(t, "cycles")
	if c.Stack.Kind != "default" && c.Cycles > 1000 {
		c.Cycles = 1000 // blocked callers wait for real milliseconds
	}
	c.Mix = rapid.IntRange(0, 1000).Draw(t, "mix")
	return c
}

func runC02P(_ *testing.T, c c02pCase) kit.Outcome {
	st, err := buildStack(c.Stack, nil, nil, time.Now())
	if err != nil {
		return kit.Outcome{Harness: err.Error()}
	}
	start := make(chan struct{})
	var wg sync.WaitGroup
	var mu sync.Mutex
	bad := ""
	for g := 0; g < c.Workers; g++ {
		wg.Add(1)
		go func(g int) {
			defer wg.Done()
			<-start
			keys := []string{"a", "b", "zz", "c"}
			for i := 0; i < c.Cycles; i++ {
				ctx, cancel := context.WithTimeout(stackKeyCtx(context.Background(), keys[(g+i)%len(keys)]), 3*time.Millisecond)
				l, ok := st.lim.Acquire(ctx)
				cancel()
				if (l != nil) != ok {
					mu.Lock()
					bad = "Acquire returned a listener without ok (or ok without a listener)"
					mu.Unlock()
				}
				if ok && l != nil {
					complete(l, g+i+c.Mix)
				}
			}
		}(g)
	}
	close(start)
	done := make(chan struct{})
	go func() { wg.Wait(); close(done) }()
	select {
	case <-done:
	case <-time.After(80 * time.Second):
		return kit.Outcome{Harness: "workers did not finish within 80 s"}
	}
	kind := c.Stack.Kind
	if bad != "" {
		return kit.Viol(kind+":listener-iff-ok", "%s", bad)
	}
	if b := st.busy(); b != 0 {
		return kit.Viol(kind+":end-busy", "after %d goroutines x %d acquire/complete cycles finished: strategy busy=%d", c.Workers, c.Cycles, b)
	}
	if g := st.def.VerifInFlight(); g != 0 {
		return kit.Viol(kind+":end-gauge", "after %d goroutines x %d acquire/complete cycles finished: limiter in-flight gauge=%d (strategy busy=0)", c.Workers, c.Cycles, g)
	}
	if st.partitioned() {
		for i, n := range st.binNames {
			if b := st.binBusy(i); b != 0 {
				return kit.Viol(kind+":end-bin-busy", "bin %q busy=%d after everything completed", n, b)
			}
		}
	}
	if st.queue != nil {
		if n := st.queue.VerifBacklogLen(); n != 0 {
			return kit.Viol(kind+":end-backlog", "backlog holds %d elements after every caller returned", n)
		}
	}
	if !st.partitioned() {
		lim := st.limit()
		var got []interface{ OnIgnore() }
		for i := 0; i < lim+1; i++ {
			l, ok := st.def.Acquire(stackKeyCtx(context.Background(), "a"))
			if ok != (i < lim) {
				for _, x := range got {
					x.OnIgnore()
				}
				return kit.Viol(kind+":end-readmit", "afterwards the limiter (limit %d) answered %v to fresh acquire #%d", lim, ok, i+1)
			}
			if ok {
				got = append(got, l)
			}
		}
		for _, x := range got {
			x.OnIgnore()
		}
	}
	if wk, ok := st.lim.(interface{ VerifWake() }); ok {
		wk.VerifWake()
	}
	return kit.Outcome{NonTrivial: c.Workers > c.Stack.Limit, Labels: []string{"kind:" + kind, "strategy:" + c.Stack.Strategy}}
}

func TestC02_parallel(t *testing.T) {
	kit.RequireMode(t, "std")
	kit.Check(t, kit.Prop[c02pCase]{
		ID: "C02", Quick: 60, Thor: 1200,
		Rule: "4-16 real threads x 200-20000 acquire/complete cycles (all outcomes, all strategies) through default / blocking / queue / pool stacks on the real clock; only the final state is judged: every counter zero, backlog empty, full re-admission; non-trivial = more threads than the limit",
		Gen:  genC02P, Run: runC02P, NoShrink: true,
	})
}

// Strategies used directly (without a limiter's lock) by concurrent callers: a token that was granted
// and released gives its unit back, a refused attempt holds nothing (the simple strategy may overshoot
// its limit by design; conservation must hold all the same).
type c02sCase struct {
	Strategy string `json:"strategy"` // simple | precise | lookup | predicate
	Limit    int    `json:"limit"`
	Workers  int    `json:"workers"`
	Cycles   int    `json:"cycles"`
	SetEvery int    `json:"set_every"` // one worker also moves the limit up and down
	// Storm > 0: instead of cycles, rounds of "every worker collects Storm tokens of one key, then all workers release
	// everything at the same moment" (the limit is large enough for all of them): completions overlap each other and
	// nothing else
	Storm int `json:"storm,omitempty"`
}

func TestC02_strategy_parallel(t *testing.T) {
	kit.RequireMode(t, "std")
	kit.Check(t, kit.Prop[c02sCase]{
		ID: "C02", Quick: 60, Thor: 1500,
		Rule: "4-16 real threads x 1000-20000 TryAcquire/Release cycles directly on one strategy (all four kinds) while the limit moves, or 10-200 rounds in which every thread collects 16-512 tokens and all release them at the same moment; final state only: busy and every bin zero, a refused attempt held nothing; non-trivial = more threads than the limit",
		Gen: func(t *rapid.T) c02sCase {
			c := c02sCase{Strategy: rapid.SampledFrom([]string{"simple", "simple", "precise", "lookup", "predicate"}).Draw(t, "strategy"),
				Limit: rapid.IntRange(1, 6).Draw(t, "limit"), Workers: rapid.IntRange(4, 16).Draw(t, "workers"),
				Cycles: rapid.SampledFrom([]int{1000, 5000, 20000}).Draw(t, "cycles"), SetEvery: rapid.SampledFrom([]int{0, 7, 50}).Draw(t, "setEvery")}
			if rapid.IntRange(0, 2).Draw(t, "stormy") == 0 {
				c.Storm = rapid.SampledFrom([]int{16, 128, 512}).Draw(t, "storm")
			}
			return c
		},
		Run: func(_ *testing.T, c c02sCase) kit.Outcome {
			st, err := buildStack(StackCfg{Kind: "default", Strategy: c.Strategy, Limit: c.Limit}, nil, nil, time.Now())
			if err != nil {
				return kit.Outcome{Harness: err.Error()}
			}
			var strat interface {
				TryAcquire(context.Context) (core.StrategyToken, bool)
				SetLimit(int)
			}
			switch {
			case st.simple != nil:
				strat = st.simple
			case st.precise != nil:
				strat = st.precise
			case st.lookup != nil:
				strat = st.lookup
			default:
				strat = st.pred
			}
			if c.Storm > 0 {
				strat.SetLimit(c.Workers * c.Storm)
				for round := 0; round < c.Cycles/100; round++ {
					toks := make([][]core.StrategyToken, c.Workers)
					for g := range toks {
						for i := 0; i < c.Storm; i++ {
							tk, ok := strat.TryAcquire(stackKeyCtx(context.Background(), []string{"a", "a", "b"}[(g+round)%3]))
							if !ok || tk == nil || !tk.IsAcquired() {
								return kit.Viol(c.Strategy+":storm-refused", "round %d: request %d of %d was refused under a limit of %d", round, g*c.Storm+i+1, c.Workers*c.Storm, c.Workers*c.Storm)
							}
							toks[g] = append(toks[g], tk)
						}
					}
					var gate atomic.Bool
					var ready, wg sync.WaitGroup
					for g := range toks {
						ready.Add(1)
						wg.Add(1)
						go func(mine []core.StrategyToken) {
							defer wg.Done()
							ready.Done()
							for !gate.Load() {
								runtime.Gosched()
							}
							for _, tk := range mine {
								tk.Release()
							}
						}(toks[g])
					}
					ready.Wait()
					gate.Store(true)
					wg.Wait()
					if b := st.busy(); b != 0 {
						return kit.Viol(c.Strategy+":direct-end-busy", "round %d: %d threads released %d tokens each at the same moment: busy=%d with no token outstanding", round, c.Workers, c.Storm, b)
					}
					if st.partitioned() {
						for i, n := range st.binNames {
							if b := st.binBusy(i); b != 0 {
								return kit.Viol(c.Strategy+":direct-end-bin-busy", "round %d: %d threads released %d tokens each at the same moment: bin %q busy=%d with no token outstanding", round, c.Workers, c.Storm, n, b)
							}
						}
					}
				}
				return kit.Outcome{NonTrivial: true, Labels: []string{"strategy:" + c.Strategy, "storm"}}
			}
			start := make(chan struct{})
			var wg sync.WaitGroup
			for g := 0; g < c.Workers; g++ {
				wg.Add(1)
				go func(g int) {
					defer wg.Done()
					<-start
					keys := []string{"a", "b", "zz", "c"}
					for i := 0; i < c.Cycles; i++ {
						tk, ok := strat.TryAcquire(stackKeyCtx(context.Background(), keys[(g+i)%len(keys)]))
						if ok {
							tk.Release()
						}
						if g == 0 && c.SetEvery > 0 && i%c.SetEvery == 0 {
							strat.SetLimit(1 + (i/c.SetEvery)%(c.Limit+2))
						}
					}
				}(g)
			}
			close(start)
			wg.Wait()
			if b := st.busy(); b != 0 {
				return kit.Viol(c.Strategy+":direct-end-busy", "after %d threads x %d TryAcquire/Release cycles directly on the strategy: busy=%d with no token outstanding", c.Workers, c.Cycles, b)
			}
			if st.partitioned() {
				for i, n := range st.binNames {
					if b := st.binBusy(i); b != 0 {
						return kit.Viol(c.Strategy+":direct-end-bin-busy", "bin %q busy=%d with no token outstanding", n, b)
					}
				}
			}
			return kit.Outcome{NonTrivial: c.Workers > c.Limit, Labels: []string{"strategy:" + c.Strategy}}
		},
		NoShrink: true,
	})
}
