package harness

// C19 — pools: never more than the limit held, every queued caller eventually served.

import (
	"fmt"
	"math"
	"testing"
	"testing/synctest"
	"time"

	"pgregory.net/rapid"

	"verifharness/kit"
)

type c19Caller struct {
	AtMs   int `json:"at_ms"`
	HoldMs int `json:"hold_ms"`
	Out    int `json:"out"`
	// CancelMs >= 0: the caller's context is cancelled that long after its arrival (0 = at the very instant
	// of the call). A cancelled caller is outside the "everybody is served" claim, but whatever happens to
	// it must not cost the pool capacity.
	CancelMs int `json:"cancel_ms"`
}

type c19Case struct {
	Stack   StackCfg    `json:"stack"`
	Callers []c19Caller `json:"callers"`
	Yields  yieldList   `json:"yields,omitempty"`
	// Overload: the backlog timeout is short, so some callers legitimately time out; what must still
	// hold: held <= limit, a refused caller returns exactly at its timeout (or at once at a full
	// backlog), and afterwards the pool serves its full limit again (no capacity lost to a time-out
	// that raced with a hand-off).
	Overload bool `json:"overload,omitempty"`
}

func genC19(coop bool) func(t *rapid.T) c19Case {
	return func(t *rapid.T) c19Case {
		var c c19Case
		c.Stack.Kind = rapid.SampledFrom([]string{"pool", "fixedpool"}).Draw(t, "kind")
		c.Stack.Ordering = rapid.SampledFrom([]string{"random", "fifo", "lifo"}).Draw(t, "ordering")
		c.Stack.Limit = rapid.IntRange(1, 4).Draw(t, "limit")
		c.Stack.Backlog = rapid.IntRange(1, 5).Draw(t, "backlog")
		if c.Stack.Kind == "pool" {
			c.Stack.Strategy = rapid.SampledFrom([]string{"simple", "precise"}).Draw(t, "strategy")
			c.Stack.Inject = coop
			// the generic pool takes any limiter: its strategy object may have been built with another size than
			// the (fixed) limit; the pool's size is the limit
			c.Stack.StratInit = rapid.SampledFrom([]int{0, 0, c.Stack.Limit + 4, 1, 64}).Draw(t, "stratInit")
		}
		n := rapid.IntRange(c.Stack.Limit+1, c.Stack.Limit+c.Stack.Backlog).Draw(t, "n")
		cancels := []int{-1}
		if rapid.IntRange(0, 3).Draw(t, "withCancels") == 0 {
			cancels = []int{-1, -1, 0, 0, 1, 3}
		}
		one := rapid.Custom(func(t *rapid.T) c19Caller {
			return c19Caller{
				AtMs:     rapid.SampledFrom([]int{0, 0, 0, 1, 2, 5, 7, 10, 20}).Draw(t, "at"),
				HoldMs:   rapid.SampledFrom([]int{1, 2, 5, 5, 7, 10, 30}).Draw(t, "hold"),
				Out:      rapid.IntRange(0, 2).Draw(t, "out"),
				CancelMs: rapid.SampledFrom(cancels).Draw(t, "cancel"),
			}
		})
		c.Callers = rapid.SliceOfN(one, n, n).Draw(t, "callers")
		sum := 0
		for _, cl := range c.Callers {
			sum += cl.HoldMs
		}
		// backlog timeout (queue orderings) safely beyond the time needed to serve everybody;
		// for the random ordering this is only the blocking limiter's retry timer
		c.Stack.TimeoutMs = sum + 25
		if c.Stack.Ordering == "random" {
			c.Stack.TimeoutMs = rapid.SampledFrom([]int{0, 3, 50}).Draw(t, "retry")
		} else if rapid.IntRange(0, 2).Draw(t, "overload") == 0 {
			c.Overload = true
			c.Stack.TimeoutMs = rapid.SampledFrom([]int{1, 2, 5, 5, 7, 10}).Draw(t, "short-timeout")
		}
		if !c.Overload && c.Stack.Ordering != "random" && rapid.IntRange(0, 5).Draw(t, "forever") == 0 {
			// "wait for as long as it takes": the largest duration there is (0 would mean "library default" here)
			c.Stack.TimeoutNs = rapid.SampledFrom([]int64{math.MaxInt64, math.MaxInt64 - 1, math.MaxInt64 / 2, int64(250 * 365 * 24 * time.Hour)}).Draw(t, "foreverNs")
		}
		c.Stack.FmtLog = rapid.IntRange(0, 2).Draw(t, "fmtLog") == 0
		if !c.Overload && rapid.IntRange(0, 5).Draw(t, "negTimeout") == 0 {
			// a negative timeout: the constructors document it as "use the default". Its value is not assumed: only a
			// refusal at the very instant of arrival is judged (there is room in the backlog by construction)
			c.Stack.TimeoutMs, c.Stack.TimeoutNs = 0, -int64(rapid.SampledFrom([]int{1, 1000, 1_000_000, 1_000_000_000}).Draw(t, "negNs"))
		}
		if coop {
			c.Yields = yieldList(rapid.SliceOfN(rapid.SampledFrom([]uint8{0, 0, 1, 1, 2, 3}), 0, 60).Draw(t, "yields"))
		}
		return c
	}
}

func runC19(t *testing.T, c c19Case) kit.Outcome {
	return bubble(t, func() kit.Outcome { return runC19InBubble(c) })
}

func runC19InBubble(c c19Case) (out kit.Outcome) {
	t0 := time.Now()
	var sc *sched
	if len(c.Yields) > 0 {
		sc = newSched(c.Yields)
	}
	st, err := buildStack(c.Stack, nil, sc, t0)
	if err != nil {
		return kit.Outcome{Harness: "stack: " + err.Error()}
	}
	sc.install()
	defer (*sched)(nil).install()
	w := newWorld(st, t0)
	kind := c.Stack.Kind + "-" + c.Stack.Ordering
	limit := c.Stack.Limit
	sum := 0
	maxAt := 0
	for _, cl := range c.Callers {
		sum += cl.HoldMs
		if cl.AtMs > maxAt {
			maxAt = cl.AtMs
		}
	}
	// arrivals in time order; same-instant arrivals are spawned back to back (no quiescence between)
	order := seq(len(c.Callers))
	for i := 1; i < len(order); i++ {
		for j := i; j > 0 && c.Callers[order[j]].AtMs < c.Callers[order[j-1]].AtMs; j-- {
			order[j], order[j-1] = order[j-1], order[j]
		}
	}
	callers := make([]*vtCaller, len(c.Callers))
	for _, i := range order {
		spec := c.Callers[i]
		if d := time.Duration(spec.AtMs)*time.Millisecond - w.now(); d > 0 {
			time.Sleep(d)
		}
		callers[i] = w.newCaller("a", spec.HoldMs, spec.Out)
		w.start(callers[i])
		if spec.CancelMs == 0 {
			cl := callers[i]
			w.wg.Add(1)
			go func() { defer w.wg.Done(); defer notePanic(); cl.cancel() }()
		} else if spec.CancelMs > 0 {
			cl, d := callers[i], time.Duration(spec.CancelMs)*time.Millisecond
			w.wg.Add(1)
			go func() { defer w.wg.Done(); defer notePanic(); time.Sleep(d); cl.cancel() }()
		}
	}
	// everybody must have been served by (last arrival + sum of hold times)
	deadline := time.Duration(maxAt+sum) * time.Millisecond
	if d := deadline - w.now(); d > 0 {
		time.Sleep(d)
	}
	synctest.Wait()
	var viol *kit.Outcome
	if m := int(w.maxHeld.Load()); m > limit {
		o := kit.Viol(kind+":over-limit", "%d tokens were held at once, the pool's limit is %d", m, limit)
		viol = &o
	}
	w.mu.Lock()
	snap := make([]vtCaller, len(callers)) // indexed like c.Callers
	for i, cl := range callers {
		snap[i] = *cl
	}
	w.mu.Unlock()
	if viol == nil && c.Overload {
		to := time.Duration(c.Stack.TimeoutMs) * time.Millisecond
		for i, s := range snap {
			if c.Callers[i].CancelMs >= 0 {
				continue
			}
			switch {
			case !s.Done:
				o := kit.Viol(kind+":overload-stuck", "caller %d (arrived +%dms, backlog timeout %v) has still not returned at +%v", i, c.Callers[i].AtMs, to, w.now())
				viol = &o
			case !s.OK && s.RetAt == s.Arrived && c19WaitingAt(snap, i) < c.Stack.Backlog:
				o := kit.Viol(kind+":refused-with-room", "caller %d (arrived +%v) was refused at once although at most %d callers can have been waiting then (backlog %d)", i, s.Arrived, c19WaitingAt(snap, i), c.Stack.Backlog)
				viol = &o
			case !s.OK && s.RetAt != s.Arrived && s.RetAt != s.Arrived+to:
				o := kit.Viol(kind+":overload-refusal-instant", "caller %d (arrived +%v) was refused at +%v: neither at once (full backlog) nor at its backlog timeout (%v)", i, s.Arrived, s.RetAt, to)
				viol = &o
			case s.OK && s.RetAt > s.Arrived+to:
				o := kit.Viol(kind+":overload-late-grant", "caller %d (arrived +%v) was granted at +%v, after its backlog timeout (%v)", i, s.Arrived, s.RetAt, to)
				viol = &o
			}
			if viol != nil {
				break
			}
		}
	}
	if viol == nil && !c.Overload {
		for i, s := range snap {
			spec := c.Callers[i]
			if spec.CancelMs >= 0 {
				continue // outside the claim (its context was cancelled)
			}
			bound := time.Duration(spec.AtMs+sum) * time.Millisecond
			switch {
			case !s.Done:
				free := "unknown"
				if st.def != nil {
					free = fmt.Sprintf("%d", st.limit()-st.busy())
				}
				o := kit.Viol(kind+":not-served", "caller %d (arrived +%dms) is still blocked at +%v, after every earlier holder has completed (sum of hold times %dms, free capacity %s)", i, spec.AtMs, w.now(), sum, free)
				viol = &o
			case !s.OK && c.Stack.TimeoutNs < 0 && s.RetAt != s.Arrived:
				// the library's default timeout, whatever it is, ran out: nothing is claimed
			case !s.OK:
				o := kit.Viol(kind+":refused", "caller %d (arrived +%dms) was refused at +%v although callers (%d) <= limit+backlog (%d+%d) and the backlog timeout (%dms) had not elapsed", i, spec.AtMs, s.RetAt, len(c.Callers), limit, c.Stack.Backlog, c.Stack.TimeoutMs)
				viol = &o
			case s.RetAt > bound:
				o := kit.Viol(kind+":late", "caller %d (arrived +%dms) was granted only at +%v, later than the sum of all hold times (%dms) after its arrival", i, spec.AtMs, s.RetAt, sum)
				viol = &o
			}
			if viol != nil {
				break
			}
		}
	}
	// let the last holders finish, then the zero state
	time.Sleep(time.Duration(sum+50) * time.Millisecond)
	msg := w.unwind(c.Stack.unwindWait())
	w.flush()
	if viol != nil {
		return *viol
	}
	if msg != "" {
		return kit.Viol(kind+":stuck", "%s", msg)
	}
	if st.def != nil {
		if b := st.busy(); b != 0 {
			return kit.Viol(kind+":end-busy", "after every caller completed: busy=%d", b)
		}
	}
	// the pool admits its full limit again
	var got []*vtCaller
	for i := 0; i < limit; i++ {
		cl := w.newCaller("a", 0, 1)
		w.start(cl)
		synctest.Wait()
		if !cl.Done || !cl.OK {
			w.unwind(2 * time.Second)
			w.flush()
			return kit.Viol(kind+":end-readmit", "after every caller completed the pool (limit %d) did not admit fresh caller #%d", limit, i+1)
		}
		got = append(got, cl)
	}
	for _, g := range got {
		w.release(g, 1)
	}
	// a longer life: enough successful, measurable releases for the pool's sampling window to close
	// (several times); the pool must keep serving
	// (pools of two or more: one long-running caller keeps its token all the while, so the windows close while a
	// token is held; afterwards the pool must still count it)
	var long *vtCaller
	// the long-running caller arrives before the cycles or in the middle of them (after some windows have closed
	// already), and holds its token across the windows that close from then on
	longAt := 0
	if limit >= 2 {
		longAt = (c.Stack.Limit*7 + c.Stack.Backlog*5 + c.Stack.TimeoutMs) % 3 * 12 // 0, 12 or 24 cycles in (a function of the case: no generator change)
	}
	for i := 0; i < 26+longAt; i++ {
		if limit >= 2 && i == longAt {
			long = w.newCaller("a", 0, 0)
			w.start(long)
			synctest.Wait()
			if !long.Done || !long.OK {
				w.unwind(2 * time.Second)
				w.flush()
				return kit.Viol(kind+":end-readmit", "the pool (limit %d, nobody holding a token) did not admit a caller", limit)
			}
		}
		cl := w.newCaller("a", 0, 0)
		w.start(cl)
		synctest.Wait()
		if !cl.Done || !cl.OK {
			w.unwind(2 * time.Second)
			w.flush()
			return kit.Viol(kind+":stops-serving", "after %d successful acquire/hold/release cycles the pool did not admit the next caller although a unit is free", i)
		}
		time.Sleep(time.Millisecond)
		w.release(cl, 0)
		synctest.Wait()
	}
	if long != nil {
		var fresh []*vtCaller
		grantedNow := 0
		for i := 0; i < limit; i++ {
			cl := w.newCaller("a", 0, 1)
			w.start(cl)
			synctest.Wait()
			if cl.Done && cl.OK {
				grantedNow++
			}
			fresh = append(fresh, cl)
		}
		if grantedNow != limit-1 {
			w.unwind(c.Stack.unwindWait())
			w.flush()
			sig := ":over-limit-after-windows"
			if grantedNow < limit-1 {
				sig = ":stops-serving"
			}
			return kit.Viol(kind+sig, "one caller has held its token while 26 others came and went (sampling windows closed meanwhile); of %d fresh callers arriving now %d were granted at once, the pool of %d has exactly %d free", limit, grantedNow, limit, limit-1)
		}
		w.release(long, 0)
		synctest.Wait()
		for _, cl := range fresh {
			if cl.Done && cl.OK {
				w.release(cl, 1)
				synctest.Wait()
			}
		}
		if msg := w.unwind(c.Stack.unwindWait()); msg != "" {
			w.flush()
			return kit.Viol(kind+":stuck", "%s", msg)
		}
		// everything is back, the long-running token included (completed as a success after windows had closed while it
		// was out): the idle pool hands out exactly its size again
		var probe []*vtCaller
		grantedNow = 0
		for i := 0; i < limit+1; i++ {
			cl := w.newCaller("a", 0, 1)
			w.start(cl)
			synctest.Wait()
			if cl.Done && cl.OK {
				grantedNow++
			}
			probe = append(probe, cl)
		}
		if grantedNow != limit {
			w.unwind(c.Stack.unwindWait())
			w.flush()
			sig := ":over-limit-after-windows"
			if grantedNow < limit {
				sig = ":stops-serving"
			}
			return kit.Viol(kind+sig, "after a caller held its token across closing sampling windows and completed it, %d callers arriving at the idle pool of %d were granted at once %d times", limit+1, limit, grantedNow)
		}
		for _, cl := range probe {
			if cl.Done && cl.OK {
				w.release(cl, 1)
				synctest.Wait()
			}
		}
		if msg := w.unwind(c.Stack.unwindWait()); msg != "" {
			w.flush()
			return kit.Viol(kind+":stuck", "%s", msg)
		}
	}
	// a second wave: limit+backlog callers at one instant must all be admitted or queued and then served
	if c.Stack.Ordering != "random" {
		var wave []*vtCaller
		for i := 0; i < limit+c.Stack.Backlog; i++ {
			waiting := len(w.blocked())
			cl := w.newCaller("a", 1, 0)
			w.start(cl)
			synctest.Wait() // one after the other: the backlog bound is then exact
			wave = append(wave, cl)
			if cl.Done && !cl.OK && waiting < c.Stack.Backlog {
				w.unwind(c.Stack.unwindWait())
				w.flush()
				return kit.Viol(kind+":second-wave-refused", "after the first scenario, caller %d of a second wave was refused at once although only %d of %d backlog places were taken", i, waiting, c.Stack.Backlog)
			}
		}
		time.Sleep(time.Duration(len(wave)+5) * time.Millisecond)
		synctest.Wait()
		for i, cl := range wave {
			if c.Overload || c.Stack.TimeoutNs < 0 {
				break // with a short backlog timeout (or the library's default, whatever it is) some of the wave may legitimately time out
			}
			if !cl.Done || !cl.OK {
				w.unwind(c.Stack.unwindWait())
				w.flush()
				return kit.Viol(kind+":second-wave", "after the first scenario, caller %d of a wave of limit+backlog=%d callers (1 ms hold each, timeout %d ms) was not served (done=%v ok=%v at +%v, arrived +%v)", i, len(wave), c.Stack.TimeoutMs, cl.Done, cl.OK, cl.RetAt, cl.Arrived)
			}
		}
	}
	w.flush()
	holds := map[int]bool{}
	coincide := false
	for i, s := range snap {
		holds[c.Callers[i].HoldMs] = true
		end := s.RetAt + time.Duration(c.Callers[i].HoldMs)*time.Millisecond
		for j := range snap {
			if j != i && time.Duration(c.Callers[j].AtMs)*time.Millisecond == end {
				coincide = true
			}
		}
	}
	out.NonTrivial = len(c.Callers) > limit && len(holds) >= 2 && coincide
	out.Labels = []string{"kind:" + kind}
	if coincide {
		out.Labels = append(out.Labels, "completion-coincides-with-arrival")
	}
	if c.Overload {
		out.Labels = append(out.Labels, "overload")
		for _, s := range snap {
			if s.Done && !s.OK && s.RetAt > s.Arrived {
				out.Labels = append(out.Labels, "overload-timeout")
				break
			}
		}
	}

	return out
}

func TestC19_pools(t *testing.T) {
	kit.RequireMode(t, "std")
	kit.Check(t, kit.Prop[c19Case]{
		ID: "C19", Quick: 3000, Thor: 300_000,
		Rule: "fixed/generic pool x ordering x limit x callers (limit+1..limit+backlog) with generated arrival offsets and hold times on a virtual clock; held tokens never exceed the limit, every caller is granted within the sum of hold times of its arrival, zero state and full re-admission at the end; non-trivial = more callers than the limit, >=2 distinct hold times and a completion coinciding with an arrival",
		Gen:  genC19(false), Run: runC19, Timeout: 30 * time.Second,
	})
}

func TestC19_sched_Coop(t *testing.T) {
	kit.RequireMode(t, "coop")
	kit.Check(t, kit.Prop[c19Case]{
		ID: "C19", Quick: 5000, Thor: 300_000,
		Rule: "as TestC19_pools under generated cooperative schedules",
		Gen:  genC19(true), Run: runC19, Timeout: 30 * time.Second,
	})
}

// c19WaitingAt: an upper bound on the number of callers that can have been waiting in the backlog when
// caller i arrived (callers that arrived no later and had not returned strictly before that instant).
func c19WaitingAt(snap []vtCaller, i int) int {
	n := 0
	for j, s := range snap {
		if j == i {
			continue
		}
		if s.Arrived <= snap[i].Arrived && (!s.Done || s.RetAt > snap[i].Arrived || (s.RetAt == snap[i].Arrived && !s.OK)) {
			n++
		}
	}
	return n
}

// Exhaustive small schedule space for pools: a full generic pool (every ordering), releasing holders and
// 1-2 waiters started at one virtual instant; all spawn orders x yields in {0,1,3}^k at the schedule
// points (incl. the check-then-increment window of the simple strategy). Never more tokens than the
// limit, no waiter left asleep with capacity free.
func TestC19_enum_Coop(t *testing.T) {
	kit.RequireMode(t, "coop")
	if kit.Replay != "" {
		kit.Check(t, kit.Prop[c10Case]{ID: "C19", Run: runC10})
		return
	}
	d := kit.NewDirect[c10Case](t, "C19", "exhaustive: generic pool x {random, fifo, lifo} x {simple, precise} x 4 actor sets x all spawn orders x yields in {0,1,3}^k (k=6, thorough 8); held tokens <= limit and no waiter asleep with capacity free at quiescence; non-trivial = a completion finished between a waiter's failed attempt and its going to sleep")
	k := 6
	if kit.Thorough() {
		k = 8
	}
	vals := []uint8{0, 1, 3}
	total := 1
	for i := 0; i < k; i++ {
		total *= len(vals)
	}
	sets := []struct{ limit, h, w int }{{1, 1, 1}, {1, 1, 2}, {2, 2, 1}, {2, 1, 2}}
	for _, ord := range []string{"random", "fifo", "lifo"} {
		for _, strat := range []string{"simple", "precise"} {
			for _, s := range sets {
				for _, order := range permutations(s.h + s.w) {
					for code := kit.Shard; code < total; code += kit.Shards {
						ys := make(yieldList, k)
						x := code
						for i := range ys {
							ys[i] = vals[x%len(vals)]
							x /= len(vals)
						}
						c := c10Case{Stack: StackCfg{Kind: "pool", Ordering: ord, Strategy: strat, Limit: s.limit, Backlog: 4, TimeoutMs: 50, Inject: true}, Waiters: s.w, Order: order, Yields: ys}
						for i := 0; i < s.h; i++ {
							c.Outcomes = append(c.Outcomes, (code+i)%3)
						}
						stop := kit.Watch("C19", t.Name(), c)
						o := runC10(t, c)
						stop()
						if !d.Account(c, o) {
							return
						}
					}
				}
			}
		}
	}
}
