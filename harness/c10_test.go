package harness

// C10 — blocked callers are woken when capacity frees (no lost wake-up or hand-off).

import (
	"fmt"
	"testing"
	"testing/synctest"
	"time"

	"pgregory.net/rapid"

	"verifharness/kit"
)

type c10Case struct {
	Stack    StackCfg  `json:"stack"`
	Outcomes []int     `json:"outcomes"` // one releasing holder per entry (completion outcome)
	Waiters  int       `json:"waiters"`
	Order    []int     `json:"order"`             // spawn order: actor ids 0..H-1 = holders, H..H+W-1 = waiters
	Yields   yieldList `json:"yields"`            // yield counts at successive schedule points
	Cancels  []int     `json:"cancels,omitempty"` // waiters (by index) whose context is cancelled at the scenario instant (actor ids H+W, H+W+1, ...)
	Par      bool      `json:"par,omitempty"`     // real-parallel mode: spin at the schedule points instead of yielding
	Ghosts   int       `json:"ghosts,omitempty"`  // blocking/deadline kinds: earlier callers that blocked and gave up (cancelled) before the scenario
	Relays   []int     `json:"relays,omitempty"`  // waiters (by index) that complete their token by themselves the moment they are granted (a second release, made by a winner)
}

var c10Kinds = []StackCfg{
	{Kind: "blocking", TimeoutMs: 0},
	{Kind: "blocking", TimeoutMs: 50},
	{Kind: "deadline", DeadlineMs: 3_600_000},
	{Kind: "queue", Ordering: "fifo", Backlog: 4, TimeoutMs: 50},
	{Kind: "queue", Ordering: "lifo", Backlog: 4, TimeoutMs: 50},
	{Kind: "queue", Ordering: "fifo", Backlog: 4, TimeoutMs: 50, Evict: true},
	{Kind: "queue", Ordering: "lifo", Backlog: 4, TimeoutMs: 50, Evict: true},
}

func genC10(t *rapid.T) c10Case {
	c := c10Case{Stack: rapid.SampledFrom(c10Kinds).Draw(t, "stack")}
	c.Stack.Inject = true
	c.Stack.FmtLog = rapid.IntRange(0, 2).Draw(t, "debugLog") == 0 // the injected logger reports debug output as enabled
	c.Stack.Strategy = rapid.SampledFrom([]string{"simple", "precise"}).Draw(t, "strategy")
	c.Stack.Limit = rapid.IntRange(1, 2).Draw(t, "limit")
	h := rapid.IntRange(1, c.Stack.Limit).Draw(t, "holders")
	c.Outcomes = rapid.SliceOfN(rapid.IntRange(0, 2), h, h).Draw(t, "outcomes")
	c.Waiters = rapid.IntRange(1, 3).Draw(t, "waiters")
	if rapid.IntRange(0, 2).Draw(t, "withCancel") == 0 {
		c.Cancels = rapid.SliceOfNDistinct(rapid.IntRange(0, c.Waiters-1), 1, c.Waiters, func(i int) int { return i }).Draw(t, "cancels")
	}
	if c.Waiters >= 2 && rapid.IntRange(0, 2).Draw(t, "withRelay") == 0 {
		c.Relays = rapid.SliceOfNDistinct(rapid.IntRange(0, c.Waiters-1), 1, c.Waiters-1, func(i int) int { return i }).Draw(t, "relays")
	}
	c.Order = rapid.Permutation(seq(h+c.Waiters+len(c.Cancels))).Draw(t, "order")
	c.Yields = yieldList(rapid.SliceOfN(rapid.SampledFrom([]uint8{0, 0, 1, 1, 2, 3, 5}), 0, 24).Draw(t, "yields"))
	if c.Stack.Kind != "queue" {
		c.Ghosts = rapid.SampledFrom([]int{0, 0, 1, 2, 3}).Draw(t, "ghosts")
		if rapid.IntRange(0, 29).Draw(t, "ghostCrowd") == 0 {
			// a limiter that has been saturated for a long time: hundreds or thousands of callers came, waited and gave up
			// before the scenario starts
			c.Ghosts = rapid.SampledFrom([]int{100, 255, 256, 1023, 1024, 1025, 1500, 2100}).Draw(t, "ghostCrowdN")
		}
	}
	return c
}

func runC10(t *testing.T, c c10Case) kit.Outcome {
	return bubble(t, func() kit.Outcome { return runC10InBubble(c) })
}

func runC10InBubble(c c10Case) (out kit.Outcome) {
	t0 := time.Now()
	sc := newSched(c.Yields)
	sc.spin = c.Par
	sc.arm(false)
	st, err := buildStack(c.Stack, nil, sc, t0)
	if err != nil {
		return kit.Outcome{Harness: "stack: " + err.Error()}
	}
	sc.install()
	defer (*sched)(nil).install()
	w := newWorld(st, t0)
	kind := c.Stack.Kind
	if c.Stack.Kind == "blocking" && c.Stack.TimeoutMs == 0 {
		kind = "blocking-notimeout"
	}
	limit := c.Stack.Limit
	h := len(c.Outcomes)
	// prefill the limiter through the outer limiter
	var holders []*vtCaller
	for i := 0; i < limit; i++ {
		cl := w.newCaller("a", 0, 0)
		w.start(cl)
		synctest.Wait()
		if !cl.Done || !cl.OK {
			w.unwind(2 * time.Second)
			w.flush()
			return kit.Outcome{Harness: fmt.Sprintf("prefill: caller %d not granted", i)}
		}
		holders = append(holders, cl)
	}
	// earlier callers that blocked and then gave up: whatever they leave behind (helper goroutines
	// parked on the condition) must not swallow the wake-up meant for the real waiters
	if c.Stack.Kind != "queue" {
		for i := 0; i < c.Ghosts; i++ {
			g := w.newCaller("a", 0, 0)
			w.start(g)
			synctest.Wait()
			g.cancel()
			synctest.Wait()
			if !g.Done || g.OK {
				w.unwind(2 * time.Second)
				w.flush()
				return kit.Outcome{Harness: "ghost caller did not return refused after its cancellation"}
			}
		}
	}
	var waiters []*vtCaller
	for i := 0; i < c.Waiters; i++ {
		waiters = append(waiters, w.newCaller("a", 0, 0))
	}
	for j, i := range c.Relays {
		if i < len(waiters) {
			waiters[i].Relay, waiters[i].Outcome = true, j
		}
	}
	order := c.Order
	if len(order) != h+c.Waiters+len(c.Cancels) {
		order = seq(h + c.Waiters + len(c.Cancels))
	}
	cancelled := map[int]bool{}
	sc.arm(true)
	for _, a := range order {
		if a < h {
			cl, oc := holders[a], c.Outcomes[a]
			w.mu.Lock()
			cl.Released = true
			w.mu.Unlock()
			w.wg.Add(1)
			go func() { defer w.wg.Done(); defer notePanic(); complete(cl.L, oc) }()
		} else if a-h < len(waiters) {
			w.start(waiters[a-h])
		} else if k := a - h - len(waiters); k < len(c.Cancels) && c.Cancels[k] < len(waiters) {
			wt := waiters[c.Cancels[k]]
			cancelled[wt.ID] = true
			w.wg.Add(1)
			go func() { defer w.wg.Done(); defer notePanic(); wt.cancel() }()
		}
	}
	synctest.Wait()
	sc.arm(false)
	elapsed := w.now()
	busy := st.busy()
	blocked := 0 // waiters still blocked whose context was not cancelled
	for _, b := range w.blocked() {
		if !cancelled[b.ID] {
			blocked++
		}
	}
	granted, refused := 0, 0
	for _, wt := range waiters {
		if wt.Done && wt.OK {
			granted++
		} else if wt.Done && !cancelled[wt.ID] {
			refused++
		}
	}
	trace := append([]string(nil), sc.Trace...)
	outstanding, _ := w.outstanding() // tokens granted to a caller and not completed
	var viol *kit.Outcome
	switch {
	case elapsed != 0:
		o := kit.Outcome{Harness: fmt.Sprintf("virtual clock advanced by %v during the scenario", elapsed)}
		viol = &o
	case refused > 0:
		o := kit.Viol(kind+":refused-with-room", "%d waiter(s) were refused although the backlog (4) had room and no timeout/cancel occurred", refused)
		viol = &o
	case busy > limit:
		o := kit.Viol(kind+":over-limit", "%d tokens are held at once (limit %d): %d waiters were granted although only %d holder(s) released; spawn order %v; points %v", busy, limit, granted, h, order, trace)
		viol = &o
	case blocked > 0 && busy > outstanding:
		o := kit.Viol(kind+":capacity-lost", "at quiescence with no time elapsed: %d waiter(s) still blocked, the limiter counts %d unit(s) busy but only %d token(s) are held by anybody (the released capacity went to nobody); %d holder(s) released, %d waiter(s) granted; spawn order %v; points %v",
			blocked, busy, outstanding, h, granted, order, trace)
		viol = &o
	case busy < limit && blocked > 0:
		o := kit.Viol(kind+":lost-wakeup", "at quiescence with no time elapsed: %d of %d units free (busy=%d) yet %d waiter(s) still blocked (%d granted); %d holder(s) released; spawn order %v; points %v",
			limit-busy, limit, busy, blocked, granted, h, order, trace)
		viol = &o
	}
	// unwind
	msg := w.unwind(c.Stack.unwindWait())
	w.flush()
	if viol != nil {
		return *viol
	}
	if msg != "" {
		return kit.Viol(kind+":stuck", "%s", msg)
	}
	// non-trivial: a completion finished between a waiter's failed attempt and its going to sleep
	inWindow := 0
	for _, p := range trace {
		switch p {
		case "delegate.failed":
			inWindow++
		case "block.spawned", "queue.pushed":
			if inWindow > 0 {
				inWindow--
			}
		case "inner.completed":
			if inWindow > 0 {
				out.NonTrivial = true
			}
		}
	}
	out.Labels = []string{"kind:" + kind, fmt.Sprintf("granted:%d", granted), fmt.Sprintf("relays:%d", len(c.Relays))}
	if out.NonTrivial {
		out.Labels = append(out.Labels, "completion-in-window")
	}
	return out
}

func TestC10_sampled_Coop(t *testing.T) {
	kit.RequireMode(t, "coop")
	kit.Check(t, kit.Prop[c10Case]{
		ID: "C10", Quick: 3000, Thor: 400_000,
		Rule: "blocking/deadline/queue limiter, full, then releasers and 1-3 waiters spawned at one virtual instant under a generated cooperative schedule (spawn order + yield counts at schedule points); oracle at quiescence with zero elapsed time; non-trivial = a completion finished between a waiter's failed attempt and its going to sleep",
		Gen:  genC10, Run: runC10, Timeout: 30 * time.Second, NoShrink: false,
	})
}

// Real threads inside the bubble (all cores): the same scenario with spin delays at the schedule
// points covers memory-level interleavings a cooperative schedule cannot produce.
func TestC10_parallel(t *testing.T) {
	kit.RequireMode(t, "std")
	kit.Check(t, kit.Prop[c10Case]{
		ID: "C10", Quick: 3000, Thor: 300_000,
		Rule: "as TestC10_sampled_Coop but with real parallelism inside the bubble (spins instead of yields); non-trivial by the same rule",
		Gen:  func(t *rapid.T) c10Case { c := genC10(t); c.Par = true; return c }, Run: runC10, NoShrink: true,
	})
}

// Exhaustive enumeration of a small schedule space (quick tier): every spawn order of
// {1 holder + 1 waiter, 1 holder + 2 waiters, 2 holders + 1 waiter} x yields in {0,1,3}^5.
func TestC10_enum_Coop(t *testing.T) {
	kit.RequireMode(t, "coop")
	if kit.Replay != "" {
		kit.Check(t, kit.Prop[c10Case]{ID: "C10", Run: runC10})
		return
	}
	d := kit.NewDirect[c10Case](t, "C10", "exhaustive: 7 limiter kinds x 6 actor sets (one with a waiter that releases the moment it is granted) + for evicting queue limiters that waiter also cancelled by a further actor x all spawn orders x yields in {0,1,3}^k (k=6; thorough k=9); non-trivial as TestC10_sampled_Coop")
	k := 6
	if kit.Thorough() {
		k = 9
	}
	vals := []uint8{0, 1, 3}
	// relay: the first waiter completes its token the moment it is granted; cancel: that waiter's context is also
	// cancelled by a further actor of the scenario (a give-up that may coincide with the hand-off to it; evicting
	// queue limiters only, where a cancellation makes the waiter leave)
	sets := []struct{ limit, h, w, relay, cancel int }{{1, 1, 1, 0, 0}, {1, 1, 2, 0, 0}, {2, 2, 1, 0, 0}, {2, 1, 2, 0, 0}, {2, 2, 2, 0, 0}, {1, 1, 2, 1, 0}, {1, 1, 2, 1, 1}}
	for _, base := range c10Kinds {
		for _, s := range sets {
			if s.cancel > 0 && !(base.Kind == "queue" && base.Evict) {
				continue
			}
			for _, order := range permutations(s.h + s.w + s.cancel) {
				total := 1
				for i := 0; i < k; i++ {
					total *= len(vals)
				}
				for code := kit.Shard; code < total; code += kit.Shards {
					ys := make(yieldList, k)
					x := code
					for i := range ys {
						ys[i] = vals[x%len(vals)]
						x /= len(vals)
					}
					c := c10Case{Stack: base, Waiters: s.w, Order: order, Yields: ys}
					if s.relay > 0 {
						c.Relays = []int{0}
					}
					if s.cancel > 0 {
						c.Cancels = []int{0}
					}
					if base.Kind != "queue" {
						c.Ghosts = (code / 3) % 3
					}
					c.Stack.Inject = true
					c.Stack.Strategy = "simple"
					c.Stack.Limit = s.limit
					for i := 0; i < s.h; i++ {
						c.Outcomes = append(c.Outcomes, (code+i)%3)
					}
					stop := kit.Watch("C10", t.Name(), c)
					o := runC10(t, c)
					stop()
					if !d.Account(c, o) {
						return
					}
				}
			}
		}
	}
}

func permutations(n int) [][]int {
	var out [][]int
	var rec func(cur []int, used []bool)
	rec = func(cur []int, used []bool) {
		if len(cur) == n {
			out = append(out, append([]int(nil), cur...))
			return
		}
		for i := 0; i < n; i++ {
			if !used[i] {
				used[i] = true
				rec(append(cur, i), used)
				used[i] = false
			}
		}
	}
	rec(nil, make([]bool, n))
	return out
}

// Delay-bounded enumeration: the dense enumeration above only varies the first few schedule points; windows that
// open late in a scenario (the second round of a hand-off loop, a release that overlaps the tail of another) are
// reached by schedules that run undisturbed except for at most two yields placed anywhere among the first 18 points.
func TestC10_delaybounded_Coop(t *testing.T) {
	kit.RequireMode(t, "coop")
	if kit.Replay != "" {
		kit.Check(t, kit.Prop[c10Case]{ID: "C10", Run: runC10})
		return
	}
	d := kit.NewDirect[c10Case](t, "C10", "exhaustive, delay-bounded: 7 limiter kinds x 5 actor sets x all spawn orders x every schedule with at most 2 non-zero yields (1 or 3) among the first 18 schedule points (thorough: at most 3 among the first 22); non-trivial as TestC10_sampled_Coop")
	span, maxDelays := 18, 2
	if kit.Thorough() {
		span, maxDelays = 22, 3
	}
	vals := []uint8{1, 3}
	// all yield vectors with at most maxDelays non-zero entries
	var scheds []yieldList
	var rec func(from, left int, cur yieldList)
	rec = func(from, left int, cur yieldList) {
		scheds = append(scheds, append(yieldList(nil), cur...))
		if left == 0 {
			return
		}
		for p := from; p < span; p++ {
			for _, v := range vals {
				cur[p] = v
				rec(p+1, left-1, cur)
				cur[p] = 0
			}
		}
	}
	rec(0, maxDelays, make(yieldList, span))
	sets := []struct{ limit, h, w, relay int }{{2, 2, 2, 0}, {1, 1, 2, 1}, {2, 1, 2, 0}, {2, 2, 1, 0}, {1, 1, 2, 0}}
	n := 0
	for _, base := range c10Kinds {
		for _, s := range sets {
			for _, order := range permutations(s.h + s.w) {
				for _, ys := range scheds {
					n++
					if n%kit.Shards != kit.Shard {
						continue
					}
					c := c10Case{Stack: base, Waiters: s.w, Order: order, Yields: ys}
					if s.relay > 0 {
						c.Relays = []int{0}
					}
					if base.Kind != "queue" {
						c.Ghosts = n % 3
					}
					c.Stack.Inject = true
					c.Stack.Strategy = "simple"
					c.Stack.Limit = s.limit
					for i := 0; i < s.h; i++ {
						c.Outcomes = append(c.Outcomes, (n+i)%3)
					}
					stop := kit.Watch("C10", t.Name(), c)
					o := runC10(t, c)
					stop()
					if !d.Account(c, o) {
						return
					}
				}
			}
		}
	}
}
