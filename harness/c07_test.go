package harness

// C07 — growth is demand-gated, and healthy saturation always recovers the limit.

import (
	"fmt"
	"math"
	"testing"

	"pgregory.net/rapid"

	"verifharness/kit"
)

type c07Case struct {
	PrefixTimes int      `json:"prefix_times,omitempty"` // the prefix history is fed that many times over (thousands of samples before the judged part)
	Cfg         LimitCfg `json:"cfg"`
	Prefix      []Sample `json:"prefix"`
	Idle        Sample   `json:"idle"`    // (a) app-limited, non-drop sample; in-flight = Idle.Inf % bound
	RunRTT      int64    `json:"run_rtt"` // (b) constant RTT used when no baseline is set (always for gradient2)
	AIMDN       int      `json:"aimd_n"`
	// BelowFloor (gradient, gradient2): the configured initial estimate lies below the queue allowance (a valid
	// configuration: min <= initial <= max, allowance <= max). Nothing is claimed about drops or growth from such a
	// state, but the demand gate is unconditional: idle, drop-free samples must leave the estimate where it is.
	BelowFloor []Sample `json:"below_floor,omitempty"`
	// Ramp: after the prefix, a sustained and worsening overload - RampN saturated drop-free samples, each RampPM per
	// mille slower than the one before (compressed history: three numbers stand for up to a thousand samples). With
	// RampRun > 0 the healthy run of gradient2 then uses RampRun x the last RTT of the ramp as its constant RTT.
	RampN     int   `json:"ramp_n,omitempty"`
	RampPM    int   `json:"ramp_pm,omitempty"`
	RampStart int64 `json:"ramp_start,omitempty"`
	RampRun   int   `json:"ramp_run,omitempty"`
}

// ramp expands the ramp of a case into its samples.
func (c c07Case) ramp() []Sample {
	var out []Sample
	rtt := float64(c.RampStart)
	for i := 0; i < c.RampN; i++ {
		if rtt > 1e17 {
			rtt = 1e17
		}
		out = append(out, Sample{RTT: int64(rtt), Rel: "dbl"})
		rtt *= 1 + float64(c.RampPM)/1000
	}
	return out
}

func genC07(t *rapid.T) c07Case {
	c := c07Case{Cfg: genLossCfg(t, []string{"aimd", "vegas", "gradient", "gradient2"})}
	c.Cfg.Listener = rapid.IntRange(0, 2).Draw(t, "withListener") == 0
	if rapid.IntRange(0, 3).Draw(t, "behindTraced") == 0 {
		// the algorithm behind the traced wrapper (a pass-through: every sample must reach it unchanged)
		c.Cfg.Traced, c.Cfg.TraceDebug = true, rapid.Bool().Draw(t, "traceDebug")
	}
	switch c.Cfg.Algo {
	case "gradient":
		if c.Cfg.RTTTol < 1 {
			c.Cfg.RTTTol = 1
		}
	case "gradient2":
		if c.Cfg.LongWindow < 1 {
			c.Cfg.LongWindow = 1
		}
	}
	if c.Cfg.Algo == "aimd" && rapid.IntRange(0, 7).Draw(t, "aimdAtInt32") == 0 {
		// AIMD has no ceiling of its own: the last steps below 2^31 (the end of the in-flight domain)
		c.Cfg.Initial = math.MaxInt32 - rapid.IntRange(0, 40).Draw(t, "belowMaxInt32")
		c.Cfg.IncreaseBy = rapid.SampledFrom([]int{1, 1, 2, 7}).Draw(t, "incrAtInt32")
	}
	if c.Cfg.Algo == "vegas" && rapid.IntRange(0, 2).Draw(t, "customPolicy") == 0 {
		// caller-supplied policy functions (documented options). Growth at the baseline only needs a threshold >= 1
		// (no queue counts as "no queuing") and a beta >= 1 (the aggressive step); alpha, increase and decrease are free.
		c.Cfg.VThr = rapid.SampledFrom([]string{"k:1", "k:1", "k:2", "k:5", "log:1", "log:2"}).Draw(t, "vthr")
		c.Cfg.VBeta = rapid.SampledFrom([]string{"k:1", "k:2", "k:6", "log:1", "log:6"}).Draw(t, "vbeta")
		c.Cfg.VAlpha = rapid.SampledFrom([]string{"", "k:0", "k:1", "k:1", "k:3", "log:3"}).Draw(t, "valpha")
		c.Cfg.VInc = rapid.SampledFrom([]string{"", "same", "add:1", "dbl"}).Draw(t, "vinc")
		c.Cfg.VDec = rapid.SampledFrom([]string{"", "half", "sub:1", "sub:5"}).Draw(t, "vdec")
	}
	if c.Cfg.Algo == "vegas" && c.Cfg.VThr == "" && rapid.IntRange(0, 4).Draw(t, "alphaOnly") == 0 {
		// only alpha is tuned (a tenth of the limit, a constant): threshold, beta and the step functions stay the library's own
		c.Cfg.VAlpha = rapid.SampledFrom([]string{"div:10", "div:10", "div:3", "k:0", "k:1", "k:4"}).Draw(t, "alphaOnlyFn")
	}
	if c.Cfg.Algo == "vegas" && rapid.IntRange(0, 4).Draw(t, "customNoLoad") == 0 {
		c.Cfg.NoLoad = "single" // a caller-supplied baseline measurement (keeps the latest record low): recovery must not depend on the default one
	}
	if c.Cfg.VThr == "" && c.Cfg.VAlpha == "" && c.Cfg.NoLoad == "" {
		genUnsetSafe(t, &c.Cfg) // short constructors / parameters left to the library defaults: judged without assuming any default value
	}
	if rapid.IntRange(0, 3).Draw(t, "hasPrefix") > 0 {
		c.Prefix = genSamples(t, c.Cfg, 150)
		c.PrefixTimes = rapid.SampledFrom([]int{1, 1, 1, 1, 1, 1, 3, 10, 30}).Draw(t, "prefixTimes")
	}
	c.Idle = Sample{RTT: genRTT().Draw(t, "idleRTT"), Inf: rapid.IntRange(0, 1<<20).Draw(t, "idleInf")}
	c.RunRTT = rapid.OneOf(rapid.Int64Range(1, 1000), rapid.Int64Range(1, 10_000_000_000)).Draw(t, "runRTT")
	if (c.Cfg.Algo == "gradient2" || c.Cfg.Algo == "aimd") && rapid.IntRange(0, 5).Draw(t, "runRTT0") == 0 {
		c.RunRTT = 0 // a coarse clock: the constant RTT of the healthy run is 0 (RTT >= 0 is the stated domain)
	}
	c.AIMDN = rapid.IntRange(1, 30).Draw(t, "aimdN")
	if c.Cfg.Algo != "aimd" && rapid.IntRange(0, 3).Draw(t, "hasRamp") == 0 {
		c.RampN = rapid.SampledFrom([]int{20, 60, 150, 400, 1000}).Draw(t, "rampN")
		c.RampPM = rapid.SampledFrom([]int{5, 10, 30, 30, 100, 1000}).Draw(t, "rampPM")
		if c.RampPM == 1000 && c.RampN > 60 {
			c.RampN = 60
		}
		c.RampStart = rapid.SampledFrom([]int64{1, 1000, 1_000_000}).Draw(t, "rampStart")
		c.RampRun = rapid.SampledFrom([]int{0, 1, 1, 2, 5}).Draw(t, "rampRun")
	}
	if (c.Cfg.Algo == "gradient" || c.Cfg.Algo == "gradient2") && c.Cfg.Ctor == "" && len(c.Cfg.Unset) == 0 && rapid.IntRange(0, 3).Draw(t, "belowFloor") == 0 {
		q := c.Cfg.effectiveQueue()
		lo := c.Cfg.Min
		if lo < 2 {
			lo = 2 // an estimate of 1 has no in-flight value below its half
		}
		var cand []int
		for v := lo; v <= c.Cfg.Max && v < 64; v++ {
			if v < q(v) {
				cand = append(cand, v)
			}
		}
		if len(cand) > 0 {
			c.Cfg.Initial = rapid.SampledFrom(cand).Draw(t, "initialBelowFloor")
			c.Cfg.ProbeInterval = -1 // a probe re-bases the estimate by design; it is not a response to the sample
			c.Prefix = nil
			n := rapid.IntRange(1, 12).Draw(t, "nIdle")
			for i := 0; i < n; i++ {
				c.BelowFloor = append(c.BelowFloor, Sample{RTT: genRTT().Draw(t, "bfRTT"), Inf: rapid.IntRange(0, 1<<20).Draw(t, "bfInf")})
			}
		}
	}
	return c
}

func runC07(_ *testing.T, c c07Case) kit.Outcome {
	b := buildLimit(c.Cfg, nil)
	algo := c.Cfg.Algo
	if (c.Cfg.Ctor != "" || len(c.Cfg.Unset) > 0) && b.Outer.EstimatedLimit() < c.Cfg.floorOf() {
		// the library's default initial value lies below the configured minimum: not a valid configuration (min <= initial)
		return kit.Outcome{Labels: []string{"discard:default-initial-below-min"}}
	}
	q := c.Cfg.effectiveQueue()
	var sawDrop, sawZero bool
	appLimited := func(inf, est int) bool {
		if algo == "aimd" {
			return inf < est
		}
		return 2*inf < est
	}
	for i, s := range c.BelowFloor {
		before := b.Outer.EstimatedLimit()
		half := (before + 1) / 2
		if half <= 0 {
			break
		}
		inf := s.Inf % half
		b.Outer.OnSample(0, s.RTT, inf, false)
		if after := b.Outer.EstimatedLimit(); after > before {
			return kit.Viol(algo+":idle-raised-below-allowance", "estimate %d lies below the queue allowance %d; idle sample %d (rtt=%d in-flight=%d, no drop) raised it to %d", before, q(before), i, s.RTT, inf, after)
		}
	}
	if len(c.BelowFloor) > 0 {
		return kit.Outcome{NonTrivial: true, Labels: []string{"algo:" + algo, "below-allowance-idle"}}
	}
	prefix := c.Prefix
	for r := 1; r < c.PrefixTimes; r++ {
		prefix = append(prefix, c.Prefix...)
	}
	if rs := c.ramp(); len(rs) > 0 {
		prefix = append(prefix[:len(prefix):len(prefix)], rs...)
		if c.RampRun > 0 {
			c.RunRTT = rs[len(rs)-1].RTT * int64(c.RampRun)
		}
	}
	for _, s := range prefix {
		before := b.Outer.EstimatedLimit()
		inf := s.inflight(before)
		b.Outer.OnSample(s.Start, s.RTT, inf, s.Drop)
		after := b.Outer.EstimatedLimit()
		if !s.Drop && appLimited(inf, before) && after > before {
			return kit.Viol(algo+":idle-raised", "prefix sample %+v with in-flight %d below the demand threshold raised the estimate %d -> %d", s, inf, before, after)
		}
		sawDrop = sawDrop || s.Drop
		sawZero = sawZero || s.RTT == 0
	}
	// (a) an app-limited sample never raises the estimate
	before := b.Outer.EstimatedLimit()
	lim := before
	if algo != "aimd" {
		lim = (before + 1) / 2 // 2*inf < before  <=>  inf < ceil(before/2)
	}
	if lim > 0 {
		inf := c.Idle.Inf % lim
		b.Outer.OnSample(0, c.Idle.RTT, inf, false)
		if after := b.Outer.EstimatedLimit(); after > before {
			return kit.Viol(algo+":idle-raised", "non-drop sample rtt=%d in-flight=%d (estimate %d) raised the estimate to %d", c.Idle.RTT, inf, before, after)
		}
	}
	// (b) sustained healthy saturation
	start := b.Outer.EstimatedLimit()
	out := kit.Outcome{Labels: []string{"algo:" + algo}}
	if c.Cfg.Ctor != "" || len(c.Cfg.Unset) > 0 {
		return runC07Defaults(c, b, out, sawDrop && sawZero)
	}
	max := c.Cfg.Max
	sat := func(est int) int { return 2*maxInt(max, est) + 1 }
	runRTT := func() int64 {
		if algo != "gradient2" {
			if nl, ok := b.noLoad(); ok && nl > 0 {
				return nl
			}
		}
		return c.RunRTT
	}
	gap := 0
	switch algo {
	case "aimd":
		for i := 0; i < c.AIMDN; i++ {
			prev := b.Outer.EstimatedLimit()
			if prev > math.MaxInt32-2 {
				// the in-flight domain ends at 2^31-1: beyond it no sample can be saturated any more. The last steps up
				// to that point are taken with in-flight exactly at the limit.
				if prev > math.MaxInt32 {
					break
				}
				b.Outer.OnSample(0, c.RunRTT, prev, false)
				if cur := b.Outer.EstimatedLimit(); cur != prev+c.Cfg.IncreaseBy {
					return kit.Viol("aimd:increase", "saturated drop-free sample at limit %d (in-flight %d): got %d want +%d", prev, prev, cur, c.Cfg.IncreaseBy)
				}
				continue
			}
			b.Outer.OnSample(0, c.RunRTT, prev+i%3, false) // in-flight >= limit
			if cur := b.Outer.EstimatedLimit(); cur != prev+c.Cfg.IncreaseBy {
				return kit.Viol("aimd:increase", "saturated drop-free sample at limit %d: got %d want +%d", prev, cur, c.Cfg.IncreaseBy)
			}
		}
		gap = c.AIMDN * c.Cfg.IncreaseBy
	case "gradient":
		gap = max - start
		noProbe := c.Cfg.ProbeInterval == -1
		bound := -1
		if noProbe && q(maxInt(start, 1)) >= 1 && start < max {
			bound = (max-start+q(start)-1)/q(start) + 1
		}
		limit := 3000
		if bound >= 0 {
			limit = bound
		}
		reached := start >= max
		probed := false
		// with probing enabled the healthy run goes on after the ceiling has been reached, through at least one probe (the
		// estimate restarts from the allowance there, by design) and the recovery that follows: a state parked at the
		// ceiling for a while and then probed is as reachable as any other, and must not be stuck either
		extra := 0
		if !noProbe && c.Cfg.ProbeInterval > 0 {
			extra = 2*c.Cfg.ProbeInterval + 40
			limit += extra
		}
		for i := 0; i < limit && (!reached || extra > 0); i++ {
			if reached {
				extra--
			}
			prev := b.Outer.EstimatedLimit()
			rtt := runRTT()
			b.Outer.OnSample(0, rtt, sat(prev), false)
			cur := b.Outer.EstimatedLimit()
			nl, _ := b.noLoad()
			if nl == 0 {
				if !probed {
					probed = true
					out.Labels = append(out.Labels, "gradient-probe-in-run")
				}
				if noProbe {
					return kit.Viol("gradient:baseline-lost", "probing disabled but the baseline reads unset after a sample with rtt=%d", rtt)
				}
				continue // a probe: estimate restarts from the allowance by design
			}
			want := minInt(max, prev+q(prev))
			if cur < want {
				return kit.Viol("gradient:growth", "saturated drop-free sample at the baseline rtt=%d: estimate %d -> %d, expected at least min(max=%d, %d+allowance %d)", rtt, prev, cur, max, prev, q(prev))
			}
			reached = reached || cur >= max
		}
		if bound >= 0 && !reached {
			return kit.Viol("gradient:stuck", "probing disabled: after %d saturated healthy samples the estimate is %d (start %d, max %d)", bound, b.Outer.EstimatedLimit(), start, max)
		}
	case "vegas":
		gap = max - start
		s := c.Cfg.Smoothing
		tail := 0.0
		if s < 1 {
			tail = math.Ceil(math.Log(float64(maxInt(max, 2))) / -math.Log(1-s))
		}
		bound := 2*(math.Ceil(float64(maxInt(max-start, 0))/s)+tail) + 4
		absorbed, steps := 0, 0
		for b.Outer.EstimatedLimit() < max-1 {
			prev := b.Outer.EstimatedLimit()
			rtt := runRTT()
			if nl, _ := b.noLoad(); nl == 0 {
				absorbed++
			}
			b.Outer.OnSample(0, rtt, sat(prev), false)
			steps++
			if float64(steps) > bound+2*float64(absorbed) {
				return kit.Viol("vegas:stuck", "after %d saturated drop-free samples at the baseline the estimate is %d (start %d, max %d, bound %.0f)", steps, b.Outer.EstimatedLimit(), start, max, bound)
			}
		}
		labelUse(&out, float64(steps)/(bound+2*float64(absorbed)), algo)
	case "gradient2":
		gap = max - start
		qmin := q(maxInt(start, 1))
		if qmin < 1 {
			out.Labels = append(out.Labels, "allowance0-no-growth-claimed")
			break
		}
		s := c.Cfg.Smoothing
		f := 2.0 / float64(c.Cfg.LongWindow+1)
		n1 := 0.0
		if f < 1 {
			n1 = math.Ceil(math.Log(2*float64(max)/float64(qmin)+1) / -math.Log(1-f))
		}
		n2 := math.Ceil(2 * float64(max) / (s * float64(qmin)))
		bound := 4*(n1+n2) + 100
		steps := 0
		for b.Outer.EstimatedLimit() < max-1 {
			prev := b.Outer.EstimatedLimit()
			b.Outer.OnSample(0, c.RunRTT, sat(prev), false)
			steps++
			if float64(steps) > bound {
				return kit.Viol("gradient2:stuck", "after %d saturated drop-free samples at constant rtt=%d the estimate is %d (start %d, max %d, bound %.0f)", steps, c.RunRTT, b.Outer.EstimatedLimit(), start, max, bound)
			}
		}
		labelUse(&out, float64(steps)/bound, algo)
	}
	out.NonTrivial = (sawDrop && sawZero || c.RampN >= 50) && gap >= 3
	if c.RunRTT == 0 {
		out.Labels = append(out.Labels, "run-rtt0")
	}
	if c.RampN > 0 {
		out.Labels = append(out.Labels, fmt.Sprintf("ramp:%d", c.RampN))
	}
	if c.Cfg.VThr != "" {
		out.Labels = append(out.Labels, "vegas-custom-policy")
	}
	if gap >= 3 {
		out.Labels = append(out.Labels, "run>=3-below-ceiling")
	}
	return out
}

// runC07Defaults: part (b) for configurations whose effective values are the library's own defaults. Nothing is
// assumed about those values: the ceiling is *measured* on a freshly constructed instance of the same configuration
// (a long healthy saturated run), and the instance that lived through the prefix must get to within one of the same
// value under the same run ("no reachable state is stuck").
func runC07Defaults(c c07Case, b built, out kit.Outcome, ntPrefix bool) kit.Outcome {
	algo := c.Cfg.Algo
	out.Labels = append(out.Labels, "defaults-in-play")
	if algo == "gradient" && c.Cfg.ProbeInterval != -1 {
		out.Labels = append(out.Labels, "defaults:gradient-probing-not-compared")
		return out
	}
	if algo == "aimd" {
		// no ceiling: every saturated healthy sample must raise the estimate by the same (unknown, positive) increment
		step := 0
		for i := 0; i < c.AIMDN; i++ {
			prev := b.Outer.EstimatedLimit()
			b.Outer.OnSample(0, c.RunRTT, prev+i%3, false)
			d := b.Outer.EstimatedLimit() - prev
			if d < 1 || (step != 0 && d != step) {
				return kit.Viol("aimd:increase", "default-constructed AIMD: saturated drop-free sample at limit %d moved the estimate by %d (earlier step %d)", prev, d, step)
			}
			step = d
		}
		out.NonTrivial = ntPrefix
		return out
	}
	// blocks of 10 000 saturated healthy samples (longer than any flat stretch the Gradient2 long-term average can
	// cause for the windows generated); "settled" = a whole block changed nothing
	const block, maxBlocks = 10000, 60
	feed := func(x built) {
		prev := x.Outer.EstimatedLimit()
		rtt := c.RunRTT
		if algo != "gradient2" {
			if nl, ok := x.noLoad(); ok && nl > 0 {
				rtt = nl
			}
		}
		inf := 2*maxInt(prev, 1) + 1
		if c.Cfg.known("max") {
			inf = 2*maxInt(c.Cfg.Max, prev) + 1
		}
		x.Outer.OnSample(0, rtt, inf, false)
	}
	fresh, err := tryBuildLimit(c.Cfg, nil)
	if err != nil {
		return out
	}
	if fresh.Outer.EstimatedLimit() < c.Cfg.floorOf() {
		out.Labels = append(out.Labels, "discard:default-initial-below-min")
		return out
	}
	if q := c.Cfg.effectiveQueue(); (algo == "gradient2" || algo == "gradient") && (q(maxInt(fresh.Outer.EstimatedLimit(), 1)) < 1 || q(maxInt(b.Outer.EstimatedLimit(), 1)) < 1) {
		out.Labels = append(out.Labels, "allowance0-no-growth-claimed")
		return out
	}
	ceil, settled := 0, false
	for blk := 0; blk < maxBlocks && !settled; blk++ {
		at := fresh.Outer.EstimatedLimit()
		for j := 0; j < block; j++ {
			feed(fresh)
		}
		ceil = fresh.Outer.EstimatedLimit() // where a fresh instance settles (an initial value above the maximum is not the ceiling)
		settled = ceil == at
	}
	if !settled {
		out.Labels = append(out.Labels, "defaults:run-not-settled-within-cap")
		return out
	}
	start := b.Outer.EstimatedLimit()
	peak := start
	for blk := 0; blk < maxBlocks && peak < ceil-1; blk++ {
		at := b.Outer.EstimatedLimit()
		for j := 0; j < block && peak < ceil-1; j++ {
			feed(b)
			if e := b.Outer.EstimatedLimit(); e > peak {
				peak = e
			}
		}
		if peak < ceil-1 && b.Outer.EstimatedLimit() == at {
			return kit.Viol(algo+":stuck", "defaults in play (ctor=%q unset=%v): saturated healthy samples settle a fresh instance at %d; the instance that lived through the prefix (estimate %d) stays at %d for %d such samples", c.Cfg.Ctor, c.Cfg.Unset, ceil, start, at, block)
		}
	}
	out.NonTrivial = ntPrefix && ceil-start >= 3
	return out
}

func labelUse(out *kit.Outcome, use float64, algo string) {
	switch {
	case use > 0.75:
		out.Labels = append(out.Labels, "bound-use>0.75:"+algo)
	case use > 0.5:
		out.Labels = append(out.Labels, "bound-use>0.5:"+algo)
	case use > 0.25:
		out.Labels = append(out.Labels, "bound-use>0.25:"+algo)
	}
}

func TestC07_growth(t *testing.T) {
	kit.RequireMode(t, "std")
	kit.Check(t, kit.Prop[c07Case]{
		ID: "C07", Quick: 2500, Thor: 300_000,
		Rule: "configuration x arbitrary prefix (drops, zero RTTs) x one app-limited sample x a run of saturated drop-free samples at the baseline; optionally a ramp between prefix and run (20-1000 saturated samples, each 0.5-100 % slower than the one before; gradient2 then runs at 1-5x the last RTT); non-trivial = (prefix has a drop and a zero RTT, or a ramp of >=50 samples) and the run started >=3 below the ceiling",
		Gen:  genC07, Run: runC07,
	})
}
