package harness

// C13 — pools: NewFixedPool documents "use < 0 values for defaults". A FIFO / LIFO pool built with a negative
// timeout therefore bounds a blocked Acquire exactly like the pool built with the zero value (the queue
// limiter's default backlog timeout), and a random-order pool (blocking limiter) behaves like its zero-timeout
// twin. Metamorphic oracle: same scenario, timeout < 0 vs timeout 0, identical answers at identical instants.
// The default's numeric value is not assumed anywhere.

import (
	"fmt"
	"math"
	"sort"
	"testing"
	"testing/synctest"
	"time"

	"pgregory.net/rapid"

	"verifharness/kit"
)

type c13pCase struct {
	Ordering string `json:"ordering"`
	Limit    int    `json:"limit"`
	NegNs    int64  `json:"neg_ns"` // the negative timeout
	ArriveNs int64  `json:"arrive_ns"`
	Extra    int    `json:"extra"`  // callers beyond the pool size
	RelNs    int64  `json:"rel_ns"` // >0: one holder completes at that offset
	Outcome  int    `json:"outcome"`
}

type c13pRes struct {
	Done, OK bool
	RetAt    time.Duration
}

func (r c13pRes) String() string {
	if !r.Done {
		return "still blocked"
	}
	return fmt.Sprintf("ok=%v at +%v", r.OK, r.RetAt)
}

func c13pScenario(c c13pCase, timeoutNs int64) ([]c13pRes, string) {
	t0 := time.Now()
	st, err := buildStack(StackCfg{Kind: "fixedpool", Ordering: c.Ordering, Limit: c.Limit, Backlog: 8, TimeoutNs: timeoutNs}, nil, nil, t0)
	if err != nil {
		return nil, err.Error()
	}
	w := newWorld(st, t0)
	var holders []*vtCaller
	for i := 0; i < c.Limit; i++ {
		h := w.newCaller("a", 0, 0)
		w.start(h)
		synctest.Wait()
		if !h.Done || !h.OK {
			return nil, "prefill refused"
		}
		holders = append(holders, h)
	}
	time.Sleep(time.Duration(c.ArriveNs))
	synctest.Wait()
	var cs []*vtCaller
	for i := 0; i < c.Extra; i++ {
		cl := w.newCaller("a", 0, 0)
		w.start(cl)
		synctest.Wait()
		cs = append(cs, cl)
	}
	if c.RelNs > 0 {
		if d := time.Duration(c.RelNs) - w.now(); d > 0 {
			time.Sleep(d)
			synctest.Wait()
		}
		w.release(holders[0], c.Outcome)
		synctest.Wait()
	}
	if d := 20*time.Second - w.now(); d > 0 {
		time.Sleep(d)
	}
	synctest.Wait()
	snap := w.snapshot()
	var out []c13pRes
	for _, cl := range cs {
		s := snap[cl.ID]
		out = append(out, c13pRes{s.Done, s.OK, s.RetAt})
	}
	msg := w.unwind(25 * time.Second)
	w.flush()
	return out, msg
}

func runC13P(t *testing.T, c c13pCase) kit.Outcome {
	return bubble(t, func() kit.Outcome {
		neg, msg1 := c13pScenario(c, c.NegNs)
		zero, msg2 := c13pScenario(c, 0)
		if neg == nil || zero == nil {
			return kit.Outcome{Harness: "set-up: " + msg1 + msg2}
		}
		kind := "fixedpool-" + c.Ordering
		if c.Ordering == "random" {
			// which of several waiters a released unit goes to is not specified: compare as multisets
			for _, rs := range [][]c13pRes{neg, zero} {
				sort.Slice(rs, func(i, j int) bool { return rs[i].String() < rs[j].String() })
			}
		}
		for i := range neg {
			if neg[i] != zero[i] {
				return kit.Viol(kind+":negative-timeout", "%s pool of %d, all units held, caller %d of %d arriving at +%v (one unit released at +%v): with timeout %v (\"use < 0 values for defaults\") the caller: %v; with the zero value (defaults) the caller: %v",
					c.Ordering, c.Limit, i, c.Extra, time.Duration(c.ArriveNs), time.Duration(c.RelNs), time.Duration(c.NegNs), neg[i], zero[i])
			}
		}
		if msg1 != "" {
			return kit.Viol(kind+":stuck", "%s", msg1)
		}
		refused := false
		for _, r := range zero {
			refused = refused || (r.Done && !r.OK)
		}
		return kit.Outcome{NonTrivial: refused, Labels: []string{"ordering:" + c.Ordering, fmt.Sprintf("bounded-refusal:%v", refused)}}
	})
}

func TestC13_pool_defaults(t *testing.T) {
	kit.RequireMode(t, "std")
	kit.Check(t, kit.Prop[c13pCase]{
		ID: "C13", Quick: 400, Thor: 20_000,
		Rule: "FixedPool (fifo / lifo / random) with every unit held x 1-3 further callers x optional single release: built with a negative timeout vs built with timeout 0 (both documented as 'defaults'): every caller gets the same answer at the same virtual instant; non-trivial = some caller was refused by the default bound",
		Gen: func(t *rapid.T) c13pCase {
			return c13pCase{
				Ordering: rapid.SampledFrom([]string{"fifo", "lifo", "random"}).Draw(t, "ordering"),
				Limit:    rapid.IntRange(1, 3).Draw(t, "limit"),
				NegNs:    rapid.SampledFrom([]int64{-1, -1000, -1_000_000, -1_000_000_000, -3_600_000_000_000, math.MinInt64}).Draw(t, "neg"),
				ArriveNs: rapid.SampledFrom([]int64{0, 1, 5_000_000}).Draw(t, "arrive"),
				Extra:    rapid.IntRange(1, 3).Draw(t, "extra"),
				RelNs:    rapid.SampledFrom([]int64{0, 0, 1, 10_000_000, 999_999_999, 1_000_000_000, 1_000_000_001, 3_000_000_000}).Draw(t, "rel"),
				Outcome:  rapid.IntRange(0, 2).Draw(t, "outcome"),
			}
		},
		Run: runC13P,
	})
}
