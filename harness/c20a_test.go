package harness

// C20 (a) — metrics tell the truth (recording MetricRegistry under strategies, limits, limiter).

import (
	"fmt"
	"strings"
	"testing"

	"github.com/platinummonkey/go-concurrency-limits/core"
	"github.com/platinummonkey/go-concurrency-limits/limit"
	"github.com/platinummonkey/go-concurrency-limits/strategy"

	"pgregory.net/rapid"

	"verifharness/kit"
)

// metric names as the library composes them for a limit named "t"
var (
	mRTT      = core.PrefixMetricWithName(core.MetricRTT, "t")
	mInflight = core.PrefixMetricWithName(core.MetricInFlight, "t")
	mDropped  = core.PrefixMetricWithName(core.MetricDropped, "t")
	mLimit    = core.PrefixMetricWithName(core.MetricLimit, "t")
)

func partTag(name string) string { return strategy.PartitionTagName + ":" + name }

func dlCheckAcquireMetrics(c dlCase, b *dlBuilt, i int, e dlEv, ok bool, busyBefore int, binName string, binBefore int, smp []recSample) *kit.Outcome {
	var total, bins []recSample
	for _, s := range smp {
		if s.ID != core.MetricInFlight {
			continue
		}
		if s.Tags == "" {
			total = append(total, s)
		} else {
			bins = append(bins, s)
		}
	}
	switch c.Strategy {
	case "simple", "precise":
		want := float64(busyBefore)
		if ok {
			want = float64(busyBefore + 1)
		}
		if len(total) != 1 || total[0].Value != want {
			o := kit.Viol(c.Strategy+":inflight-metric", "event %d: Acquire (granted=%v, %d outstanding before) emitted in-flight samples %v, expected exactly one with value %v", i, ok, busyBefore, vals(total), want)
			return &o
		}
	default:
		if ok {
			// the bin charged is the partition object registered under the key at this moment (else the unknown bin);
			// its sample is that object's count after this grant
			bin := binName
			want := float64(binBefore + 1)
			if len(bins) != 1 || bins[0].Tags != partTag(bin) || bins[0].Value != want {
				o := kit.Viol(c.Strategy+":bin-inflight-metric", "event %d: granted request of %q emitted partition in-flight samples %v, expected one for partition %q with value %v", i, e.Key, fmtSamples(bins), bin, want)
				return &o
			}
		} else if len(bins) != 0 {
			o := kit.Viol(c.Strategy+":bin-inflight-metric", "event %d: refused request emitted partition in-flight samples %v", i, fmtSamples(bins))
			return &o
		}
	}
	return nil
}

func vals(s []recSample) []float64 {
	out := make([]float64, len(s))
	for i := range s {
		out[i] = s[i].Value
	}
	return out
}

func fmtSamples(s []recSample) string {
	out := ""
	for _, x := range s {
		out += fmt.Sprintf("{%s [%s] %v}", x.ID, x.Tags, x.Value)
	}
	return "[" + out + "]"
}

func dlCheckSampleMetrics(c dlCase, b *dlBuilt, i int, smp []recSample, before int, model *dlModel, estBefore int) *kit.Outcome {
	// gauges report the currently enforced values
	if v, ok := b.reg.gauge(core.MetricLimit, ""); !ok || int(v) != b.stratLimit() {
		o := kit.Viol(c.Strategy+":limit-gauge", "after event %d: limit gauge reports %v (registered=%v), the strategy enforces %d", i, v, ok, b.stratLimit())
		return &o
	}
	if b.lookup != nil || b.pred != nil {
		for k, n := range dlBins {
			if b.idxOf(n) < 0 {
				continue // not registered at the moment: nothing is enforced for it
			}
			if v, ok := b.reg.gauge(core.MetricPartitionLimit, partTag(n)); !ok || int(v) != b.binLimit(k) {
				o := kit.Viol(c.Strategy+":share-gauge", "after event %d: limit.partition gauge of %q reports %v, the partition enforces %d", i, n, v, b.binLimit(k))
				return &o
			}
		}
	}
	if b.script != nil || c.Limit.Algo == "script" {
		return nil
	}
	// a real algorithm instrumented with the registry under the name "t"
	var rtt, inf, drop []recSample
	for _, s := range smp {
		switch s.ID {
		case mRTT:
			rtt = append(rtt, s)
		case mInflight:
			inf = append(inf, s)
		case mDropped:
			drop = append(drop, s)
		}
	}
	if len(model.want) == before {
		if len(rtt)+len(inf)+len(drop) != 0 {
			o := kit.Viol(c.Limit.Algo+":sample-metrics", "event %d closed no window, yet the algorithm emitted rtt=%v inflight=%v dropped=%v", i, vals(rtt), vals(inf), vals(drop))
			return &o
		}
		return nil
	}
	w := model.want[len(model.want)-1]
	wantDrops := 0
	if w.Drop {
		wantDrops = 1
	}
	if len(rtt) != 1 || rtt[0].Value != float64(w.RTT) || len(inf) != 1 || inf[0].Value != float64(w.Inf) || len(drop) != wantDrops || (wantDrops == 1 && drop[0].Value != 1) {
		o := kit.Viol(c.Limit.Algo+":sample-metrics", "event %d processed sample %+v: emitted rtt=%v inflight=%v dropped=%v, expected exactly one rtt and one in-flight sample with those values and %d drop increment(s)", i, w, vals(rtt), vals(inf), vals(drop), wantDrops)
		return &o
	}
	return nil
}

func TestC20_limiter_metrics(t *testing.T) {
	kit.RequireMode(t, "std")
	kit.Check(t, kit.Prop[dlCase]{
		ID: "C20", Quick: 1500, Thor: 150_000,
		Rule: "DefaultLimiter over every strategy with a recording MetricRegistry on a virtual clock: one in-flight sample per admission decision equal to the count at the decision, limit / limit.partition gauges equal to the enforced values, each processed window emits rtt and in-flight once and a drop increment iff it dropped; non-trivial = >=20 events and >=1 window processed",
		Gen:  genDL("c20"), Run: func(t *testing.T, c dlCase) kit.Outcome { return runDL(t, c, "c20") },
	})
}

// ---- every limit type: OnSample -> exactly one rtt, one in-flight, drop increment iff drop ------

type c20LCase struct {
	Cfg     LimitCfg `json:"cfg"`
	Samples []Sample `json:"samples"`
}

// ---- limits behind wrappers: every layer's limit gauge reports the estimate in force -------------------------------

type c20WCase struct {
	Cfg LimitCfg `json:"cfg"`
	Ops []c16Op  `json:"ops"` // sample | set (settable delegate: the estimate moves without any sample passing the wrappers)
}

func TestC20_wrapped_limit_gauges(t *testing.T) {
	kit.RequireMode(t, "std")
	kit.Check(t, kit.Prop[c20WCase]{
		ID: "C20", Quick: 1500, Thor: 200_000,
		Rule: "limits behind windowed / traced wrappers (stacked too), all built over a recording registry; samples and - for a settable delegate - explicit SetLimit calls: after every operation every registered limit gauge (wrapper's and algorithm's) equals EstimatedLimit() of the outermost wrapper; the outermost windowed wrapper emits each sample it is given exactly once; non-trivial = the estimate changed at least once while a wrapper was in place",
		Gen: func(t *rapid.T) c20WCase {
			c := c20WCase{Cfg: genLimitCfg(t, []string{"aimd", "vegas", "gradient", "gradient2", "settable", "settable"}, true)}
			if !c.Cfg.Windowed && !c.Cfg.Traced {
				c.Cfg.Windowed = true
				c.Cfg.WinSize, c.Cfg.WinMin, c.Cfg.WinMax, c.Cfg.WinThreshold = 10, 100e6, 100e6, 1
			}
			n := rapid.IntRange(1, 60).Draw(t, "n")
			ss := genSamples(t, c.Cfg, n)
			j := 0
			for i := 0; i < n; i++ {
				if c.Cfg.Algo == "settable" && rapid.IntRange(0, 2).Draw(t, "set") == 0 {
					c.Ops = append(c.Ops, c16Op{K: "set", N: rapid.IntRange(-2, 400).Draw(t, "setn")})
				} else if j < len(ss) {
					c.Ops = append(c.Ops, c16Op{K: "sample", S: ss[j]})
					j++
				}
			}
			return c
		},
		Run: func(_ *testing.T, c c20WCase) kit.Outcome {
			reg := newRecRegistry()
			b := buildLimit(c.Cfg, reg)
			outerName := ""
			switch {
			case c.Cfg.Outer2 == "windowed":
				outerName = "w2"
			case c.Cfg.Windowed && c.Cfg.Outer2 == "":
				outerName = "w"
			}
			changed := false
			for i, op := range c.Ops {
				before := b.Outer.EstimatedLimit()
				reg.take()
				var inf int
				switch op.K {
				case "set":
					sl, ok := b.Inner.(*limit.SettableLimit)
					if !ok {
						continue
					}
					sl.SetLimit(op.N)
				case "sample":
					inf = op.S.inflight(before)
					b.Outer.OnSample(op.S.Start, op.S.RTT, inf, op.S.Drop)
				}
				est := b.Outer.EstimatedLimit()
				changed = changed || est != before
				reg.mu.Lock()
				gs := append([]recGauge(nil), reg.Gauges...)
				reg.mu.Unlock()
				seen := 0
				for _, g := range gs {
					if !strings.HasSuffix(g.ID, "."+core.MetricLimit) {
						continue
					}
					seen++
					if v, ok := g.Supplier(); !ok || int(v) != est {
						return kit.Viol("wrapped:limit-gauge", "op %d %+v: gauge %q reports %v (ok=%v) while EstimatedLimit() of the outermost wrapper is %d (before the operation %d)", i, op, g.ID, v, ok, est, before)
					}
				}
				if seen == 0 {
					return kit.Viol("wrapped:limit-gauge", "no limit gauge registered at all")
				}
				if op.K == "sample" && outerName != "" {
					var rtt, infs, drop int
					for _, x := range reg.take() {
						switch x.ID {
						case core.PrefixMetricWithName(core.MetricRTT, outerName):
							rtt++
						case core.PrefixMetricWithName(core.MetricInFlight, outerName):
							infs++
						case core.PrefixMetricWithName(core.MetricDropped, outerName):
							drop++
						}
					}
					wantDrop := 0
					if op.S.Drop {
						wantDrop = 1
					}
					if rtt != 1 || infs != 1 || drop != wantDrop {
						return kit.Viol("wrapped:sample-metrics", "op %d: sample %+v given to the windowed wrapper %q emitted rtt x%d, in-flight x%d, dropped x%d", i, op.S, outerName, rtt, infs, drop)
					}
				}
			}
			return kit.Outcome{NonTrivial: changed, Labels: []string{"algo:" + c.Cfg.Algo, "outer2:" + c.Cfg.Outer2}}
		},
	})
}

func TestC20_limit_metrics(t *testing.T) {
	kit.RequireMode(t, "std")
	kit.Check(t, kit.Prop[c20LCase]{
		ID: "C20", Quick: 2000, Thor: 300_000,
		Rule: "every limit type built with a recording registry: each OnSample emits exactly one rtt sample == rtt, one in-flight sample == in-flight and a drop-counter increment iff didDrop; limit gauge == EstimatedLimit(); non-trivial = >=1 drop and >=1 non-drop sample",
		Gen: func(t *rapid.T) c20LCase {
			c := c20LCase{Cfg: genLimitCfg(t, []string{"aimd", "vegas", "gradient", "gradient2", "settable", "fixed"}, false)}
			genUnsetSafe(t, &c.Cfg)
			c.Samples = genSamples(t, c.Cfg, 60)
			return c
		},
		Run: func(_ *testing.T, c c20LCase) kit.Outcome {
			reg := newRecRegistry()
			b := buildLimit(c.Cfg, reg)
			drops, oks := 0, 0
			for i, s := range c.Samples {
				inf := s.inflight(b.Outer.EstimatedLimit())
				reg.take()
				b.Outer.OnSample(s.Start, s.RTT, inf, s.Drop)
				var rtt, infs, drop []recSample
				for _, x := range reg.take() {
					switch x.ID {
					case mRTT:
						rtt = append(rtt, x)
					case mInflight:
						infs = append(infs, x)
					case mDropped:
						drop = append(drop, x)
					}
				}
				wantDrops := 0
				if s.Drop {
					wantDrops = 1
					drops++
				} else {
					oks++
				}
				if len(rtt) != 1 || rtt[0].Value != float64(s.RTT) || len(infs) != 1 || infs[0].Value != float64(inf) || len(drop) != wantDrops || (wantDrops == 1 && drop[0].Value != 1) {
					return kit.Viol(c.Cfg.Algo+":sample-metrics", "sample %d (rtt=%d in-flight=%d drop=%v): emitted rtt=%v inflight=%v dropped=%v", i, s.RTT, inf, s.Drop, vals(rtt), vals(infs), vals(drop))
				}
				if v, ok := reg.gauge(mLimit, ""); !ok || int(v) != b.Outer.EstimatedLimit() {
					return kit.Viol(c.Cfg.Algo+":limit-gauge", "after sample %d: limit gauge reports %v (registered=%v), EstimatedLimit()=%d", i, v, ok, b.Outer.EstimatedLimit())
				}
				if k, ok := reg.Kinds[mRTT+"|"]; !ok || k != "timing" {
					return kit.Viol(c.Cfg.Algo+":metric-kind", "rtt registered as %q", k)
				}
				if k := reg.Kinds[mDropped+"|"]; k != "count" {
					return kit.Viol(c.Cfg.Algo+":metric-kind", "dropped registered as %q", k)
				}
				if k := reg.Kinds[mInflight+"|"]; k != "distribution" {
					return kit.Viol(c.Cfg.Algo+":metric-kind", "inflight registered as %q", k)
				}
			}
			return kit.Outcome{NonTrivial: drops > 0 && oks > 0, Labels: []string{"algo:" + c.Cfg.Algo}}
		},
	})
}
