package harness

// C11 — a delegate that decides per context (partitioned strategy): whatever the partitions allow, released
// capacity goes to the caller that is first in the configured order or to nobody. A waiter is never granted
// while a caller ahead of it in line is still waiting (arrivals that find room may be admitted directly; that
// is not a hand-off and is not judged here).

import (
	"fmt"
	"testing"
	"testing/synctest"
	"time"

	"pgregory.net/rapid"

	"verifharness/kit"
)

type c11pOp struct {
	K       string `json:"k"` // arrive | release
	Key     string `json:"key,omitempty"`
	Idx     int    `json:"idx,omitempty"`
	Outcome int    `json:"outcome,omitempty"`
}

type c11pCase struct {
	Stack StackCfg `json:"stack"`
	Ops   []c11pOp `json:"ops"`
}

func runC11P(t *testing.T, c c11pCase) kit.Outcome { return runC11PL(t, c, false) }

// runC11PL: with live set the run also judges C10 - a release is always offered to the caller at the head of the
// line; if that caller's request is one the partitioned strategy admits in the state the release leaves behind (total
// below the limit, or its own partition below its share), it must not be found still waiting afterwards.
func runC11PL(t *testing.T, c c11pCase, live bool) kit.Outcome {
	return bubble(t, func() kit.Outcome {
		t0 := time.Now()
		st, err := buildStack(c.Stack, nil, nil, t0)
		if err != nil {
			return kit.Outcome{Harness: err.Error()}
		}
		w := newWorld(st, t0)
		lifo := c.Stack.wantLIFO()
		kind := c.Stack.Kind + "-" + ordName(lifo) + "-" + c.Stack.Strategy
		var line []*vtCaller // callers blocked, oldest first
		var held []*vtCaller
		skipped, handoffs := false, 0
		fail := func(o kit.Outcome) kit.Outcome {
			w.unwind(c.Stack.unwindWait())
			w.flush()
			return o
		}
		for i, op := range c.Ops {
			switch op.K {
			case "arrive":
				cl := w.newCaller(op.Key, 0, 0)
				w.start(cl)
				synctest.Wait()
				switch {
				case cl.Done && cl.OK:
					held = append(held, cl)
				case !cl.Done:
					line = append(line, cl)
				}
			case "release":
				if len(held) == 0 {
					continue
				}
				k := op.Idx % len(held)
				h := held[k]
				held = append(held[:k], held[k+1:]...)
				w.release(h, op.Outcome)
				synctest.Wait()
			}
			if w.now() != 0 {
				return fail(kit.Outcome{Harness: "virtual clock advanced"})
			}
			// who left the line? Walk it in the configured order: callers handed a token must form a prefix of that
			// order (one release may serve several callers where the partitions have room, but never one that has a
			// still-waiting caller ahead of it).
			idx := make([]int, len(line))
			for j := range line {
				idx[j] = j
				if lifo {
					idx[j] = len(line) - 1 - j
				}
			}
			var waitingAhead *vtCaller
			for _, j := range idx {
				cl := line[j]
				switch {
				case !cl.Done:
					if waitingAhead == nil {
						waitingAhead = cl
					}
				case cl.OK && waitingAhead != nil:
					return fail(kit.Viol(kind+":served-ahead", "op %d (%s): caller %d (key %q) was handed a token while caller %d (key %q), which is ahead of it in %s order, is still waiting; line (oldest first): %s", i, op.K, cl.ID, cl.Key, waitingAhead.ID, waitingAhead.Key, ordName(lifo), lineStr(line)))
				case cl.OK:
					held = append(held, cl)
					handoffs++
				default:
					return fail(kit.Viol(kind+":refused", "op %d: waiting caller %d returned refused although no time has passed", i, cl.ID))
				}
			}
			var rest []*vtCaller
			for _, cl := range line {
				if !cl.Done {
					rest = append(rest, cl)
				}
			}
			if live && op.K == "release" && len(line) > 0 && !line[idx[0]].Done {
				hd := line[idx[0]] // the caller that was first in line when the token came back: the one it was offered to
				bi := st.binOf(hd.Key)
				room := st.busy() < st.limit()
				why := fmt.Sprintf("total busy %d is below the limit %d", st.busy(), st.limit())
				if !room && bi >= 0 {
					if share := dlShare(st.limit(), stackBinFracs[hd.Key]); st.binBusy(bi) < share {
						room, why = true, fmt.Sprintf("its partition %q holds %d of its share of %d", hd.Key, st.binBusy(bi), share)
					}
				}
				if bi == -2 {
					room = false // the predicate strategy admits no request that matches no partition
				}
				if room {
					return fail(kit.Viol(kind+":handoff-lost", "op %d: a token was released while caller %d (key %q) was first in line (%s order); it is still waiting although %s; line (oldest first): %s", i, hd.ID, hd.Key, ordName(lifo), why, lineStr(line)))
				}
			}
			if op.K == "release" && len(rest) == len(line) && len(line) > 1 {
				skipped = true // a release that served nobody although several wait: the head's partition had no room
			}
			line = rest
		}
		msg := w.unwind(c.Stack.unwindWait())
		w.flush()
		if msg != "" {
			return kit.Viol(kind+":stuck", "%s", msg)
		}
		return kit.Outcome{NonTrivial: handoffs >= 1 && skipped, Labels: []string{"kind:" + kind, fmt.Sprintf("release-served-nobody:%v", skipped)}}
	})
}

func lineStr(line []*vtCaller) string {
	s := ""
	for _, cl := range line {
		s += fmt.Sprintf("%d(%s) ", cl.ID, cl.Key)
	}
	return s
}

var genC11P = func(t *rapid.T) c11pCase {
	var c c11pCase
	c.Stack = rapid.SampledFrom(c11tStacks).Draw(t, "stack")
	c.Stack.Strategy = rapid.SampledFrom([]string{"lookup", "predicate"}).Draw(t, "strategy")
	c.Stack.Limit, c.Stack.Backlog, c.Stack.TimeoutMs = rapid.IntRange(2, 6).Draw(t, "limit"), 8, 1000
	op := rapid.Custom(func(t *rapid.T) c11pOp {
		if rapid.IntRange(0, 2).Draw(t, "k") > 0 {
			return c11pOp{K: "arrive", Key: rapid.SampledFrom([]string{"a", "a", "b", "b", "zz"}).Draw(t, "key")}
		}
		return c11pOp{K: "release", Idx: rapid.IntRange(0, 20).Draw(t, "idx"), Outcome: rapid.IntRange(0, 2).Draw(t, "outcome")}
	})
	c.Ops = rapid.SliceOfN(op, 4, 40).Draw(t, "ops")
	return c
}

func TestC11_partitioned(t *testing.T) {
	kit.RequireMode(t, "std")
	kit.Check(t, kit.Prop[c11pCase]{
		ID: "C11", Quick: 3000, Thor: 300_000,
		Rule: "queue limiter (FIFO / LIFO / default) over a DefaultLimiter with a lookup or predicate partition strategy (limit 2-6), callers of partitions a / b / unknown, arrivals and releases at one virtual instant; a waiter handed a token must have been first in the configured order; non-trivial = a hand-off happened and some release served nobody although several callers waited",
		Gen:  genC11P,
		Run:  runC11P,
	})
}

// TestC10_partitioned: the C11 scenario judged for C10 - a released token reaches the caller at the head of the line
// whenever the partitioned strategy has room for that caller's request.
func TestC10_partitioned(t *testing.T) {
	kit.RequireMode(t, "std")
	kit.Check(t, kit.Prop[c11pCase]{
		ID: "C10", Quick: 3000, Thor: 300_000,
		Rule: "queue limiter (FIFO / LIFO / default) over a DefaultLimiter with a lookup or predicate partition strategy (limit 2-6), callers of partitions a / b / unknown, arrivals and releases at one virtual instant; after every release the caller at the head of the line is not left waiting if the strategy admits its request in the state the release leaves behind (total below the limit or its partition below its share); non-trivial = a hand-off happened and some release served nobody although several callers waited",
		Gen:  genC11P,
		Run:  func(t *testing.T, c c11pCase) kit.Outcome { return runC11PL(t, c, true) },
	})
}
