package harness

// C01 — admission is an atomic gate (sequential histories; concurrent engines in c01c_test.go).

import (
	"testing"

	"verifharness/kit"
)

func TestC01_sequential(t *testing.T) {
	kit.RequireMode(t, "std")
	kit.Check(t, kit.Prop[dlCase]{
		ID: "C01", Quick: 2500, Thor: 300_000,
		Rule: "DefaultLimiter over simple/precise strategy and a scripted / real limit on a virtual clock (windows really close, the limit really moves while tokens are outstanding): every Acquire is granted iff outstanding < enforced limit, busy == outstanding after every op, held <= largest limit in force; non-trivial = a refusal at the limit, a grant after a release and a limit lowered below the held count",
		Gen:  genDL("c01"), Run: func(t *testing.T, c dlCase) kit.Outcome { return runDL(t, c, "c01") },
	})
}
