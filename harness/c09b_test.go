package harness

// C09 (b) — WindowedLimit: the delegate sees each window once, aggregated exactly.

import (
	"math"
	"testing"

	"github.com/platinummonkey/go-concurrency-limits/core"
	"github.com/platinummonkey/go-concurrency-limits/limit"
	"pgregory.net/rapid"

	"verifharness/kit"
)

type c09bCase struct {
	WinSize   int32    `json:"win_size"`
	WinMin    int64    `json:"win_min"`
	WinMax    int64    `json:"win_max"`
	Threshold int64    `json:"threshold"`
	Samples   []Sample `json:"samples"`
	// Bulk: a long quiet stretch - BulkN samples whose in-flight stays at or below the window size, so the window
	// cannot close however much time passes - inserted before sample BulkAt (RTTs alternate between two values; one
	// window then folds tens of thousands of samples)
	BulkAt   int   `json:"bulk_at,omitempty"`
	BulkN    int   `json:"bulk_n,omitempty"`
	BulkRTT  int64 `json:"bulk_rtt,omitempty"`
	BulkRTT2 int64 `json:"bulk_rtt2,omitempty"`
	// Align: sample indexes (mod the number of samples) whose start time is moved, at run time, so that the sample ends
	// exactly at / one nanosecond before / one after the instant from which the next update is allowed (the boundary
	// of the window period itself), whenever that keeps start times in order
	Align    []int `json:"align,omitempty"`
	AlignOff []int `json:"align_off,omitempty"`
	// Via: what sits between the windowed limit and the algorithm - nothing, or a traced limit (a pass-through wrapper;
	// "traced-debug": with a logger that formats its arguments). The algorithm must receive the same folds either way.
	Via string `json:"via,omitempty"`
}

// samples expands the case into the sequence fed to the limit.
func (c c09bCase) samples() []Sample {
	if c.BulkN <= 0 {
		return c.Samples
	}
	at := c.BulkAt % (len(c.Samples) + 1)
	out := append([]Sample(nil), c.Samples[:at]...)
	var start int64
	if at > 0 {
		start = c.Samples[at-1].Start
	}
	for j := 0; j < c.BulkN; j++ {
		r := c.BulkRTT
		if j%3 == 2 {
			r = c.BulkRTT2
		}
		out = append(out, Sample{Start: start, RTT: r, Inf: j % int(c.WinSize+1)})
	}
	return append(out, c.Samples[at:]...)
}

// recLimit is a recording core.Limit with a scripted estimate.
type recLimit struct {
	est int
	Got []Sample
}

func (r *recLimit) EstimatedLimit() int                     { return r.est }
func (r *recLimit) NotifyOnChange(core.LimitChangeListener) {}
func (r *recLimit) OnSample(start, rtt int64, inf int, drop bool) {
	r.Got = append(r.Got, Sample{Start: start, RTT: rtt, Inf: inf, Drop: drop})
	r.est++
}

func genC09b(t *rapid.T) c09bCase {
	c := c09bCase{
		WinSize:   int32(rapid.IntRange(10, 12).Draw(t, "wsize")),
		WinMin:    int64(rapid.IntRange(100, 400).Draw(t, "wmin")) * 1e6,
		Threshold: rapid.SampledFrom([]int64{0, 1, 50, 1000, 1_000_000, -5}).Draw(t, "thr"),
	}
	c.WinMax = c.WinMin
	if rapid.Bool().Draw(t, "wider") {
		c.WinMax += int64(rapid.IntRange(0, 400).Draw(t, "wmaxd")) * 1e6
	}
	if rapid.IntRange(0, 7).Draw(t, "unboundedMax") == 0 {
		c.WinMax = rapid.SampledFrom([]int64{math.MaxInt64, math.MaxInt64 - 1, 1 << 62}).Draw(t, "hugeMax") // "no upper bound on the window"
	}
	n := rapid.IntRange(1, 80).Draw(t, "n")
	start := int64(rapid.IntRange(0, 1000).Draw(t, "t0"))
	dropPct := rapid.SampledFrom([]int{0, 10, 10, 30, 30, 60, 100}).Draw(t, "droppct")
	for i := 0; i < n; i++ {
		s := Sample{}
		start += rapid.OneOf(rapid.Int64Range(0, 1000), rapid.Int64Range(0, 60_000_000), rapid.Int64Range(0, 300_000_000)).Draw(t, "dt")
		s.Start = start
		s.RTT = rapid.OneOf(rapid.Int64Range(1, 100), rapid.Int64Range(1, 2000), rapid.Int64Range(1, 5_000_000), rapid.Int64Range(1, 600_000_000)).Draw(t, "rtt")
		s.Inf = rapid.OneOf(rapid.IntRange(0, 30), rapid.IntRange(8, 14), rapid.IntRange(0, 100000)).Draw(t, "inf")
		s.Drop = rapid.IntRange(0, 99).Draw(t, "drop") < dropPct
		c.Samples = append(c.Samples, s)
	}
	if rapid.Bool().Draw(t, "align") {
		k := rapid.IntRange(1, 6).Draw(t, "nAlign")
		for i := 0; i < k; i++ {
			c.Align = append(c.Align, rapid.IntRange(0, n-1).Draw(t, "alignAt"))
			c.AlignOff = append(c.AlignOff, rapid.SampledFrom([]int{0, 0, -1, 1}).Draw(t, "alignOff"))
		}
	}
	c.Via = rapid.SampledFrom([]string{"", "", "traced", "traced-debug"}).Draw(t, "via")
	if rapid.IntRange(0, 24).Draw(t, "bulk") == 0 {
		c.BulkAt = rapid.IntRange(0, n).Draw(t, "bulkAt")
		c.BulkN = rapid.SampledFrom([]int{300, 5000, 32767, 65534, 65535, 65536, 65537, 70000, 131071, 131072}).Draw(t, "bulkN")
		c.BulkRTT = rapid.Int64Range(maxI64(1, c.Threshold), 5_000_000).Draw(t, "bulkRTT")
		c.BulkRTT2 = rapid.Int64Range(maxI64(1, c.Threshold), 600_000_000).Draw(t, "bulkRTT2")
	}
	return c
}

func runC09b(_ *testing.T, c c09bCase) kit.Outcome {
	rec := &recLimit{est: 7}
	var delegate core.Limit = rec
	switch c.Via {
	case "traced":
		delegate = limit.NewTracedLimit(rec, limit.NoopLimitLogger{})
	case "traced-debug":
		delegate = limit.NewTracedLimit(rec, debugDiscardLogger{})
	}
	w, err := limit.NewWindowedLimit("w", c.WinMin, c.WinMax, c.WinSize, c.Threshold, delegate, nil)
	if err != nil {
		return kit.Outcome{Harness: "constructor rejected a valid configuration: " + err.Error()}
	}
	// reference fold
	var (
		want                       []Sample
		nextUpdate                 int64
		minRTT                     int64 = math.MaxInt64
		sum                        int64
		count, maxInf              int
		drop                       bool
		dropNotClosing, subThresh  bool
		windowHasDropBeforeClosing bool
		ambiguous                  bool
	)
	reset := func() {
		minRTT, sum, count, maxInf, drop, windowHasDropBeforeClosing = math.MaxInt64, 0, 0, 0, false, false
	}
	all := c.samples()
	alignAt := map[int]int{}
	if c.BulkN <= 0 {
		for k, idx := range c.Align {
			if k < len(c.AlignOff) && len(all) > 0 {
				alignAt[idx%len(all)] = c.AlignOff[k]
			}
		}
	}
	var shift, lastStart int64 // later samples keep their distance to an aligned one
	for i, s := range all {
		s.Start += shift
		if off, ok := alignAt[i]; ok && nextUpdate > 0 && !ambiguous {
			if want := nextUpdate + int64(off) - s.RTT; want >= lastStart {
				shift += want - s.Start
				s.Start = want
			}
		}
		lastStart = s.Start
		if !ambiguous {
			if s.RTT < c.Threshold {
				subThresh = true
			} else {
				if s.Inf > maxInf {
					maxInf = s.Inf
				}
				if s.Drop {
					drop = true
				} else {
					count++
					sum += s.RTT
					if s.RTT < minRTT {
						minRTT = s.RTT
					}
				}
				end := s.Start + s.RTT
				if end > nextUpdate && int32(s.Inf) > c.WinSize {
					avg := int64(0)
					if count > 0 {
						avg = sum / int64(count)
					}
					want = append(want, Sample{Start: s.Start, RTT: avg, Inf: maxInf, Drop: drop})
					if windowHasDropBeforeClosing && !s.Drop {
						dropNotClosing = true
					}
					if minRTT == math.MaxInt64 && c.WinMin != c.WinMax {
						// a window without any success has no minimum: the period that follows is not
						// specified (the code inherits an integer overflow here); stop comparing.
						ambiguous = true
					}
					period := c.WinMax
					if minRTT != math.MaxInt64 {
						period = minRTT * 2
						if period < c.WinMin {
							period = c.WinMin
						}
						if period > c.WinMax {
							period = c.WinMax
						}
					}
					nextUpdate = end + period
					reset()
				} else if s.Drop {
					windowHasDropBeforeClosing = true
				}
			}
		}
		w.OnSample(s.Start, s.RTT, s.Inf, s.Drop)
		if !ambiguous || len(rec.Got) <= len(want) {
			if len(rec.Got) > len(want) {
				return kit.Viol("windowed:extra-update", "sample %d %+v: delegate received update #%d %+v, the window rules allow none here (model has %d)", i, s, len(rec.Got), rec.Got[len(rec.Got)-1], len(want))
			}
			if !ambiguous && len(rec.Got) < len(want) {
				return kit.Viol("windowed:missing-update", "sample %d %+v closes a ready window (expected %+v) but the delegate was not updated", i, s, want[len(want)-1])
			}
			if n := len(rec.Got); n > 0 && n <= len(want) && rec.Got[n-1] != want[n-1] {
				sig := "windowed:aggregate"
				if rec.Got[n-1].Drop != want[n-1].Drop {
					sig = "windowed:drop-flag"
				}
				return kit.Viol(sig, "window #%d closed by sample %d %+v: delegate received %+v, exact fold of the window is %+v", n, i, s, rec.Got[n-1], want[n-1])
			}
		}
		if w.EstimatedLimit() != rec.EstimatedLimit() {
			return kit.Viol("windowed:estimate", "wrapper reports %d, delegate %d", w.EstimatedLimit(), rec.EstimatedLimit())
		}
	}
	out := kit.Outcome{NonTrivial: len(want) >= 2 && dropNotClosing && subThresh}
	if len(want) >= 2 {
		out.Labels = append(out.Labels, "windows>=2")
	}
	if dropNotClosing {
		out.Labels = append(out.Labels, "drop-inside-window")
	}
	if ambiguous {
		out.Labels = append(out.Labels, "truncated-at-drop-only-window")
	}
	if c.BulkN >= 65535 {
		out.Labels = append(out.Labels, "window-of->=65535-samples")
	}
	return out
}

func TestC09_windowed(t *testing.T) {
	kit.RequireMode(t, "std")
	kit.Check(t, kit.Prop[c09bCase]{
		ID: "C09", Quick: 4000, Thor: 800_000,
		Rule: "WindowedLimit over a recording delegate (directly or through a traced limit) fed generated (start, rtt, in-flight, drop) sequences, some with a quiet stretch of up to 131072 samples folded into one window; delegate's OnSample list compared element-wise with a reference fold; non-trivial = >=2 windows closed, a drop inside a window that is not its closing sample, a sub-threshold sample",
		Gen:  genC09b, Run: runC09b,
	})
}

// winFold is the reference model of one WindowedLimit (the fold runC09b uses, as a reusable value): feed it the
// samples the wrapper is given, it returns the aggregate the delegate must receive when the sample closes a window.
type winFold struct {
	size           int32
	min, max, thr  int64
	nextUpdate     int64
	minRTT, sum    int64
	count, maxInf  int
	drop           bool
	Ambiguous      bool // a window without any success was closed with min != max window: the next period is not specified
	DropNotClosing bool
	dropBefore     bool
}

func newWinFold(size int32, min, max, thr int64) *winFold {
	return &winFold{size: size, min: min, max: max, thr: thr, minRTT: math.MaxInt64}
}

func (f *winFold) feed(s Sample) *Sample {
	if f.Ambiguous || s.RTT < f.thr {
		return nil
	}
	if s.RTT == 0 && !s.Drop {
		// a literal 0 ns success sample that passes the threshold (threshold <= 0): 0 is the sample window's "no minimum yet"
		// sentinel, what follows is not specified (DESIGN 6, domain decisions); stop comparing
		f.Ambiguous = true
		return nil
	}
	if s.Inf > f.maxInf {
		f.maxInf = s.Inf
	}
	if s.Drop {
		f.drop = true
	} else {
		f.count++
		f.sum += s.RTT
		if s.RTT < f.minRTT {
			f.minRTT = s.RTT
		}
	}
	end := s.Start + s.RTT
	if !(end > f.nextUpdate && int32(s.Inf) > f.size) {
		if s.Drop {
			f.dropBefore = true
		}
		return nil
	}
	avg := int64(0)
	if f.count > 0 {
		avg = f.sum / int64(f.count)
	}
	out := &Sample{Start: s.Start, RTT: avg, Inf: f.maxInf, Drop: f.drop}
	if f.dropBefore && !s.Drop {
		f.DropNotClosing = true
	}
	period := f.max
	if f.minRTT == math.MaxInt64 {
		if f.min != f.max {
			f.Ambiguous = true
		}
	} else {
		period = f.minRTT * 2
		if period < f.min {
			period = f.min
		}
		if period > f.max {
			period = f.max
		}
	}
	f.nextUpdate = end + period
	f.minRTT, f.sum, f.count, f.maxInf, f.drop, f.dropBefore = math.MaxInt64, 0, 0, 0, false, false
	return out
}
