package harness

// C11 — order among callers that wait for a long time. Pools and queue limiters built without a backlog timeout
// (zero: "use the library's default") are driven with gaps between arrivals and releases that range from a
// millisecond to several seconds of virtual time, so that the default timeout - whose value is NOT assumed -
// comes into play for some callers and not for others. The oracle is observational:
//   * a caller that returns refused has left the line; all refusals of one case must have waited the same time
//     (the one default), and once that time is known nobody may still be waiting beyond it;
//   * a release with room must serve the first caller in the configured order among those still waiting
//     (a caller that silently re-joined the line behind later arrivals shows up here).

import (
	"fmt"
	"testing"
	"testing/synctest"
	"time"

	"pgregory.net/rapid"

	"verifharness/kit"
)

type c11lOp struct {
	K       string `json:"k"` // arrive | release | sleep
	Idx     int    `json:"idx,omitempty"`
	Outcome int    `json:"outcome,omitempty"`
	Ms      int    `json:"ms,omitempty"`
}

type c11lCase struct {
	Stack StackCfg `json:"stack"`
	Ops   []c11lOp `json:"ops"`
}

func genC11l(t *rapid.T) c11lCase {
	var c c11lCase
	c.Stack.Kind = rapid.SampledFrom([]string{"queue", "fifo-dep", "lifo-dep", "pool", "fixedpool", "pool", "fixedpool"}).Draw(t, "kind")
	c.Stack.Limit = rapid.IntRange(1, 2).Draw(t, "limit")
	c.Stack.Strategy = rapid.SampledFrom([]string{"simple", "precise"}).Draw(t, "strategy")
	c.Stack.Backlog = rapid.IntRange(4, 16).Draw(t, "backlog")
	c.Stack.TimeoutMs = 0 // "no timeout configured"
	if rapid.IntRange(0, 2).Draw(t, "noBacklog") == 0 {
		// ... and no backlog bound configured either (zero / negative: "use the library's default", value not assumed:
		// an arrival refused on the spot is simply not in line). Every argument is then at its default - what a
		// caller gets who only wants "the FIFO one" or "the LIFO one".
		c.Stack.Backlog = rapid.SampledFrom([]int{0, 0, -1, -100}).Draw(t, "unsetBacklog")
	}
	if rapid.IntRange(0, 3).Draw(t, "negTimeout") == 0 && (c.Stack.Kind == "pool" || c.Stack.Kind == "fixedpool") {
		c.Stack.TimeoutNs = -int64(rapid.IntRange(1, 1000).Draw(t, "neg")) // pools: negative also means "not set"
	}
	switch c.Stack.Kind {
	case "queue":
		c.Stack.Ordering = rapid.SampledFrom([]string{"fifo", "lifo", ""}).Draw(t, "ordering")
		c.Stack.Defaults = rapid.IntRange(0, 3).Draw(t, "defaults") == 0
		if c.Stack.Defaults {
			c.Stack.Ordering = ""
		}
	case "fifo-dep", "lifo-dep":
		c.Stack.Defaults = rapid.Bool().Draw(t, "defaults")
	case "pool", "fixedpool":
		c.Stack.Ordering = rapid.SampledFrom([]string{"fifo", "lifo"}).Draw(t, "ordering")
		if c.Stack.Kind == "fixedpool" {
			c.Stack.Strategy = ""
		}
	}
	gap := rapid.OneOf(rapid.IntRange(1, 50), rapid.IntRange(50, 1500), rapid.IntRange(100, 5000))
	for i := 0; i < c.Stack.Limit; i++ {
		c.Ops = append(c.Ops, c11lOp{K: "arrive"})
	}
	n := rapid.IntRange(3, 14).Draw(t, "n")
	for i := 0; i < n; i++ {
		switch k := rapid.IntRange(0, 9).Draw(t, "k"); {
		case k < 4:
			c.Ops = append(c.Ops, c11lOp{K: "arrive"})
		case k < 7:
			c.Ops = append(c.Ops, c11lOp{K: "sleep", Ms: gap.Draw(t, "ms")})
		default:
			c.Ops = append(c.Ops, c11lOp{K: "release", Idx: rapid.IntRange(0, 9).Draw(t, "idx"), Outcome: rapid.IntRange(0, 2).Draw(t, "outcome")})
		}
	}
	return c
}

func runC11l(t *testing.T, c c11lCase) kit.Outcome {
	return bubble(t, func() kit.Outcome { return runC11lInBubble(c) })
}

func runC11lInBubble(c c11lCase) (out kit.Outcome) {
	t0 := time.Now()
	st, err := buildStack(c.Stack, nil, nil, t0)
	if err != nil {
		return kit.Outcome{Harness: "stack: " + err.Error()}
	}
	w := newWorld(st, t0)
	lifo := c.Stack.wantLIFO()
	kind := c.Stack.Kind + "-notimeout"
	var line []*vtCaller // waiting callers by arrival, oldest first (as the harness has observed them)
	var held []*vtCaller
	var waited time.Duration // the default timeout as learned from the first refusal (0 = not yet seen)
	var sawTimeout, sawChoiceAfterTimeout, sawLongWait bool
	fail := func(format string, a ...any) kit.Outcome {
		w.unwind(20 * time.Second)
		w.flush()
		return kit.Viol(kind+":order", format, a...)
	}
	// observe: callers that returned refused have left the line; their waits must agree
	observe := func(when string) string {
		synctest.Wait()
		kept := line[:0:0]
		for _, cl := range line {
			w.mu.Lock()
			done, ok, ret := cl.Done, cl.OK, cl.RetAt
			w.mu.Unlock()
			switch {
			case !done:
				if waited > 0 && w.now()-cl.Arrived > waited {
					return fmt.Sprintf("%s: caller %d has been waiting for %v, other callers of this limiter were refused after %v", when, cl.ID, w.now()-cl.Arrived, waited)
				}
				kept = append(kept, cl)
			case ok:
				return fmt.Sprintf("%s: caller %d was granted at +%v although no capacity was released for it", when, cl.ID, ret)
			default:
				d := ret - cl.Arrived
				if waited == 0 {
					waited = d
				} else if d != waited {
					return fmt.Sprintf("%s: caller %d was refused after waiting %v, an earlier caller after %v (one backlog timeout per limiter)", when, cl.ID, d, waited)
				}
				sawTimeout = true
			}
		}
		line = kept
		return ""
	}
	for i, op := range c.Ops {
		switch op.K {
		case "arrive":
			time.Sleep(time.Millisecond)
			if msg := observe(fmt.Sprintf("op %d (before arrival)", i)); msg != "" {
				return fail("%s", msg)
			}
			cl := w.newCaller("a", 0, 0)
			w.start(cl)
			synctest.Wait()
			w.mu.Lock()
			done, ok := cl.Done, cl.OK
			w.mu.Unlock()
			switch {
			case len(held) < c.Stack.Limit:
				if !done || !ok {
					return fail("op %d: caller %d arrived with %d of %d units free and was not granted", i, cl.ID, c.Stack.Limit-len(held), c.Stack.Limit)
				}
				held = append(held, cl)
			case done && ok:
				return fail("op %d: caller %d was granted with every unit held", i, cl.ID)
			case done:
				// refused on the spot: the backlog is full (bound not assumed here)
			default:
				line = append(line, cl)
			}
		case "sleep":
			time.Sleep(time.Duration(op.Ms) * time.Millisecond)
			if msg := observe(fmt.Sprintf("op %d (sleep %dms)", i, op.Ms)); msg != "" {
				return fail("%s", msg)
			}
		case "release":
			if len(held) == 0 {
				continue
			}
			if msg := observe(fmt.Sprintf("op %d (before release)", i)); msg != "" {
				return fail("%s", msg)
			}
			k := op.Idx % len(held)
			h := held[k]
			held = append(held[:k], held[k+1:]...)
			w.release(h, op.Outcome)
			synctest.Wait()
			if len(line) == 0 {
				continue
			}
			j := 0
			if lifo {
				j = len(line) - 1
			}
			want := line[j]
			for _, cl := range line {
				w.mu.Lock()
				done, ok := cl.Done, cl.OK
				w.mu.Unlock()
				if done && ok && cl != want {
					return fail("op %d (release at +%v): caller %d (arrived +%v) was served, the %s order among the callers still waiting %v puts caller %d (arrived +%v) first", i, w.now(), cl.ID, cl.Arrived, ordName(lifo), ids(line), want.ID, want.Arrived)
				}
			}
			w.mu.Lock()
			done, ok := want.Done, want.OK
			w.mu.Unlock()
			if !done || !ok {
				if done && w.now() == want.Arrived+waited || (waited == 0 && done) {
					// the head's own timeout fired at this very instant: a tie, either outcome is fine; observe() sorts it out
					continue
				}
				return fail("op %d (release at +%v): one unit is free and caller %d is first in %s order among %v, yet it was not served", i, w.now(), want.ID, ordName(lifo), ids(line))
			}
			if len(line) >= 2 {
				if sawTimeout {
					sawChoiceAfterTimeout = true
				}
				for _, cl := range line {
					if w.now()-cl.Arrived > 900*time.Millisecond {
						sawLongWait = true
					}
				}
			}
			line = append(line[:j], line[j+1:]...)
			held = append(held, want)
		}
	}
	if msg := w.unwind(20 * time.Second); msg != "" {
		w.flush()
		return kit.Viol(kind+":stuck", "%s", msg)
	}
	w.flush()
	out.NonTrivial = sawChoiceAfterTimeout || sawLongWait
	out.Labels = []string{"kind:" + c.Stack.Kind, "order:" + ordName(lifo)}
	if sawTimeout {
		out.Labels = append(out.Labels, "default-timeout-observed")
	}
	if sawLongWait {
		out.Labels = append(out.Labels, "release-with-choice-after-a-long-wait")
	}
	return out
}

func ids(cs []*vtCaller) []int {
	out := make([]int, len(cs))
	for i, c := range cs {
		out[i] = c.ID
	}
	return out
}

func TestC11_long_waits(t *testing.T) {
	kit.RequireMode(t, "std")
	kit.Check(t, kit.Prop[c11lCase]{
		ID: "C11", Quick: 2500, Thor: 100_000,
		Rule: "queue limiters / pools built without a backlog timeout (library default, value not assumed) x arrivals, sleeps of 1 ms - 5 s, releases; refusals must agree on one waiting time, releases must serve the first in order among the callers still waiting; non-trivial = a release with >=2 waiting after some caller timed out, or with a caller that had waited > 0.9 s",
		Gen:  genC11l, Run: runC11l, Timeout: 30 * time.Second,
	})
}
