package harness

// C12 — backlog is bounded and holds exactly the callers still blocked.

import (
	"fmt"
	"github.com/platinummonkey/go-concurrency-limits/core"
	"math"
	"testing"
	"testing/synctest"
	"time"

	"pgregory.net/rapid"

	"verifharness/kit"
)

var c12Kinds = []string{"queue", "queue", "queue", "fifo-dep", "lifo-dep", "pool"}

func genC12(coop bool) func(t *rapid.T) c02Case {
	return func(t *rapid.T) c02Case {
		c := c02Case{Stack: genStackCfg(t, c12Kinds, coop)}
		c.Stack.Defaults = false
		c.Stack.Limit = rapid.IntRange(1, 2).Draw(t, "limit2")
		if c.Stack.Kind == "pool" {
			c.Stack.Ordering = rapid.SampledFrom([]string{"fifo", "lifo"}).Draw(t, "pool-ordering")
		}
		if c.Stack.Strategy == "predicate" || c.Stack.Strategy == "lookup" {
			c.Stack.Strategy = rapid.SampledFrom([]string{"simple", "precise", "lookup"}).Draw(t, "strategy2")
		}
		c.Evs = rapid.SliceOfN(genC02Ev(0), 3, 40).Draw(t, "evs")
		if c.Stack.Kind != "fifo-dep" && rapid.IntRange(0, 24).Draw(t, "defaultBacklog") == 0 {
			// "use the default": zero or negative sizes select the library's default bound (read back from its own
			// queue_limit gauge at run time, never assumed); more callers than that arrive at once. N = callers
			// beyond bound + limit.
			c.Stack.Backlog = rapid.SampledFrom([]int{0, -1, -7}).Draw(t, "nonPositiveBacklog")
			c.Stack.TimeoutMs = 50
			c.Evs = append(c.Evs, c02Ev{K: "mass", N: rapid.IntRange(1, 5).Draw(t, "extra")})
		}
		if rapid.IntRange(0, 7).Draw(t, "forever") == 0 {
			// "wait for as long as it takes": the largest duration there is
			c.Stack.TimeoutNs = rapid.SampledFrom([]int64{math.MaxInt64, math.MaxInt64 - 1, math.MaxInt64 / 2, int64(250 * 365 * 24 * time.Hour)}).Draw(t, "foreverNs")
		}
		if coop {
			c.Yields = yieldList(rapid.SliceOfN(rapid.SampledFrom([]uint8{0, 0, 1, 1, 2, 3}), 0, 40).Draw(t, "yields"))
		}
		return c
	}
}

func runC12(t *testing.T, c c02Case) kit.Outcome {
	return bubble(t, func() kit.Outcome { return runC12InBubble(c) })
}

func runC12InBubble(c c02Case) (out kit.Outcome) {
	t0 := time.Now()
	var sc *sched
	if len(c.Yields) > 0 || c.Stack.Inject {
		sc = newSched(c.Yields)
	}
	st, err := buildStack(c.Stack, nil, sc, t0)
	if err != nil {
		return kit.Outcome{Harness: "stack: " + err.Error()}
	}
	sc.install()
	defer (*sched)(nil).install()
	w := newWorld(st, t0)
	x := &evExec{w: w}
	kind := c.Stack.Kind
	maxBacklog := c.Stack.effBacklog()
	if c.Stack.Backlog <= 0 {
		// the default bound is the library's business: take what it declares, insist that it is a real bound and
		// that every non-positive size selects the same one
		v, ok := st.reg.gauge(core.MetricQueueLimit, "")
		if !ok {
			return kit.Viol(kind+":limit-gauge", "queue_limit gauge was not registered with the configured registry")
		}
		if v < 1 || v > 100_000 {
			return kit.Viol(kind+":default-bound", "backlog size %d asks for the default bound; the limiter declares a bound of %v callers, which is no bound", c.Stack.Backlog, v)
		}
		maxBacklog = int(v)
		twinCfg := c.Stack
		twinCfg.Backlog = 0
		if twin, err := buildStack(twinCfg, nil, nil, t0); err == nil && c.Stack.Backlog != 0 {
			if tv, ok := twin.reg.gauge(core.MetricQueueLimit, ""); !ok || tv != v {
				return kit.Viol(kind+":default-bound", "backlog size %d and backlog size 0 both ask for the default bound but the limiters declare %v and %v (registered=%v)", c.Stack.Backlog, v, tv, ok)
			}
		}
		evs := append([]c02Ev(nil), c.Evs...)
		for i := range evs {
			if evs[i].K == "mass" {
				evs[i].N = maxBacklog + c.Stack.Limit + evs[i].N%7 + 1
			}
		}
		c.Evs = evs
	}
	// "every caller that is granted, times out or is cancelled has left the backlog by the time its Acquire
	// returns": looked at from inside the returning caller, under a cooperative schedule (nothing else runs
	// between the return and the look): the backlog may list at most the OTHER callers still inside Acquire.
	var stillListed string
	if sc != nil && st.queue != nil && len(c.Yields) > 0 {
		w.atReturn = func(me *vtCaller, ok bool) {
			others := 0
			w.mu.Lock()
			for _, o := range w.callers {
				if o != me && o.Started && !o.Done {
					others++
				}
			}
			w.mu.Unlock()
			if n := st.queue.VerifBacklogLen(); n > others && stillListed == "" {
				stillListed = fmt.Sprintf("caller %d returned from Acquire (ok=%v) while the backlog still holds %d element(s) and only %d other caller(s) are inside Acquire; points %v", me.ID, ok, n, others, sc.Trace)
			}
		}
	}
	fail := func(o kit.Outcome) kit.Outcome {
		w.unwind(c.Stack.unwindWait())
		w.flush()
		return o
	}
	var arrivedFull, handoffAndGiveUp bool
	check := func(when string) *kit.Outcome {
		synctest.Wait()
		blocked := len(w.blocked())
		if blocked > maxBacklog {
			o := kit.Viol(kind+":bound", "%s: %d callers are blocked, the backlog bound is %d", when, blocked, maxBacklog)
			return &o
		}
		hasReg := c.Stack.Kind != "fifo-dep" // the deprecated FIFO constructor takes no registry
		if v, ok := st.reg.gauge(core.MetricQueueSize, ""); !ok {
			if hasReg {
				o := kit.Viol(kind+":size-gauge", "queue_size gauge was not registered with the configured registry")
				return &o
			}
		} else if int(v) != blocked {
			o := kit.Viol(kind+":size-gauge", "%s: queue_size gauge reports %v but %d callers are blocked in Acquire", when, v, blocked)
			return &o
		}
		if st.queue != nil {
			if n := st.queue.VerifBacklogLen(); n != blocked {
				o := kit.Viol(kind+":backlog-len", "%s: backlog holds %d elements but %d callers are blocked in Acquire", when, n, blocked)
				return &o
			}
		}
		if v, ok := st.reg.gauge(core.MetricQueueLimit, ""); hasReg && (!ok || int(v) != maxBacklog) {
			o := kit.Viol(kind+":limit-gauge", "%s: queue_limit gauge reports %v (registered=%v), configured bound %d", when, v, ok, maxBacklog)
			return &o
		}
		return nil
	}
	for i, e := range c.Evs {
		blockedBefore := len(w.blocked())
		outstandingBefore, _ := w.outstanding()
		nBefore := len(w.callers)
		if e.K == "burst" && blockedBefore > 0 {
			hasComplete, hasCancel := false, false
			for _, a := range e.Acts {
				hasComplete = hasComplete || a.K == "complete"
				hasCancel = hasCancel || a.K == "cancel"
			}
			if hasComplete && hasCancel {
				handoffAndGiveUp = true
			}
		}
		x.do(e, false)
		if stillListed != "" {
			return fail(kit.Viol(kind+":listed-after-return", "event %d (%s): %s", i, e.K, stillListed))
		}
		if o := check(fmt.Sprintf("after event %d (%s)", i, e.K)); o != nil {
			return fail(*o)
		}
		if e.K == "arrive" && len(w.callers) == nBefore+1 {
			cl := w.snapshot()[nBefore]
			full := blockedBefore >= maxBacklog
			if full {
				arrivedFull = true
				// a caller finding the backlog full gets a token (capacity free) or is refused at once
				if !cl.Done || cl.RetAt != cl.Arrived {
					return fail(kit.Viol(kind+":full-not-refused", "event %d: caller %d arrived at a full backlog (%d/%d) at +%v and was not answered at once (done=%v at +%v)", i, cl.ID, blockedBefore, maxBacklog, cl.Arrived, cl.Done, cl.RetAt))
				}
			} else if cl.Done && !cl.OK && cl.RetAt == cl.Arrived && !c.Stack.partitionedStrategy() && outstandingBefore >= 0 {
				// room in the backlog, yet refused on the spot
				return fail(kit.Viol(kind+":refused-with-room", "event %d: caller %d was refused at once although only %d of %d backlog places were taken", i, cl.ID, blockedBefore, maxBacklog))
			}
		}
	}
	if msg := w.unwind(c.Stack.unwindWait()); msg != "" {
		w.flush()
		return kit.Viol(kind+":stuck", "%s", msg)
	}
	w.flush()
	if o := check("at the end"); o != nil {
		return *o
	}
	out.NonTrivial = arrivedFull && (handoffAndGiveUp || (x.completedWhileBlocked && x.gaveUp))
	out.Labels = []string{"kind:" + kind}
	if arrivedFull {
		out.Labels = append(out.Labels, "arrival-at-full-backlog")
	}
	if handoffAndGiveUp {
		out.Labels = append(out.Labels, "handoff+giveup-same-instant")
	}
	return out
}

func (c StackCfg) partitionedStrategy() bool {
	return c.Strategy == "lookup" || c.Strategy == "predicate"
}

func TestC12_backlog(t *testing.T) {
	kit.RequireMode(t, "std")
	kit.Check(t, kit.Prop[c02Case]{
		ID: "C12", Quick: 4000, Thor: 400_000,
		Rule: "queue limiter (all constructors, pools) x event sequences on a virtual clock; at every quiescent point queue_size gauge == backlog length == callers blocked <= bound, queue_limit gauge == bound, a caller arriving at a full backlog is answered at the same instant; non-trivial = an arrival at a full backlog plus a hand-off and a give-up in one case",
		Gen:  genC12(false), Run: runC12, Timeout: 30 * time.Second,
	})
}

func TestC12_sched_Coop(t *testing.T) {
	kit.RequireMode(t, "coop")
	kit.Check(t, kit.Prop[c02Case]{
		ID: "C12", Quick: 2500, Thor: 250_000,
		Rule: "as TestC12_backlog under generated cooperative schedules (yields at queue.beforePush / queue.pushed / queue.giveup / queue.unblock.acquired and around the injected delegate)",
		Gen:  genC12(true), Run: runC12, Timeout: 30 * time.Second,
	})
}
