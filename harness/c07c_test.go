package harness

// C07 — the demand gate under concurrent samples. For AIMD the outcome of n non-drop samples that all report the
// same in-flight count F is order independent: the estimate grows by the increment while F >= estimate and never
// afterwards, so whatever the interleaving the final estimate is the first value of initial + k x increment that
// exceeds F (or initial + n x increment if the samples run out first). A sample whose gate was evaluated against an
// older estimate than the one it is applied to overshoots that value. The metric registry handed to the limit (a
// public extension point) yields or spins inside AddSample, which is where a slow real registry would spend time.

import (
	"fmt"
	"runtime"
	"sync"
	"testing"

	"github.com/platinummonkey/go-concurrency-limits/core"
	"pgregory.net/rapid"

	"verifharness/kit"
)

// slowRegistry: every sample listener yields / spins a configured number of times per sample.
type slowRegistry struct{ yields, spins int }

type slowListener struct{ r *slowRegistry }

func (l slowListener) AddSample(v float64, tags ...string) {
	for i := 0; i < l.r.yields; i++ {
		runtime.Gosched()
	}
	x := 0
	for i := 0; i < l.r.spins; i++ {
		x += i
	}
	_ = x
}
func (r *slowRegistry) RegisterDistribution(string, ...string) core.MetricSampleListener {
	return slowListener{r}
}
func (r *slowRegistry) RegisterTiming(string, ...string) core.MetricSampleListener {
	return slowListener{r}
}
func (r *slowRegistry) RegisterCount(string, ...string) core.MetricSampleListener {
	return slowListener{r}
}
func (r *slowRegistry) RegisterGauge(string, core.MetricSupplier, ...string) {}
func (r *slowRegistry) Start()                                               {}
func (r *slowRegistry) Stop()                                                {}

type c07cCase struct {
	Cfg     LimitCfg `json:"cfg"`
	Workers int      `json:"workers"`
	Samples int      `json:"samples"` // per worker
	Inf     int      `json:"inf"`     // the in-flight count every sample reports (>= initial)
	Yields  int      `json:"yields"`
	Spins   int      `json:"spins"`
}

func TestC07_concurrent(t *testing.T) {
	kit.RequireMode(t, "std")
	kit.Check(t, kit.Prop[c07cCase]{
		ID: "C07", Quick: 300, Thor: 10_000,
		Rule: "2-8 real threads feed non-drop samples with one common in-flight count F >= initial to an AIMD limit built over a slow metric registry; the final estimate must be the first initial + k x increment above F (no sample may raise the estimate once it exceeds F); non-trivial = enough samples to cross F",
		Gen: func(t *rapid.T) c07cCase {
			c := c07cCase{Cfg: LimitCfg{Algo: "aimd", JitterSeed: 1}, Workers: rapid.IntRange(2, 8).Draw(t, "workers"), Samples: rapid.IntRange(1, 60).Draw(t, "samples")}
			c.Cfg.Initial = rapid.IntRange(1, 200).Draw(t, "initial")
			c.Cfg.IncreaseBy = rapid.IntRange(1, 20).Draw(t, "incr")
			c.Cfg.Backoff = 0.9
			c.Inf = c.Cfg.Initial + rapid.IntRange(0, 3*c.Cfg.IncreaseBy).Draw(t, "above")
			c.Yields = rapid.IntRange(0, 3).Draw(t, "yields")
			c.Spins = rapid.SampledFrom([]int{0, 0, 100, 5000}).Draw(t, "spins")
			return c
		},
		Run: func(_ *testing.T, c c07cCase) kit.Outcome {
			b := buildLimit(c.Cfg, &slowRegistry{yields: c.Yields, spins: c.Spins})
			start := make(chan struct{})
			var wg sync.WaitGroup
			for g := 0; g < c.Workers; g++ {
				wg.Add(1)
				go func() {
					defer wg.Done()
					<-start
					for i := 0; i < c.Samples; i++ {
						b.Outer.OnSample(0, 1000, c.Inf, false)
					}
				}()
			}
			close(start)
			wg.Wait()
			n := c.Workers * c.Samples
			want := c.Cfg.Initial
			crossed := false
			for i := 0; i < n; i++ {
				if c.Inf < want {
					crossed = true
					break
				}
				want += c.Cfg.IncreaseBy
			}
			if got := b.Outer.EstimatedLimit(); got != want {
				return kit.Viol("aimd:gate-raced", "%d threads x %d non-drop samples, all with in-flight %d, on AIMD (initial %d, +%d): estimate %d; in every order the estimate stops growing at %d (the first value above the reported in-flight)", c.Workers, c.Samples, c.Inf, c.Cfg.Initial, c.Cfg.IncreaseBy, got, want)
			}
			return kit.Outcome{NonTrivial: crossed, Labels: []string{fmt.Sprintf("crossed:%v", crossed)}}
		},
		NoShrink: true,
	})
}
