package harness

// C01 — real threads, sampling windows that close all the time: every window hands the limit to the strategy
// again (SetLimit, also when the value repeats) while other threads complete their tokens. The gate must stay a
// gate: never more holders than the limit, and once everything is completed the idle limiter grants exactly
// `limit` callers in a row (none refused while capacity is free, the next one refused).

import (
	"context"
	"fmt"
	"sync"
	"sync/atomic"
	"testing"
	"time"

	"github.com/platinummonkey/go-concurrency-limits/core"
	"github.com/platinummonkey/go-concurrency-limits/limit"
	"github.com/platinummonkey/go-concurrency-limits/limiter"
	"github.com/platinummonkey/go-concurrency-limits/strategy"
	"pgregory.net/rapid"

	"verifharness/kit"
)

type c01sCase struct {
	Strategy string `json:"strategy"`
	Limit    int    `json:"limit"`
	Workers  int    `json:"workers"`
	Cycles   int    `json:"cycles"`
	Rounds   int    `json:"rounds"`
}

func runC01S(_ *testing.T, c c01sCase) kit.Outcome {
	var st core.Strategy
	var busy func() int
	if c.Strategy == "precise" {
		p := strategy.NewPreciseStrategy(c.Limit)
		st, busy = p, p.GetBusyCount
	} else {
		s := strategy.NewSimpleStrategy(c.Limit)
		st, busy = s, s.GetBusyCount
	}
	lim, err := limiter.NewDefaultLimiter(limit.NewFixedLimit("f", c.Limit, nil), 1, 1, 0, 10, st, nil, nil)
	if err != nil {
		return kit.Outcome{Harness: err.Error()}
	}
	var holders, maxHolders atomic.Int64
	for round := 0; round < c.Rounds; round++ {
		start := make(chan struct{})
		var wg sync.WaitGroup
		for g := 0; g < c.Workers; g++ {
			wg.Add(1)
			go func(g int) {
				defer wg.Done()
				<-start
				for i := 0; i < c.Cycles; i++ {
					l, ok := lim.Acquire(context.Background())
					if !ok {
						continue
					}
					n := holders.Add(1)
					for {
						m := maxHolders.Load()
						if n <= m || maxHolders.CompareAndSwap(m, n) {
							break
						}
					}
					holders.Add(-1)
					if (g+i)%5 == 0 {
						l.OnIgnore()
					} else {
						l.OnSuccess()
					}
				}
			}(g)
		}
		close(start)
		done := make(chan struct{})
		go func() { wg.Wait(); close(done) }()
		select {
		case <-done:
		case <-time.After(60 * time.Second):
			return kit.Outcome{Harness: "workers did not finish within 60 s (inconclusive)"}
		}
		if m := maxHolders.Load(); m > int64(c.Limit) {
			return kit.Viol(c.Strategy+":over-limit", "%d tokens were held at once, the limit is %d throughout", m, c.Limit)
		}
		if b := busy(); b != 0 {
			return kit.Viol(c.Strategy+":end-busy", "round %d: after %d threads x %d acquire/complete cycles (windows closing all the time) the strategy reports busy=%d with no token outstanding", round, c.Workers, c.Cycles, b)
		}
		// idle now: exactly `limit` grants in a row
		var got []core.Listener
		for i := 0; i < c.Limit; i++ {
			l, ok := lim.Acquire(context.Background())
			if !ok {
				return kit.Viol(c.Strategy+":refused-with-room", "round %d: the idle limiter (limit %d) refused caller %d of %d", round, c.Limit, i+1, c.Limit)
			}
			got = append(got, l)
		}
		if l, ok := lim.Acquire(context.Background()); ok {
			l.OnIgnore()
			return kit.Viol(c.Strategy+":over-limit", "round %d: with %d tokens held (limit %d) one more caller was granted", round, c.Limit, c.Limit)
		}
		for _, l := range got {
			l.OnIgnore()
		}
	}
	return kit.Outcome{NonTrivial: c.Workers > c.Limit, Labels: []string{"strategy:" + c.Strategy, fmt.Sprintf("workers>limit:%v", c.Workers > c.Limit)}}
}

func TestC01_windows_parallel(t *testing.T) {
	kit.RequireMode(t, "std")
	kit.Check(t, kit.Prop[c01sCase]{
		ID: "C01", Quick: 40, Thor: 1500,
		Rule: "DefaultLimiter (simple / precise, fixed limit 1-6, 1 ns sampling windows, no RTT filter) x 4-16 real threads x 2000-20000 acquire/complete cycles x 1-3 rounds; never more holders than the limit; after each round busy == 0, the idle limiter grants exactly `limit` callers and refuses the next; non-trivial = more threads than the limit",
		Gen: func(t *rapid.T) c01sCase {
			return c01sCase{Strategy: rapid.SampledFrom([]string{"simple", "simple", "precise"}).Draw(t, "strategy"), Limit: rapid.IntRange(1, 6).Draw(t, "limit"),
				Workers: rapid.IntRange(4, 16).Draw(t, "workers"), Cycles: rapid.SampledFrom([]int{2000, 5000, 20000}).Draw(t, "cycles"), Rounds: rapid.IntRange(1, 3).Draw(t, "rounds")}
		},
		Run: runC01S, NoShrink: true,
	})
}
