package harness

// C19 / C10 — a hand-off that meets the back-log timer of the caller it is meant for. The delegate's part of a hand-off
// takes time (its metric listener writes to a socket, say); if the waiting caller's timer fires meanwhile, the caller
// may come back with the token it was handed late or - whatever the limiter decides to do about such a caller - the
// unit must not end up lying free while somebody else is queued behind with time left on its own timer: a queued
// caller is served when capacity frees. Real clock with wide margins (time has to pass *inside* the hand-off, and a
// caller blocked on the limiter's mutex is not something the virtual clock can step over): time-outs of 2 s, a second
// caller arriving 1 s after the first, the release 100 ms before the first timer, a hand-off that takes 300 ms. Judged
// only after the release call has returned, and only on a state that the unchanged semantics never pass through at
// rest: no unit in use, the second caller still blocked - seen twice, 200 ms apart, with about 400 ms or more left on its
// timer.

import (
	"context"
	"fmt"
	"os"
	"testing"
	"time"

	"pgregory.net/rapid"

	"verifharness/kit"
)

type c19tCase struct {
	Stack StackCfg `json:"stack"`
}

func TestC19_handoff_meets_timer(t *testing.T) {
	kit.RequireMode(t, "std")
	kit.Check(t, kit.Prop[c19tCase]{
		ID: "C19", Quick: 3, Thor: 60,
		Rule: "generic pools (fifo / lifo) and queue limiters, limit 1, back-log time-out 2 s, on the real clock: the holder releases 100 ms before the first waiter's timer fires and the delegate's part of the hand-off takes 300 ms, a second waiter arrived 1 s after the first; after the release has returned it is never the case (twice, 200 ms apart, with about 400 ms or more left on the second waiter's timer) that no unit is in use while the second waiter is still blocked; non-trivial = every case",
		Gen: func(t *rapid.T) c19tCase {
			var c c19tCase
			c.Stack = StackCfg{Kind: rapid.SampledFrom([]string{"pool", "queue"}).Draw(t, "kind"), Ordering: "fifo", Strategy: "precise", Limit: 1, Backlog: 4, TimeoutMs: 2000}
			return c
		},
		Run: func(_ *testing.T, c c19tCase) kit.Outcome {
			t0 := time.Now()
			st, err := buildStack(c.Stack, nil, nil, t0)
			if err != nil {
				return kit.Outcome{Harness: err.Error()}
			}
			type res struct {
				ok bool
				l  interface{ OnIgnore() }
				at time.Duration
			}
			holder, ok := st.lim.Acquire(context.Background())
			if !ok {
				return kit.Outcome{Harness: "holder refused"}
			}
			wait := func(ch chan res) {
				l, ok := st.lim.Acquire(context.Background())
				r := res{ok: ok, at: time.Since(t0)}
				if ok && l != nil {
					r.l = l
				}
				ch <- r
			}
			w1, w2 := make(chan res, 1), make(chan res, 1)
			go wait(w1) // timer at about +2 s
			time.Sleep(time.Second)
			go wait(w2) // timer at about +3 s
			time.Sleep(900 * time.Millisecond)
			// the next thing the strategy reports is the in-flight count of the hand-off's own acquire (the precise strategy
			// reports on acquires only): it takes 300 ms
			st.reg.sleepSkip.Store(0)
			st.reg.sleepOnce.Store(int64(300 * time.Millisecond))
			holder.OnIgnore() // +1.9 s .. +2.2 s: the first waiter's timer fires inside the hand-off
			released := time.Since(t0)
			var r1 res
			select {
			case r1 = <-w1:
			case <-time.After(20 * time.Second):
				return kit.Outcome{Harness: "the first waiter did not return within 20 s (inconclusive here)"}
			}
			lost := 0
			for i := 0; i < 2; i++ {
				if time.Since(t0) > 2600*time.Millisecond {
					break // less than 400 ms left on the second waiter's timer: too late to judge
				}
				select {
				case r2 := <-w2:
					w2 <- r2
				default:
					if st.busy() == 0 {
						lost++
					}
				}
				time.Sleep(200 * time.Millisecond)
			}
			// unwind
			if r1.ok && r1.l != nil {
				r1.l.OnIgnore()
			}
			var r2 res
			select {
			case r2 = <-w2:
			case <-time.After(20 * time.Second):
				return kit.Outcome{Harness: "the second waiter did not return within 20 s (inconclusive here)"}
			}
			if r2.ok && r2.l != nil {
				r2.l.OnIgnore()
			}
			if os.Getenv("C19T_DEBUG") != "" {
				fmt.Fprintf(os.Stderr, "C19T kind=%s released=%v r1={ok:%v at:%v} lost=%d r2={ok:%v at:%v}\n", c.Stack.Kind, released, r1.ok, r1.at, lost, r2.ok, r2.at)
			}
			if lost == 2 {
				return kit.Viol(c.Stack.Kind+":handoff-meets-timer", "the holder released at +%v (the hand-off took until +%v, across the first waiter's timer); the first waiter returned ok=%v at +%v; afterwards no unit was in use while the second waiter (arrived +1 s, time-out 2 s) stayed blocked - seen twice, 200 ms apart; it returned ok=%v at +%v", (released - 300*time.Millisecond).Round(time.Millisecond), released.Round(time.Millisecond), r1.ok, r1.at.Round(time.Millisecond), r2.ok, r2.at.Round(time.Millisecond))
			}
			return kit.Outcome{NonTrivial: true, Labels: []string{"kind:" + c.Stack.Kind, fmt.Sprintf("first-waiter-ok:%v", r1.ok)}}
		},
		NoShrink: true, Timeout: 2 * time.Minute,
	})
}
