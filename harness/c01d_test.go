package harness

// C01 / C02 — deep histories of the counting gate. The generated cases of the other C01 tests hold a handful of
// tokens for a few dozen operations; a gate that recycles internal objects, packs counters into narrow fields or
// keeps per-token state only misbehaves after hundreds or thousands of grants. Here a case is a short list of
// *phases* (acquire k, release m in a chosen order, set the limit), each of which stands for up to a few thousand
// operations, against limits up to several thousand - including the values around powers of two where a packed field
// or a fixed-size cache ends. Oracle: the atomic counting gate (granted iff held < limit, busy == held after every
// phase, full limit admitted again at the end).

import (
	"context"
	"fmt"
	"testing"

	"github.com/platinummonkey/go-concurrency-limits/core"
	"github.com/platinummonkey/go-concurrency-limits/limit"
	"github.com/platinummonkey/go-concurrency-limits/limiter"
	"github.com/platinummonkey/go-concurrency-limits/strategy"
	"pgregory.net/rapid"

	"verifharness/kit"
)

type c01dPhase struct {
	K     string `json:"k"` // acq | rel | set | rebuild (limiter subjects: a new limiter over the live strategy)
	N     int    `json:"n"`
	Order string `json:"order,omitempty"` // rel: oldest | newest | stride
	Out   int    `json:"out,omitempty"`   // limiter subjects: completion outcome 0 success 1 ignore 2 dropped
}

type c01dCase struct {
	Subject string      `json:"subject"` // precise | simple | limiter-precise | limiter-simple
	Limit   int         `json:"limit"`
	Phases  []c01dPhase `json:"phases"`
}

var c01dEdges = []int{1, 2, 15, 16, 17, 63, 64, 65, 127, 128, 129, 255, 256, 257, 300, 511, 512, 513, 1000, 1023, 1024, 1025, 2047, 2048, 2049, 4096, 5000}

func genC01D(t *rapid.T) c01dCase {
	c := c01dCase{Subject: rapid.SampledFrom([]string{"precise", "precise", "simple", "limiter-precise", "limiter-simple"}).Draw(t, "subject")}
	c.Limit = rapid.OneOf(rapid.SampledFrom(c01dEdges), rapid.IntRange(1, 5000)).Draw(t, "limit")
	count := rapid.OneOf(rapid.SampledFrom(c01dEdges), rapid.IntRange(1, 600), rapid.IntRange(1, 5000))
	n := rapid.IntRange(2, 14).Draw(t, "phases")
	for i := 0; i < n; i++ {
		switch k := rapid.IntRange(0, 9).Draw(t, "k"); {
		case k == 8 && rapid.Bool().Draw(t, "rebuild"):
			c.Phases = append(c.Phases, c01dPhase{K: "rebuild"})
		case k < 5:
			c.Phases = append(c.Phases, c01dPhase{K: "acq", N: count.Draw(t, "n")})
		case k < 9:
			c.Phases = append(c.Phases, c01dPhase{K: "rel", N: count.Draw(t, "n"), Order: rapid.SampledFrom([]string{"oldest", "newest", "stride"}).Draw(t, "order"), Out: rapid.IntRange(0, 2).Draw(t, "out")})
		default:
			c.Phases = append(c.Phases, c01dPhase{K: "set", N: rapid.OneOf(rapid.SampledFrom(c01dEdges), rapid.IntRange(1, 5000)).Draw(t, "set")})
		}
	}
	return c
}

func runC01D(_ *testing.T, c c01dCase) kit.Outcome {
	type held struct {
		tk core.StrategyToken
		ls core.Listener
	}
	var acquire func() (held, bool)
	var busy, limitNow func() int
	var setLimit func(int)
	var settable *limit.SettableLimit
	rebuild := func() error { return nil }
	switch c.Subject {
	case "precise":
		s := strategy.NewPreciseStrategy(c.Limit)
		acquire = func() (held, bool) {
			tk, ok := s.TryAcquire(context.Background())
			return held{tk: tk}, ok && tk != nil && tk.IsAcquired()
		}
		busy, limitNow, setLimit = s.GetBusyCount, s.GetLimit, s.SetLimit
	case "simple":
		s := strategy.NewSimpleStrategy(c.Limit)
		acquire = func() (held, bool) {
			tk, ok := s.TryAcquire(context.Background())
			return held{tk: tk}, ok && tk != nil && tk.IsAcquired()
		}
		busy, limitNow, setLimit = s.GetBusyCount, s.GetLimit, s.SetLimit
	default:
		var st core.Strategy
		if c.Subject == "limiter-precise" {
			s := strategy.NewPreciseStrategy(1)
			st, busy, limitNow = s, s.GetBusyCount, s.GetLimit
		} else {
			s := strategy.NewSimpleStrategy(1)
			st, busy, limitNow = s, s.GetBusyCount, s.GetLimit
		}
		settable = limit.NewSettableLimit("deep", c.Limit, nil)
		l, err := limiter.NewDefaultLimiter(settable, int64(3600e9), int64(3600e9), 1, 10, st, nil, nil)
		if err != nil {
			return kit.Outcome{Harness: err.Error()}
		}
		acquire = func() (held, bool) { ls, ok := l.Acquire(context.Background()); return held{ls: ls}, ok && ls != nil }
		// a configuration reload: a new limiter is built around the live strategy and limit while tokens handed out by
		// the old one are still out (they come back through the old limiter's listeners); the gate is the strategy's
		rebuild = func() error {
			nl, err := limiter.NewDefaultLimiter(settable, int64(3600e9), int64(3600e9), 1, 10, st, nil, nil)
			if err == nil {
				l = nl
			}
			return err
		}
		// the limit moves the way a window update moves it: the algorithm's estimate and the strategy together (a
		// window that closes later on re-applies the same value)
		setLimit = func(n int) { settable.SetLimit(n); st.SetLimit(n) }
	}
	release := func(h held, out int) {
		if h.tk != nil {
			h.tk.Release()
			return
		}
		complete(h.ls, out)
	}
	L := c.Limit
	if got := limitNow(); got != L {
		return kit.Viol(c.Subject+":deep-limit", "enforced limit right after construction = %d, want %d", got, L)
	}
	var toks []held
	maxHeld, refusals, cycles := 0, 0, 0
	for pi, ph := range c.Phases {
		switch ph.K {
		case "acq":
			for j := 0; j < ph.N; j++ {
				h, ok := acquire()
				want := len(toks) < L
				if ok != want {
					return kit.Viol(c.Subject+":deep-gate", "phase %d (%+v), acquire #%d: granted=%v with %d tokens held and limit %d", pi, ph, j, ok, len(toks), L)
				}
				if ok {
					toks = append(toks, h)
				} else {
					refusals++
					if refusals > 40 {
						j = ph.N // further refusals at the same state add nothing
					}
				}
			}
		case "rel":
			if len(toks) > 0 {
				cycles++
			}
			for j := 0; j < ph.N && len(toks) > 0; j++ {
				k := 0
				switch ph.Order {
				case "newest":
					k = len(toks) - 1
				case "stride":
					k = (j * 7) % len(toks)
				}
				h := toks[k]
				toks = append(toks[:k], toks[k+1:]...)
				release(h, ph.Out)
			}
		case "rebuild":
			if err := rebuild(); err != nil {
				return kit.Outcome{Harness: err.Error()}
			}
		case "set":
			setLimit(ph.N)
			L = ph.N
			if got := limitNow(); got != L {
				return kit.Viol(c.Subject+":deep-limit", "phase %d: SetLimit(%d), the strategy enforces %d", pi, ph.N, got)
			}
		}
		if len(toks) > maxHeld {
			maxHeld = len(toks)
		}
		if got := busy(); got != len(toks) {
			return kit.Viol(c.Subject+":deep-busy", "after phase %d (%+v): busy count %d, tokens held %d (limit %d)", pi, ph, got, len(toks), L)
		}
	}
	// quiescence: everything back, then the full limit again, then one refusal
	for _, h := range toks {
		release(h, 1)
	}
	if got := busy(); got != 0 {
		return kit.Viol(c.Subject+":deep-end-busy", "after every token was returned the busy count is %d", got)
	}
	toks = toks[:0]
	for j := 0; j < L; j++ {
		h, ok := acquire()
		if !ok {
			return kit.Viol(c.Subject+":deep-end-readmit", "idle gate with limit %d granted only %d tokens", L, j)
		}
		toks = append(toks, h)
	}
	if _, ok := acquire(); ok {
		return kit.Viol(c.Subject+":deep-end-readmit", "gate with limit %d granted a token beyond its limit", L)
	}
	for _, h := range toks {
		release(h, 1)
	}
	out := kit.Outcome{NonTrivial: maxHeld > 256 && cycles >= 2 && refusals > 0}
	out.Labels = []string{"subject:" + c.Subject, fmt.Sprintf("held>256:%v", maxHeld > 256), fmt.Sprintf("held>1024:%v", maxHeld > 1024)}
	return out
}

func TestC01_deep(t *testing.T) {
	kit.RequireMode(t, "std")
	kit.Check(t, kit.Prop[c01dCase]{
		ID: "C01", Quick: 400, Thor: 40_000,
		Rule: "precise / simple strategy used directly or under a DefaultLimiter x limits 1-5000 (values around powers of two on purpose) x 2-14 phases of up to 5000 acquires, releases (oldest / newest / strided order, any outcome) or a SetLimit: granted iff held < limit, busy == held after every phase, full limit admitted again at the end; non-trivial = more than 256 tokens held at once, two release phases and a refusal",
		Gen:  genC01D, Run: runC01D,
	})
}
