package harness

// DefaultLimiter engine shared by C01 (sequential gate), C05 (enforcement follows the estimate),
// C09 (a) (sampling windows) and C20 (a) (metrics tell the truth).
//
// A generated event sequence (acquire / complete / sleep) runs on a virtual clock against a
// DefaultLimiter built over a generated strategy and limit; a reference model of the window rules
// and of the admission gate runs alongside.

import (
	"context"
	"fmt"
	"math"
	"testing"
	"testing/synctest"
	"time"

	"github.com/platinummonkey/go-concurrency-limits/core"
	"github.com/platinummonkey/go-concurrency-limits/limiter"
	"github.com/platinummonkey/go-concurrency-limits/strategy"
	"github.com/platinummonkey/go-concurrency-limits/strategy/matchers"
	"pgregory.net/rapid"

	"verifharness/kit"
)

type dlEv struct {
	K       string `json:"k"` // acq | done | sleep | cycle (N x [acq, sleep Ns, done newest])
	N       int    `json:"n,omitempty"`
	Key     string `json:"key,omitempty"`
	Idx     int    `json:"idx,omitempty"`
	Outcome int    `json:"outcome,omitempty"` // 0 success, 1 ignore, 2 dropped
	Ns      int64  `json:"ns,omitempty"`
	Dead    bool   `json:"dead,omitempty"` // acq: the caller's context is already cancelled (the default limiter gates on capacity alone)
}

type dlCase struct {
	Strategy  string `json:"strategy"` // simple | precise | lookup | predicate
	StratInit int    `json:"strat_init"`
	PartInit  int    `json:"part_init,omitempty"` // lookup: limit argument the partition objects are constructed with
	// ReuseParts: a partition that is added back is the very object that was removed (its outstanding tokens still
	// release on it), so every bin can be judged all the way through: busy of each object == tokens charged to it
	ReuseParts bool     `json:"reuse_parts,omitempty"`
	FracA      float64  `json:"frac_a,omitempty"` // fractions of partitions a and b (0 = the defaults 0.5 / 0.25); c is a zero-percent partition
	FracB      float64  `json:"frac_b,omitempty"`
	Bulk       int      `json:"bulk,omitempty"` // >0: a fixed limit of that size is filled completely (int32/int16 corners)
	Limit      LimitCfg `json:"limit"`          // algo "script" = scripted trajectory below
	Traj       []int    `json:"traj,omitempty"` // scripted estimates: traj[i] after i OnSample calls (last repeats)
	WinSize    int      `json:"win_size"`
	WinMin     int64    `json:"win_min"`
	WinMax     int64    `json:"win_max"`
	Threshold  int64    `json:"threshold"`
	Evs        []dlEv   `json:"evs"`
}

// scriptLimit: a core.Limit whose estimate follows a scripted trajectory, recording every OnSample.
type scriptLimit struct {
	traj []int
	i    int
	Got  []Sample
	sc   *sched
	// Off: moved by the harness between samples - an estimate that also changes for reasons other than the
	// limiter's own samples (a settable limit, an algorithm instance shared with another limiter)
	Off int
}

func (s *scriptLimit) EstimatedLimit() int {
	v := 10
	if len(s.traj) > 0 {
		v = s.traj[len(s.traj)-1]
		if s.i < len(s.traj) {
			v = s.traj[s.i]
		}
	}
	if v += s.Off; v > math.MaxInt32 {
		v = math.MaxInt32 // the strategies keep limits in 32 bits: larger estimates are outside their domain
	}
	return v
}
func (s *scriptLimit) NotifyOnChange(core.LimitChangeListener) {}
func (s *scriptLimit) OnSample(start, rtt int64, inf int, drop bool) {
	s.Got = append(s.Got, Sample{Start: start, RTT: rtt, Inf: inf, Drop: drop})
	s.sc.Point("limit.onsample")
	s.i++
}

func genDL(purpose string) func(t *rapid.T) dlCase {
	return func(t *rapid.T) dlCase {
		var c dlCase
		c.Strategy = rapid.SampledFrom([]string{"simple", "precise", "lookup", "predicate"}).Draw(t, "strategy")
		if purpose == "c01" {
			c.Strategy = rapid.SampledFrom([]string{"simple", "precise"}).Draw(t, "strategy01")
		}
		c.StratInit = rapid.IntRange(1, 30).Draw(t, "stratInit")
		c.PartInit = rapid.SampledFrom([]int{1, 1, 0, 4, 25}).Draw(t, "partInit")
		if rapid.Bool().Draw(t, "genFrac") {
			fr := rapid.OneOf(
				rapid.Map(rapid.IntRange(1, 31), func(k int) float64 { return float64(k) / 64 }),
				rapid.SampledFrom([]float64{0.1, 0.3, 0.33, 0.15, 0.10004, 1.0 / 3, 0.55555 / 2, 0.2, 0.07, 0.45}),
			)
			c.FracA, c.FracB = fr.Draw(t, "fracA"), fr.Draw(t, "fracB")
		}
		switch rapid.IntRange(0, 5).Draw(t, "limitKind") {
		case 0:
			// (c05 / c02: the algorithm may sit behind windowed / traced wrappers - the limiter only ever talks to the outermost one)
			c.Limit = genLimitCfg(t, []string{"aimd", "vegas", "gradient2"}, purpose == "c05" || purpose == "c02")
			if c.Limit.Initial > 40 {
				c.Limit.Initial = 1 + c.Limit.Initial%40
				if c.Limit.Min > c.Limit.Initial {
					c.Limit.Min = c.Limit.Initial
				}
				if c.Limit.Algo != "aimd" && c.Limit.Max < c.Limit.Initial {
					c.Limit.Max = c.Limit.Initial
				}
			}
		case 1:
			c.Limit = LimitCfg{Algo: "fixed", Initial: rapid.IntRange(1, 20).Draw(t, "fixed")}
			if purpose == "c01" && rapid.IntRange(0, 40).Draw(t, "huge") == 0 {
				c.Limit.Initial = rapid.SampledFrom([]int{300, 33000, 40000, 70000}).Draw(t, "hugeLimit")
				c.Bulk = c.Limit.Initial
			}
		default:
			c.Limit = LimitCfg{Algo: "script"}
			small := rapid.IntRange(-5, 12)
			if purpose == "c09" {
				small = rapid.IntRange(15, 60)
			}
			el := rapid.OneOf(small, small, rapid.IntRange(-5, 200))
			if purpose == "c05" {
				// estimates around the 16 bit boundary and far beyond (AIMD, settable and fixed limits have no ceiling)
				el = rapid.OneOf(small, small, small, small, rapid.IntRange(-5, 200), rapid.IntRange(-5, 200),
					rapid.SampledFrom([]int{32767, 32768, 40000, 65535, 65536, 70000, 1 << 20, 1 << 30, math.MaxInt32}))
			}
			c.Traj = rapid.SliceOfN(el, 1, 12).Draw(t, "traj")
			if purpose == "c05" && len(c03Noisy) > 0 && rapid.IntRange(0, 4).Draw(t, "noisyShare") == 0 {
				// a fraction and estimates whose product is an integer plus / minus float noise: the share is the ceiling
				// of the double product, not of a tidied-up value
				np := c03Noisy[rapid.IntRange(0, len(c03Noisy)-1).Draw(t, "noisyPair")]
				if np.F <= 0.5 {
					c.FracA = np.F
					if c.FracB > 0.5 {
						c.FracB = 0.25
					}
					for i := range c.Traj {
						if i%2 == 1 || len(c.Traj) == 1 {
							c.Traj[i] = np.L
						}
					}
					for _, q := range c03Noisy {
						if q.F == np.F && rapid.IntRange(0, 3).Draw(t, "moreNoisy") == 0 {
							c.Traj = append(c.Traj, q.L)
						}
					}
				}
			}
			if purpose == "c05" {
				// the strategy may have been constructed with any limit, also a non-positive one or the very
				// value the first estimate has
				switch rapid.IntRange(0, 5).Draw(t, "stratInitKind") {
				case 0:
					c.StratInit = c.Traj[0]
				case 1:
					c.StratInit = rapid.IntRange(-5, 0).Draw(t, "stratInitNonPos")
				}
			}
		}
		c.WinSize = rapid.IntRange(10, 15).Draw(t, "winsize")
		c.WinMin = rapid.SampledFrom([]int64{1_000_000, 2_000_000, 5_000_000, 20_000_000}).Draw(t, "winmin")
		c.WinMax = c.WinMin + rapid.SampledFrom([]int64{0, 0, 1_000_000, 15_000_000}).Draw(t, "winmaxd")
		if rapid.IntRange(0, 7).Draw(t, "winmaxUnbounded") == 0 {
			// "no upper bound on the window": the largest durations there are (the period is then 2 x min RTT, floored
			// at the minimum window)
			c.WinMax = rapid.SampledFrom([]int64{math.MaxInt64, math.MaxInt64 - 1, 1 << 62, int64(290 * 365 * 24 * time.Hour)}).Draw(t, "winmaxHuge")
		}
		c.Threshold = rapid.SampledFrom([]int64{1, 1, 1000, 100_000, 2_000_000, 0, -5}).Draw(t, "threshold") // <= 0: no RTT filter at all
		dynCase := (purpose == "c02" || purpose == "c20") && rapid.IntRange(0, 4).Draw(t, "dynCase") == 0    // C02: some cases remove / add partitions while tokens are out (totals only are judged then)
		ev := rapid.Custom(func(t *rapid.T) dlEv {
			switch k := rapid.IntRange(0, 21).Draw(t, "k"); {
			case k >= 20:
				return dlEv{K: "cycle", N: rapid.IntRange(2, 16).Draw(t, "n"), Key: rapid.SampledFrom([]string{"a", "b"}).Draw(t, "ckey"),
					Ns:      rapid.SampledFrom([]int64{1, 1000, 100_000, 1_000_000, 3_000_000}).Draw(t, "cns"),
					Outcome: rapid.SampledFrom([]int{0, 0, 0, 0, 0, 1, 2}).Draw(t, "coutcome")}
			case k == 16 && purpose == "c05" && c.Limit.Algo == "script" && rapid.IntRange(0, 1).Draw(t, "driftEv") == 0:
				// the estimate moves for a reason other than this limiter's samples
				return dlEv{K: "drift", N: rapid.SampledFrom([]int{-3, -1, 1, 1, 2, 5}).Draw(t, "drift")}
			case k < 8:
				return dlEv{K: "acq", Key: rapid.SampledFrom([]string{"a", "a", "b", "zz", "c"}).Draw(t, "key"), Dead: rapid.IntRange(0, 7).Draw(t, "dead") == 0}
			case k < 16:
				return dlEv{K: "done", Idx: rapid.IntRange(0, 1000).Draw(t, "idx"), Outcome: rapid.SampledFrom([]int{0, 0, 0, 0, 1, 2}).Draw(t, "outcome")}
			case k >= 17 && k < 20 && (purpose == "c05" || ((purpose == "c02" || purpose == "c20") && dynCase)) && (c.Strategy == "lookup" || c.Strategy == "predicate") && rapid.IntRange(0, 1).Draw(t, "dyn") == 0:
				// partitions come and go while the limiter runs (an update may find none registered)
				return dlEv{K: rapid.SampledFrom([]string{"prmall", "prm", "padd", "padd"}).Draw(t, "dynk"), Key: rapid.SampledFrom(dlBins).Draw(t, "dynkey")}
			default:
				if rapid.IntRange(0, 5).Draw(t, "alignSleep") == 0 {
					// sleep until exactly / one nanosecond before / one after the instant from which the next update is
					// allowed (the boundary of the window period itself)
					return dlEv{K: "align", Ns: rapid.SampledFrom([]int64{0, 0, -1, 1}).Draw(t, "alignOff")}
				}
				return dlEv{K: "sleep", Ns: rapid.SampledFrom([]int64{0, 1, 500, 999, 1000, 50_000, 100_000, 1_000_000, 2_000_000, 3_000_000, 25_000_000}).Draw(t, "ns")}
			}
		})
		if dynCase {
			c.ReuseParts = rapid.Bool().Draw(t, "reuseParts")
		}
		lo := rapid.SampledFrom([]int{1, 20, 60, 120}).Draw(t, "minlen")
		c.Evs = rapid.SliceOfN(ev, lo, 260).Draw(t, "evs")
		return c
	}
}

type dlToken struct {
	l        core.Listener
	key      string
	start    time.Duration
	inflight int // in-flight gauge value right after the grant
	obj      any // partition object the token was charged to (nil = unknown bin / not partitioned)
}

type dlBuilt struct {
	lim     *limiter.DefaultLimiter
	script  *scriptLimit
	limit   core.Limit
	reg     *recRegistry
	simple  *strategy.SimpleStrategy
	precise *strategy.PreciseStrategy
	lookup  *strategy.LookupPartitionStrategy
	pred    *strategy.PredicatePartitionStrategy
	lobj    map[string]*strategy.LookupPartition // the partition objects by name (construction and later adds)
	pobj    map[string]*strategy.PredicatePartition
	present []string // partitions currently registered, in registration order (dynamic add / remove, C05 only)
}

// idxOf: position of a named partition among the registered ones (-1 when it is not registered).
func (b *dlBuilt) idxOf(name string) int {
	for i, n := range b.present {
		if n == name {
			return i
		}
	}
	return -1
}

// removePart / addPart: dynamic partition changes (the strategy keeps running).
func (b *dlBuilt) removePart(name string) {
	i := b.idxOf(name)
	if i < 0 {
		return
	}
	if b.lookup != nil {
		b.lookup.RemovePartition(name)
	} else {
		b.pred.RemovePartitionsMatching(context.WithValue(context.Background(), matchers.StringPredicateContextKey, name))
	}
	b.present = append(b.present[:i:i], b.present[i+1:]...)
}

func (b *dlBuilt) addPart(c dlCase, name string) {
	if b.idxOf(name) >= 0 {
		return
	}
	if b.lookup != nil {
		if !c.ReuseParts {
			b.lobj[name] = strategy.NewLookupPartitionWithMetricRegistry(name, c.frac(name), int32(c.PartInit), b.reg)
		}
		b.lookup.AddPartition(name, b.lobj[name])
	} else {
		if !c.ReuseParts {
			b.pobj[name] = strategy.NewPredicatePartitionWithMetricRegistry(name, c.frac(name), matchers.StringPredicateMatcher(name, false), b.reg)
		}
		b.pred.AddPartition(b.pobj[name])
	}
	b.present = append(b.present, name)
}

func (b *dlBuilt) stratLimit() int {
	switch {
	case b.simple != nil:
		return b.simple.GetLimit()
	case b.precise != nil:
		return b.precise.GetLimit()
	case b.lookup != nil:
		return b.lookup.Limit()
	}
	return b.pred.Limit()
}

func (b *dlBuilt) stratBusy() int {
	switch {
	case b.simple != nil:
		return b.simple.GetBusyCount()
	case b.precise != nil:
		return b.precise.GetBusyCount()
	case b.lookup != nil:
		return b.lookup.BusyCount()
	}
	return b.pred.BusyCount()
}

var dlBins = []string{"a", "b", "c"} // fractions 0.5, 0.25 and 0 (a named zero-percent partition)

func (b *dlBuilt) binLimit(i int) int {
	if b.lookup != nil {
		n, _ := b.lookup.BinLimit(dlBins[i])
		return n
	}
	n, _ := b.pred.BinLimit(b.idxOf(dlBins[i]))
	return n
}

func (b *dlBuilt) binBusy(i int) int {
	if b.lookup != nil {
		n, _ := b.lookup.BinBusyCount(dlBins[i])
		return n
	}
	n, _ := b.pred.BinBusyCount(b.idxOf(dlBins[i]))
	return n
}

// frac returns the configured fraction of a bin of this case.
func (c dlCase) frac(name string) float64 {
	switch {
	case name == "a" && c.FracA > 0:
		return c.FracA
	case name == "b" && c.FracB > 0:
		return c.FracB
	}
	return stackBinFracs[name]
}

// buildDLStrategy constructs the case's strategy (recorded in b).
func buildDLStrategy(c dlCase, b *dlBuilt) (core.Strategy, error) {
	var st core.Strategy
	switch c.Strategy {
	case "simple":
		b.simple = strategy.NewSimpleStrategyWithMetricRegistry(c.StratInit, b.reg)
		st = b.simple
	case "precise":
		b.precise = strategy.NewPreciseStrategyWithMetricRegistry(c.StratInit, b.reg)
		st = b.precise
	case "lookup":
		m := map[string]*strategy.LookupPartition{}
		for _, n := range dlBins {
			m[n] = strategy.NewLookupPartitionWithMetricRegistry(n, c.frac(n), int32(c.PartInit), b.reg)
		}
		b.lobj = map[string]*strategy.LookupPartition{}
		for n, o := range m {
			b.lobj[n] = o
		}
		l, err := strategy.NewLookupPartitionStrategyWithMetricRegistry(m, nil, int32(c.StratInit), b.reg)
		if err != nil {
			return nil, err
		}
		b.lookup = l
		st = l
	case "predicate":
		var ps []*strategy.PredicatePartition
		for _, n := range dlBins {
			ps = append(ps, strategy.NewPredicatePartitionWithMetricRegistry(n, c.frac(n), matchers.StringPredicateMatcher(n, false), b.reg))
		}
		b.pobj = map[string]*strategy.PredicatePartition{}
		for i, n := range dlBins {
			b.pobj[n] = ps[i]
		}
		p, err := strategy.NewPredicatePartitionStrategyWithMetricRegistry(ps, int32(c.StratInit), b.reg)
		if err != nil {
			return nil, err
		}
		b.pred = p
		st = p
	}
	return st, nil
}

func buildDL(c dlCase, sc *sched) (*dlBuilt, error) {
	b := &dlBuilt{reg: newRecRegistry(), present: append([]string(nil), dlBins...)}
	st, err := buildDLStrategy(c, b)
	if err != nil {
		return nil, err
	}
	if c.Limit.Algo == "script" {
		b.script = &scriptLimit{traj: c.Traj, sc: sc}
		b.limit = b.script
	} else {
		b.limit = buildLimit(c.Limit, b.reg).Outer
	}
	l, err := limiter.NewDefaultLimiter(b.limit, c.WinMin, c.WinMax, c.Threshold, c.WinSize, st, nil, b.reg)
	if err != nil {
		return nil, err
	}
	b.lim = l
	return b, nil
}

// dlModel is the reference model of the limiter's sampling window.
type dlModel struct {
	minRTT     int64
	count      int
	maxInf     int
	drop       bool
	nextUpdate int64
	want       []Sample // expected OnSample calls
	// statistics
	dropNotClosing, ignoredInWindow, subThreshold bool
	dropSeenInWindow                              bool
}

func (m *dlModel) reset() {
	m.minRTT, m.count, m.maxInf, m.drop, m.dropSeenInWindow = math.MaxInt64, 0, 0, false, false
}

// complete feeds one completion into the model; end = virtual end instant in unix ns.
func (m *dlModel) complete(c dlCase, outcome int, rtt int64, inf int, end int64) {
	switch outcome {
	case 1:
		if m.count > 0 || m.drop {
			m.ignoredInWindow = true
		}
		return
	case 0:
		if rtt < c.Threshold {
			if m.count > 0 || m.drop {
				m.subThreshold = true
			}
			return
		}
		m.count++
		if rtt < m.minRTT {
			m.minRTT = rtt
		}
	case 2:
		m.drop = true
	}
	if inf > m.maxInf {
		m.maxInf = inf
	}
	if end > m.nextUpdate && m.minRTT < math.MaxInt64 && m.count > c.WinSize {
		m.want = append(m.want, Sample{Start: 0, RTT: m.minRTT, Inf: m.maxInf, Drop: m.drop})
		if m.dropSeenInWindow && outcome != 2 {
			m.dropNotClosing = true
		}
		period := m.minRTT * 2
		if period < c.WinMin {
			period = c.WinMin
		}
		if period > c.WinMax {
			period = c.WinMax
		}
		m.nextUpdate = end + period
		m.reset()
		return
	}
	if outcome == 2 {
		m.dropSeenInWindow = true
	}
}

func dlShare(total int, frac float64) int {
	return int(math.Max(1, math.Ceil(float64(total)*frac)))
}

// runDL executes the case; prop selects which property's assertions are active (c01, c05, c09, c20).
func runDL(t *testing.T, c dlCase, prop string) kit.Outcome {
	return bubble(t, func() kit.Outcome { return runDLInBubble(c, prop) })
}

func runDLInBubble(c dlCase, prop string) (out kit.Outcome) {
	b, err := buildDL(c, nil)
	if err != nil {
		return kit.Outcome{Harness: "build: " + err.Error()}
	}
	t0 := time.Now()
	model := &dlModel{}
	model.reset()
	var held []dlToken
	perKey := map[string]int{}
	perObj := map[any]int{} // tokens outstanding per partition *object* charged (nil = the lookup strategy's unknown bin / not partitioned)
	var (
		refusedAtLimit, grantedAfterRelease, limitBelowHeld bool
		releasedOnce                                        bool
		updates, distinctUpdates                            int
		sawLowOrRepeat                                      bool
		lastEnforced                                        = -1
		maxLimitSeen                                        int
		dynParts                                            bool
		driftPending                                        bool
		driftSeenAt                                         int
	)
	est := func() int { return b.limit.EstimatedLimit() }
	enforced := func() int {
		if e := est(); e >= 1 {
			return e
		}
		return 1
	}
	checkEnforcement := func(when string) *kit.Outcome {
		want := enforced()
		if got := b.stratLimit(); got != want {
			o := kit.Viol(c.Strategy+":stale-limit", "%s: strategy enforces %d, the algorithm's estimate is %d (floored at 1: %d)", when, got, est(), want)
			return &o
		}
		if v, ok := b.reg.gauge(core.MetricLimit, ""); !ok || int(v) != want {
			o := kit.Viol(c.Strategy+":limit-gauge", "%s: limit gauge reports %v (registered=%v), enforced limit should be %d", when, v, ok, want)
			return &o
		}
		if b.lookup != nil || b.pred != nil {
			for i, n := range dlBins {
				if b.idxOf(n) < 0 {
					continue // not registered at the moment
				}
				w := dlShare(want, c.frac(n))
				if got := b.binLimit(i); got != w {
					o := kit.Viol(c.Strategy+":stale-share", "%s: partition %q share is %d, want max(1,ceil(%d*%v))=%d", when, n, got, want, c.frac(n), w)
					return &o
				}
				if v, ok := b.reg.gauge(core.MetricPartitionLimit, partTag(n)); !ok || int(v) != w {
					o := kit.Viol(c.Strategy+":share-gauge", "%s: limit.partition gauge of %q reports %v (registered=%v), want %d", when, n, v, ok, w)
					return &o
				}
			}
		}
		return nil
	}
	if prop == "c05" {
		if o := checkEnforcement("right after construction"); o != nil {
			return *o
		}
	}
	lastEnforced = b.stratLimit()
	maxLimitSeen = lastEnforced
	b.reg.take()

	var evs []dlEv
	if c.Bulk > 0 {
		// fill a huge limit completely, one more must be refused, then release everything
		for j := 0; j < c.Bulk+1; j++ {
			evs = append(evs, dlEv{K: "acq", Key: "a"})
		}
		for j := 0; j < c.Bulk; j += 97 {
			evs = append(evs, dlEv{K: "done", Idx: -1, Outcome: 1})
		}
	}
	for _, e := range c.Evs {
		if e.K != "cycle" {
			evs = append(evs, e)
			continue
		}
		for j := 0; j < e.N; j++ {
			evs = append(evs, dlEv{K: "acq", Key: e.Key}, dlEv{K: "sleep", Ns: e.Ns}, dlEv{K: "done", Idx: -1, Outcome: e.Outcome})
		}
	}
	for i, e := range evs {
		switch e.K {
		case "sleep":
			time.Sleep(time.Duration(e.Ns))
		case "align":
			if d := model.nextUpdate + e.Ns - time.Now().UnixNano(); d > 0 && d < int64(time.Hour) {
				time.Sleep(time.Duration(d))
			}
		case "drift":
			if b.script != nil {
				b.script.Off += e.N
				driftPending = true // enforcement legitimately lags until the next update completes
				driftSeenAt = len(b.script.Got)
			}
		case "prm":
			if b.lookup != nil || b.pred != nil {
				b.removePart(e.Key)
				dynParts = true
			}
		case "prmall":
			if b.lookup != nil || b.pred != nil {
				for _, n := range dlBins {
					b.removePart(n)
				}
				dynParts = true
			}
		case "padd":
			if b.lookup != nil || b.pred != nil {
				b.addPart(c, e.Key)
			}
		case "acq":
			L := b.stratLimit()
			if L > maxLimitSeen {
				maxLimitSeen = L
			}
			busyBefore := len(held)
			actx := stackKeyCtx(context.Background(), e.Key)
			if e.Dead {
				dctx, cancel := context.WithCancel(actx)
				cancel()
				actx = dctx
			}
			var chargedObj any // the partition object this request is charged to if granted: the one registered under its key right now
			if b.idxOf(e.Key) >= 0 {
				if b.lobj != nil {
					chargedObj = b.lobj[e.Key]
				} else if b.pobj != nil {
					chargedObj = b.pobj[e.Key]
				}
			}
			l, ok := b.lim.Acquire(actx)
			if (l != nil) != ok {
				return kit.Viol(c.Strategy+":listener-iff-ok", "event %d: Acquire returned listener=%v ok=%v", i, l != nil, ok)
			}
			smp := b.reg.take()
			if prop == "c01" && (c.Strategy == "simple" || c.Strategy == "precise") {
				if inForce := enforced(); L != inForce {
					return kit.Viol(c.Strategy+":limit-in-force", "event %d: the limit in force is %d (the algorithm's estimate, floored at 1) but the strategy gates on %d", i, inForce, L)
				}
				want := busyBefore < L
				if ok != want {
					sig := "over-admission"
					if !ok {
						sig = "refused-with-room"
					}
					return kit.Viol(c.Strategy+":"+sig, "event %d: Acquire with %d tokens outstanding and enforced limit %d returned %v", i, busyBefore, L, ok)
				}
				if !ok && busyBefore == L {
					refusedAtLimit = true
				}
				if ok && releasedOnce {
					grantedAfterRelease = true
				}
			}
			if prop == "c20" {
				binName := "<unknown>"
				if chargedObj != nil {
					binName = e.Key
				}
				if o := dlCheckAcquireMetrics(c, b, i, e, ok, busyBefore, binName, perObj[chargedObj], smp); o != nil {
					return *o
				}
			}
			if ok {
				// in-flight at acquire = the calls outstanding, this one included; counted here and not read
				// back from the limiter, so that a leaking counter cannot hide in the expected windows
				inf := len(held) + 1
				held = append(held, dlToken{l: l, key: e.Key, start: time.Since(t0), inflight: inf, obj: chargedObj})
				perKey[e.Key]++
				perObj[chargedObj]++
			}
		case "done":
			if len(held) == 0 {
				continue
			}
			k := len(held) - 1
			if e.Idx >= 0 {
				k = e.Idx % len(held)
			}
			tk := held[k]
			held = append(held[:k], held[k+1:]...)
			perKey[tk.key]--
			perObj[tk.obj]--
			releasedOnce = true
			if c.Threshold <= 0 && time.Since(t0) == tk.start {
				time.Sleep(1) // without a filter a literal 0 ns sample would enter the window: outside the domain (0 is the window's "unset" marker)
			}
			now := time.Since(t0)
			rtt := int64(now - tk.start)
			end := time.Now().UnixNano()
			before := len(model.want)
			estBefore := est()
			model.complete(c, e.Outcome, rtt, tk.inflight, end)
			complete(tk.l, e.Outcome)
			smp := b.reg.take()
			if prop == "c09" && b.script != nil {
				got := b.script.Got
				if len(got) != len(model.want) {
					if len(got) > len(model.want) {
						return kit.Viol("default:extra-update", "event %d (%s after %dns, in-flight %d): the algorithm received update #%d %+v; the window rules allow none here (window: %d qualifying successes, need > %d; next update allowed after %d, now %d)",
							i, outcomeName(e.Outcome), rtt, tk.inflight, len(got), got[len(got)-1], model.count, c.WinSize, model.nextUpdate, end)
					}
					return kit.Viol("default:missing-update", "event %d (%s after %dns, in-flight %d) closes a ready window (expected %+v) but the algorithm was not updated", i, outcomeName(e.Outcome), rtt, tk.inflight, model.want[len(model.want)-1])
				}
				if n := len(got); n > before && got[n-1] != model.want[n-1] {
					sig := "default:aggregate"
					if got[n-1].Drop != model.want[n-1].Drop {
						sig = "default:drop-flag"
					}
					return kit.Viol(sig, "event %d closes window #%d: the algorithm received %+v, the exact fold of the window is %+v", i, n, got[n-1], model.want[n-1])
				}
			}
			if prop == "c20" {
				if o := dlCheckSampleMetrics(c, b, i, smp, before, model, estBefore); o != nil {
					return *o
				}
			}
		}
		// after every event: counters and enforcement
		if got := b.stratBusy(); got != len(held) {
			return kit.Viol(c.Strategy+":busy", "after event %d (%s): strategy busy=%d, outstanding tokens=%d", i, e.K, got, len(held))
		}
		if prop == "c02" {
			if g := int(b.lim.VerifInFlight()); g != len(held) {
				return kit.Viol(c.Strategy+":limiter-gauge", "after event %d (%s): the limiter's in-flight gauge is %d, outstanding tokens=%d (windows closed so far: %d)", i, e.K, g, len(held), len(model.want))
			}
			if (b.lookup != nil || b.pred != nil) && dynParts {
				// partitions came and went: every partition object that ever existed - registered at the moment or
				// not, re-attached or replaced by a fresh one under the same name - counts exactly the tokens that
				// were charged to it and are still out
				for obj, want := range perObj {
					if obj == nil {
						continue
					}
					got, name := 0, ""
					switch o := obj.(type) {
					case *strategy.LookupPartition:
						got, name = o.BusyCount(), o.Name()
					case *strategy.PredicatePartition:
						got, name = o.BusyCount(), o.Name()
					}
					if got != want {
						return kit.Viol(c.Strategy+":bin-object-busy", "after event %d (%s): a partition object %q (name registered now: %v, same objects re-attached: %v) reports busy=%d, tokens charged to it and not yet completed=%d", i, e.K, name, b.idxOf(name) >= 0, c.ReuseParts, got, want)
					}
				}
				for _, n := range b.present {
					// the registered objects that nobody was charged to yet read zero as well
					var obj any
					if b.lobj != nil {
						obj = b.lobj[n]
					} else {
						obj = b.pobj[n]
					}
					if _, seen := perObj[obj]; !seen {
						got := 0
						switch o := obj.(type) {
						case *strategy.LookupPartition:
							got = o.BusyCount()
						case *strategy.PredicatePartition:
							got = o.BusyCount()
						}
						if got != 0 {
							return kit.Viol(c.Strategy+":bin-object-busy", "after event %d (%s): partition object %q, to which no token has been charged, reports busy=%d", i, e.K, n, got)
						}
					}
				}
			}
			if (b.lookup != nil || b.pred != nil) && !dynParts {
				for k, n := range dlBins {
					if got := b.binBusy(k); got != perKey[n] {
						return kit.Viol(c.Strategy+":bin-busy", "after event %d (%s): bin %q busy=%d, outstanding tokens of that bin=%d", i, e.K, n, got, perKey[n])
					}
				}
			}
		}
		if driftPending && b.script != nil && len(b.script.Got) > driftSeenAt {
			driftPending = false // an update has completed since the estimate moved on its own: enforcement must have caught up
			out.Labels = append(out.Labels, "update-after-out-of-band-move")
		}
		if prop == "c05" && !driftPending {
			if o := checkEnforcement(fmt.Sprintf("after event %d (%s)", i, e.K)); o != nil {
				return *o
			}
		}
		if cur := b.stratLimit(); cur != lastEnforced {
			updates++
			distinctUpdates++
			if cur < len(held) {
				limitBelowHeld = true
			}
			lastEnforced = cur
		}
		if b.script != nil && len(b.script.Got) > 0 {
			j := b.script.i
			if j < len(c.Traj) && (c.Traj[j] < 1 || (j > 0 && c.Traj[j] == c.Traj[j-1])) {
				sawLowOrRepeat = true
			}
		}
		if prop == "c01" && len(held) > maxLimitSeen {
			return kit.Viol(c.Strategy+":over-max-limit", "after event %d: %d tokens held, the largest limit in force so far was %d", i, len(held), maxLimitSeen)
		}
	}
	for _, tk := range held {
		tk.l.OnIgnore()
	}
	synctest.Wait()
	nWin := len(model.want)
	out.Labels = []string{"strategy:" + c.Strategy, "limit:" + c.Limit.Algo}
	if dynParts {
		out.Labels = append(out.Labels, "partitions-removed-while-running")
	}
	if nWin >= 2 {
		out.Labels = append(out.Labels, "windows>=2")
	}
	switch prop {
	case "c01":
		out.NonTrivial = refusedAtLimit && grantedAfterRelease && limitBelowHeld
		if limitBelowHeld {
			out.Labels = append(out.Labels, "limit-lowered-below-held")
		}
		if refusedAtLimit {
			out.Labels = append(out.Labels, "refused-at-limit")
		}
	case "c05":
		out.NonTrivial = distinctUpdates >= 2 && (sawLowOrRepeat || b.script == nil)
		if distinctUpdates >= 2 {
			out.Labels = append(out.Labels, "limit-changed>=2")
		}
	case "c09":
		out.NonTrivial = nWin >= 2 && model.dropNotClosing && model.ignoredInWindow && model.subThreshold
		if model.dropNotClosing {
			out.Labels = append(out.Labels, "drop-inside-window")
		}
	case "c20":
		out.NonTrivial = nWin >= 1 && len(evs) >= 20
	case "c02":
		out.NonTrivial = nWin >= 1 && releasedOnce
	}
	return out
}

func outcomeName(o int) string { return []string{"success", "ignore", "dropped"}[o%3] }

// dlCheckAcquireMetrics / dlCheckSampleMetrics are defined in c20_test.go.
