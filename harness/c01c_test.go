package harness

// C01 — concurrent engines: generated worker programs against DefaultLimiter x {simple, precise} (with a
// scripted limit whose updates are part of the history) and against PreciseStrategy used directly.
// Every call is bracketed by a global logical clock; the recorded history must be linearizable
// (porcupine) against the atomic counting gate  state=(held, limit).
//
//   _Coop : GOMAXPROCS=1, generated spawn order + yields at schedule points (deterministic-ish)
//   (std) : real threads behind a start barrier, spins at the same points

import (
	"context"
	"fmt"
	"sync"
	"sync/atomic"
	"testing"
	"time"

	"github.com/anishathalye/porcupine"
	"github.com/platinummonkey/go-concurrency-limits/core"
	"github.com/platinummonkey/go-concurrency-limits/limiter"
	"github.com/platinummonkey/go-concurrency-limits/strategy"
	"pgregory.net/rapid"

	"verifharness/kit"
)

type c01Op struct {
	K       string `json:"k"` // acq | done | set
	Idx     int    `json:"idx,omitempty"`
	Outcome int    `json:"outcome,omitempty"`
	N       int    `json:"n,omitempty"`    // set: new limit
	Spin    int    `json:"spin,omitempty"` // busy work after the op (parallel mode)
}

// yieldRegistry is a caller-supplied metric registry whose sample listeners take their time: every AddSample is a
// schedule point (a real registry locks, formats and writes to a socket there).
type yieldRegistry struct{ sc *sched }
type yieldSampleListener struct{ sc *sched }

func (l yieldSampleListener) AddSample(float64, ...string) { l.sc.Point("metric.addsample") }
func (r yieldRegistry) RegisterDistribution(string, ...string) core.MetricSampleListener {
	return yieldSampleListener{r.sc}
}
func (r yieldRegistry) RegisterTiming(string, ...string) core.MetricSampleListener {
	return yieldSampleListener{r.sc}
}
func (r yieldRegistry) RegisterCount(string, ...string) core.MetricSampleListener {
	return yieldSampleListener{r.sc}
}
func (r yieldRegistry) RegisterGauge(string, core.MetricSupplier, ...string) {}
func (r yieldRegistry) Start()                                               {}
func (r yieldRegistry) Stop()                                                {}

type c01Case struct {
	Registry bool      `json:"registry,omitempty"` // strategies (and the limiter) are built over a metric registry whose listeners are schedule points
	Subject  string    `json:"subject"`            // limiter-simple | limiter-precise | precise-direct
	Limit    int       `json:"limit"`
	Traj     []int     `json:"traj,omitempty"` // scripted estimates after the 1st, 2nd ... window (limiter subjects)
	Workers  [][]c01Op `json:"workers"`
	Order    []int     `json:"order"`
	Yields   yieldList `json:"yields"`
}

func genC01C(par bool) func(t *rapid.T) c01Case {
	return func(t *rapid.T) c01Case {
		var c c01Case
		c.Subject = rapid.SampledFrom([]string{"limiter-simple", "limiter-simple", "limiter-precise", "precise-direct"}).Draw(t, "subject")
		c.Limit = rapid.IntRange(1, 3).Draw(t, "limit")
		c.Registry = rapid.IntRange(0, 2).Draw(t, "registry") == 0
		if c.Subject != "precise-direct" {
			c.Traj = rapid.SliceOfN(rapid.IntRange(-1, 4), 0, 6).Draw(t, "traj")
		}
		nw := rapid.IntRange(2, 4).Draw(t, "workers")
		maxOps := 30
		if par {
			nw = rapid.IntRange(c.Limit+1, 8).Draw(t, "pworkers")
			maxOps = 60
		}
		op := rapid.Custom(func(t *rapid.T) c01Op {
			k := rapid.IntRange(0, 11).Draw(t, "k")
			o := c01Op{Spin: rapid.SampledFrom([]int{0, 0, 1, 5, 20}).Draw(t, "spin")}
			switch {
			case k < 6:
				o.K = "acq"
			case k < 11 || c.Subject != "precise-direct":
				o.K = "done"
				o.Idx = rapid.IntRange(0, 10).Draw(t, "idx")
				o.Outcome = rapid.SampledFrom([]int{0, 0, 0, 1, 2}).Draw(t, "outcome")
			default:
				o.K = "set"
				o.N = rapid.IntRange(-1, 4).Draw(t, "n")
			}
			return o
		})
		lo := rapid.SampledFrom([]int{2, 6, 12}).Draw(t, "minops")
		if par {
			lo = 20
		}
		for i := 0; i < nw; i++ {
			c.Workers = append(c.Workers, rapid.SliceOfN(op, lo, maxOps).Draw(t, "prog"))
		}
		c.Order = rapid.Permutation(seq(nw)).Draw(t, "order")
		c.Yields = yieldList(rapid.SliceOfN(rapid.SampledFrom([]uint8{0, 0, 1, 1, 2, 3, 5}), 0, 80).Draw(t, "yields"))
		return c
	}
}

type gateIn struct {
	Op  int // 0 acquire, 1 complete, 2 set limit
	Val int
}
type gateState struct{ Held, Limit int }

func gateModel(initLimit int) porcupine.Model {
	return porcupine.Model{
		Init: func() interface{} { return gateState{0, initLimit} },
		Step: func(state, input, output interface{}) (bool, interface{}) {
			st := state.(gateState)
			in := input.(gateIn)
			switch in.Op {
			case 0:
				granted := output.(bool)
				if granted {
					if st.Held < st.Limit {
						return true, gateState{st.Held + 1, st.Limit}
					}
					return false, st
				}
				return st.Held >= st.Limit, st
			case 1:
				return true, gateState{st.Held - 1, st.Limit}
			default:
				v := in.Val
				if v < 1 {
					v = 1
				}
				return true, gateState{st.Held, v}
			}
		},
		Equal: func(a, b interface{}) bool { return a.(gateState) == b.(gateState) },
		DescribeOperation: func(input, output interface{}) string {
			in := input.(gateIn)
			switch in.Op {
			case 0:
				return fmt.Sprintf("acquire -> %v", output)
			case 1:
				return "complete"
			}
			return fmt.Sprintf("setLimit(%d)", in.Val)
		},
	}
}

// histScript is the scripted limit of the concurrent engine: every OnSample is a history operation.
type histScript struct {
	traj  []int
	traj0 int
	i     int
	clock *atomic.Int64
	sc    *sched
	mu    sync.Mutex
	open  map[int64]*porcupine.Operation // goroutine id -> pending setLimit op
	ops   *[]porcupine.Operation
	opsMu *sync.Mutex
}

func (s *histScript) EstimatedLimit() int {
	s.mu.Lock()
	defer s.mu.Unlock()
	if s.i == 0 || len(s.traj) == 0 {
		return s.traj0
	}
	j := s.i - 1
	if j >= len(s.traj) {
		j = len(s.traj) - 1
	}
	return s.traj[j]
}
func (s *histScript) NotifyOnChange(core.LimitChangeListener) {}

func (s *histScript) OnSample(start, rtt int64, inf int, drop bool) {
	call := s.clock.Add(1)
	s.sc.Point("limit.onsample")
	s.mu.Lock()
	s.i++
	s.mu.Unlock()
	v := s.EstimatedLimit()
	op := &porcupine.Operation{ClientId: 100, Input: gateIn{2, v}, Call: call, Output: true}
	s.mu.Lock()
	s.open[kit.GoID()] = op
	s.mu.Unlock()
}

// closePending finishes the setLimit operation opened by this goroutine's completion call, if any.
func (s *histScript) closePending(ret int64) {
	if s == nil {
		return
	}
	g := kit.GoID()
	s.mu.Lock()
	op := s.open[g]
	delete(s.open, g)
	s.mu.Unlock()
	if op != nil {
		op.Return = ret
		s.opsMu.Lock()
		*s.ops = append(*s.ops, *op)
		s.opsMu.Unlock()
	}
}

func runC01C(t *testing.T, c c01Case, par bool) (out kit.Outcome) {
	sc := newSched(c.Yields)
	sc.spin = par
	sc.install()
	defer (*sched)(nil).install()
	var clock atomic.Int64
	var ops []porcupine.Operation
	var opsMu sync.Mutex
	record := func(client int, in gateIn, outv bool, call, ret int64) {
		opsMu.Lock()
		ops = append(ops, porcupine.Operation{ClientId: client, Input: in, Output: outv, Call: call, Return: ret})
		opsMu.Unlock()
	}
	initLimit := c.Limit
	var (
		lim     core.Limiter
		precise *strategy.PreciseStrategy
		script  *histScript
		busyFn  func() int
	)
	switch c.Subject {
	case "precise-direct":
		precise = strategy.NewPreciseStrategy(c.Limit)
		if c.Registry {
			precise = strategy.NewPreciseStrategyWithMetricRegistry(c.Limit, yieldRegistry{sc})
		}
		busyFn = precise.GetBusyCount
	default:
		script = &histScript{traj: c.Traj, traj0: c.Limit, clock: &clock, sc: sc, open: map[int64]*porcupine.Operation{}, ops: &ops, opsMu: &opsMu}
		var st core.Strategy
		if c.Subject == "limiter-simple" {
			s := strategy.NewSimpleStrategy(7)
			if c.Registry {
				s = strategy.NewSimpleStrategyWithMetricRegistry(7, yieldRegistry{sc})
			}
			st, busyFn = s, s.GetBusyCount
		} else {
			s := strategy.NewPreciseStrategy(7)
			if c.Registry {
				s = strategy.NewPreciseStrategyWithMetricRegistry(7, yieldRegistry{sc})
			}
			st, busyFn = s, s.GetBusyCount
		}
		var reg core.MetricRegistry
		if c.Registry {
			reg = yieldRegistry{sc}
		}
		// tiny windows so that they really close during the run (real clock in parallel mode)
		dl, err := limiter.NewDefaultLimiter(script, 1, 1, 0, 10, st, nil, reg)
		if err != nil {
			return kit.Outcome{Harness: err.Error()}
		}
		lim = dl
	}
	var holdersNow, holdersMax atomic.Int64
	var maxLimit atomic.Int64
	maxLimit.Store(int64(initLimit))
	for _, v := range c.Traj {
		if int64(v) > maxLimit.Load() {
			maxLimit.Store(int64(v))
		}
	}
	for _, w := range c.Workers {
		for _, o := range w {
			if o.K == "set" && int64(o.N) > maxLimit.Load() {
				maxLimit.Store(int64(o.N))
			}
		}
	}
	start := make(chan struct{})
	var wg sync.WaitGroup
	worker := func(id int, prog []c01Op) {
		defer wg.Done()
		<-start
		type tok struct {
			l core.Listener
			t core.StrategyToken
		}
		var held []tok
		finish := func(k, outcome int) {
			tk := held[k]
			held = append(held[:k], held[k+1:]...)
			holdersNow.Add(-1)
			call := clock.Add(1)
			if tk.l != nil {
				complete(tk.l, outcome)
			} else {
				tk.t.Release()
			}
			ret := clock.Add(1)
			record(id, gateIn{1, 0}, true, call, ret)
			script.closePending(ret)
		}
		for _, o := range prog {
			switch o.K {
			case "acq":
				call := clock.Add(1)
				var ok bool
				var tk tok
				if lim != nil {
					tk.l, ok = lim.Acquire(context.Background())
				} else {
					tk.t, ok = precise.TryAcquire(context.Background())
				}
				ret := clock.Add(1)
				record(id, gateIn{0, 0}, ok, call, ret)
				if ok {
					n := holdersNow.Add(1)
					for {
						m := holdersMax.Load()
						if n <= m || holdersMax.CompareAndSwap(m, n) {
							break
						}
					}
					held = append(held, tk)
				}
			case "done":
				if len(held) > 0 {
					finish(o.Idx%len(held), o.Outcome)
				}
			case "set":
				if precise != nil {
					call := clock.Add(1)
					precise.SetLimit(o.N)
					ret := clock.Add(1)
					record(id, gateIn{2, o.N}, true, call, ret)
				}
			}
			if par {
				for i := 0; i < o.Spin*20; i++ {
					spinSink.Add(1)
				}
			} else {
				sc.Point("worker.between")
			}
		}
		for len(held) > 0 {
			finish(len(held)-1, 1)
		}
	}
	order := c.Order
	if len(order) != len(c.Workers) {
		order = seq(len(c.Workers))
	}
	for _, i := range order {
		wg.Add(1)
		go worker(i, c.Workers[i])
	}
	close(start)
	done := make(chan struct{})
	go func() { wg.Wait(); close(done) }()
	select {
	case <-done:
	case <-time.After(60 * time.Second):
		return kit.Outcome{Harness: "workers did not finish within 60 s (inconclusive)"}
	}
	if b := busyFn(); b != 0 {
		return kit.Viol(c.Subject+":end-busy", "after every token was completed the strategy reports busy=%d", b)
	}
	if hm, ml := holdersMax.Load(), maxLimit.Load(); hm > ml && ml >= 1 {
		return kit.Viol(c.Subject+":over-max-limit", "%d tokens were held at once; the largest limit ever in force was %d", hm, ml)
	}
	res := porcupine.CheckOperationsTimeout(gateModel(initLimit), ops, 20*time.Second)
	switch res {
	case porcupine.Illegal:
		return kit.Viol(c.Subject+":not-linearizable", "the recorded history of %d operations (%d workers) is not one an atomic counting gate can produce: %s", len(ops), len(c.Workers), summarise01(ops))
	case porcupine.Unknown:
		return kit.Outcome{Harness: "porcupine timed out (inconclusive)", Labels: []string{"porcupine-timeout"}}
	}
	// non-trivial: a refused and a granted acquire each overlapping a complete in logical time
	var refOv, grOv bool
	for _, a := range ops {
		in := a.Input.(gateIn)
		if in.Op != 0 {
			continue
		}
		for _, b := range ops {
			if b.Input.(gateIn).Op == 1 && a.Call <= b.Return && b.Call <= a.Return {
				if a.Output.(bool) {
					grOv = true
				} else {
					refOv = true
				}
			}
		}
	}
	out.NonTrivial = refOv && grOv
	out.Labels = []string{"subject:" + c.Subject}
	if script != nil && script.i > 0 {
		out.Labels = append(out.Labels, "limit-updated-during-run")
	}
	return out
}

func summarise01(ops []porcupine.Operation) string {
	g, r, c, s := 0, 0, 0, 0
	for _, o := range ops {
		switch in := o.Input.(gateIn); in.Op {
		case 0:
			if o.Output.(bool) {
				g++
			} else {
				r++
			}
		case 1:
			c++
		default:
			s++
		}
	}
	return fmt.Sprintf("%d grants, %d refusals, %d completions, %d limit updates", g, r, c, s)
}

func TestC01_history_Coop(t *testing.T) {
	kit.RequireMode(t, "coop")
	kit.Check(t, kit.Prop[c01Case]{
		ID: "C01", Quick: 2500, Thor: 250_000,
		Rule: "2-4 workers with generated programs (acquire / complete with any outcome / SetLimit on the direct strategy) under a generated cooperative schedule (spawn order, yields at simple.checked, default.sampled, the scripted limit and between ops); history incl. sample-driven limit updates checked for linearizability against the counting gate; non-trivial = a granted and a refused Acquire each overlapping a completion",
		Gen:  genC01C(false), Run: func(t *testing.T, c c01Case) kit.Outcome { return runC01C(t, c, false) }, NoShrink: true,
	})
}

func TestC01_history_parallel(t *testing.T) {
	kit.RequireMode(t, "std")
	kit.Check(t, kit.Prop[c01Case]{
		ID: "C01", Quick: 1500, Thor: 150_000,
		Rule: "limit+1..8 real threads behind a start barrier, 20-60 ops each, spins at the schedule points; same linearizability oracle; non-trivial as TestC01_history_Coop",
		Gen:  genC01C(true), Run: func(t *testing.T, c c01Case) kit.Outcome { return runC01C(t, c, true) }, NoShrink: true,
	})
}
