package harness

// C05 — enforcement follows the estimate: strategy limit and shares track every update.

import (
	"github.com/platinummonkey/go-concurrency-limits/limiter"
	"pgregory.net/rapid"
	"testing"

	"verifharness/kit"
)

func TestC05_enforcement(t *testing.T) {
	kit.RequireMode(t, "std")
	kit.Check(t, kit.Prop[dlCase]{
		ID: "C05", Quick: 2500, Thor: 300_000,
		Rule: "DefaultLimiter over every strategy kind (constructed with any limit: positive, non-positive, or equal to the first estimate) with a scripted estimate trajectory (incl. 0, negative, repeats, values around 2^15, 2^16 and up to 2^31-1) or a real algorithm; right after construction and after every event strategy limit == max(1, estimate), every partition share == max(1, ceil(limit*fraction)), and the limit / limit.partition gauges agree; non-trivial = >=2 limit changes incl. a value < 1 or a repeat",
		Gen:  genDL("c05"), Run: func(t *testing.T, c dlCase) kit.Outcome { return runDL(t, c, "c05") },
	})
}

// ---- the "with defaults" constructor -----------------------------------------------------------------------
//
// NewDefaultLimiterWithDefaults builds its own (Vegas) limit. Whatever that limit's initial estimate is, the
// strategy handed in - constructed with any limit of its own - must enforce it right after construction, and
// its partitions must be sized from it. The estimate is read through the limiter (EstimatedLimit), never assumed.

type c05dCase struct {
	Strategy  string  `json:"strategy"`
	StratInit int     `json:"strat_init"`
	PartInit  int     `json:"part_init"`
	FracA     float64 `json:"frac_a"`
}

func TestC05_defaults_constructor(t *testing.T) {
	kit.RequireMode(t, "std")
	kit.Check(t, kit.Prop[c05dCase]{
		ID: "C05", Quick: 300, Thor: 20_000,
		Rule: "NewDefaultLimiterWithDefaults over every strategy kind constructed with a generated limit of its own (incl. non-positive): right after construction the strategy enforces max(1, limiter.EstimatedLimit()) and every partition share is max(1, ceil(limit*fraction)); non-trivial = the strategy was constructed with another limit than the estimate",
		Gen: func(t *rapid.T) c05dCase {
			return c05dCase{Strategy: rapid.SampledFrom([]string{"simple", "precise", "lookup", "predicate"}).Draw(t, "strategy"),
				StratInit: rapid.OneOf(rapid.IntRange(-3, 60), rapid.SampledFrom([]int{1, 20, 1000})).Draw(t, "stratInit"),
				PartInit:  rapid.SampledFrom([]int{1, 0, 4, 25}).Draw(t, "partInit"),
				FracA:     rapid.SampledFrom([]float64{0.5, 0.1, 0.3, 1.0 / 3}).Draw(t, "fracA")}
		},
		Run: func(_ *testing.T, c c05dCase) kit.Outcome {
			dc := dlCase{Strategy: c.Strategy, StratInit: c.StratInit, PartInit: c.PartInit, FracA: c.FracA}
			b := &dlBuilt{reg: newRecRegistry(), present: append([]string(nil), dlBins...)}
			st, err := buildDLStrategy(dc, b)
			if err != nil {
				return kit.Outcome{Harness: err.Error()}
			}
			lim, err := limiter.NewDefaultLimiterWithDefaults("d", st, nil, b.reg)
			if err != nil {
				return kit.Outcome{Harness: err.Error()}
			}
			est := lim.EstimatedLimit()
			want := maxInt(est, 1)
			if got := b.stratLimit(); got != want {
				return kit.Viol(c.Strategy+":stale-limit", "right after NewDefaultLimiterWithDefaults: strategy (constructed with %d) enforces %d, the limiter's estimate is %d", c.StratInit, got, est)
			}
			if b.lookup != nil || b.pred != nil {
				for i, n := range dlBins {
					if got, w := b.binLimit(i), dlShare(want, dc.frac(n)); got != w {
						return kit.Viol(c.Strategy+":stale-share", "right after NewDefaultLimiterWithDefaults: partition %q share is %d, want max(1,ceil(%d*%v))=%d", n, got, want, dc.frac(n), w)
					}
				}
			}
			return kit.Outcome{NonTrivial: c.StratInit != est, Labels: []string{"strategy:" + c.Strategy}}
		},
	})
}

// TestC05_shares_model: the partition shares of the lookup and predicate strategies are part of what C05 promises
// ("shares of the current total limit"). The C03 reference model compares every bin's share with
// max(1, ceil(limit x fraction)) of the limit in force after every operation - limit changes, partitions added,
// removed, put back, registered under a second name, a second strategy over the same objects; here the same run is
// judged for C05 with a generator that moves the limit more often.
func TestC05_shares_model(t *testing.T) {
	kit.RequireMode(t, "std")
	kit.Check(t, kit.Prop[c03Case]{
		ID: "C05", Quick: 2500, Thor: 300_000,
		Rule: "partition sets x acquire / release / SetLimit / add / remove / put-back / second-name / rebuild sequences against the reference model of the partitioned strategies: after every operation every bin's share equals max(1, ceil(limit in force x fraction)), also for partition objects registered under two names; non-trivial = as TestC03_model",
		Gen: func(t *rapid.T) c03Case {
			c := genC03(t)
			// more limit movement: every third release becomes a SetLimit
			n := 0
			for i := range c.Ops {
				if c.Ops[i].K == "rel" {
					n++
					if n%3 == 0 {
						c.Ops[i] = c03Op{K: "set", N: 1 + (i*7)%40}
					}
				}
			}
			return c
		},
		Run: runC03,
	})
}
