package harness

// C05 — enforcement follows the estimate: strategy limit and shares track every update.

import (
	"testing"

	"verifharness/kit"
)

func TestC05_enforcement(t *testing.T) {
	kit.RequireMode(t, "std")
	kit.Check(t, kit.Prop[dlCase]{
		ID: "C05", Quick: 2500, Thor: 300_000,
		Rule: "DefaultLimiter over every strategy kind (constructed with any limit: positive, non-positive, or equal to the first estimate) with a scripted estimate trajectory (incl. 0, negative, repeats, values around 2^15, 2^16 and up to 2^31-1) or a real algorithm; right after construction and after every event strategy limit == max(1, estimate), every partition share == max(1, ceil(limit*fraction)), and the limit / limit.partition gauges agree; non-trivial = >=2 limit changes incl. a value < 1 or a repeat",
		Gen:  genDL("c05"), Run: func(t *testing.T, c dlCase) kit.Outcome { return runDL(t, c, "c05") },
	})
}
