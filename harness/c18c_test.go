package harness

// C18 — samples added from several goroutines at once. For the types whose result does not depend on the order of
// the samples the oracle is exact whatever the interleaving: the minimum of all samples (MinimumMeasurement), and -
// for every type - a value that stays inside the range of the samples (no torn or lost state), a non-negative
// variance, and a flag that was true at least once when the value moved.

import (
	"fmt"
	"sync"
	"testing"

	"pgregory.net/rapid"

	"verifharness/kit"
)

type c18cCase struct {
	Type    string      `json:"type"`
	Alpha   float64     `json:"alpha,omitempty"`
	Alpha2  float64     `json:"alpha2,omitempty"`
	Window  int         `json:"window,omitempty"`
	Warmup  int         `json:"warmup,omitempty"`
	Initial float64     `json:"initial"` // added before the threads start (0 = start unset)
	Rounds  int         `json:"rounds"`
	Vals    [][]float64 `json:"vals"` // per goroutine, cycled each round
}

func TestC18_concurrent(t *testing.T) {
	kit.RequireMode(t, "std")
	kit.Check(t, kit.Prop[c18cCase]{
		ID: "C18", Quick: 150, Thor: 10_000,
		Rule: "2-8 real threads add samples to one measurement, round after round behind a barrier (reset + optional initial sample between rounds): minimum type must end every round at the minimum of that round's samples; averaging types inside the range of the samples; non-trivial = minimum type with >=2 threads adding values below the stored one",
		Gen: func(t *rapid.T) c18cCase {
			c := c18cCase{Type: rapid.SampledFrom([]string{"min", "min", "min", "expavg", "sema", "var"}).Draw(t, "type")}
			c.Alpha, c.Alpha2 = genAlpha().Draw(t, "alpha"), genAlpha().Draw(t, "alpha2")
			c.Window, c.Warmup = rapid.IntRange(1, 100).Draw(t, "window"), rapid.IntRange(1, 10).Draw(t, "warmup")
			c.Initial = rapid.SampledFrom([]float64{0, 1000, 1e9}).Draw(t, "initial")
			c.Rounds = rapid.IntRange(200, 3000).Draw(t, "rounds")
			n := rapid.IntRange(2, 8).Draw(t, "threads")
			for g := 0; g < n; g++ {
				c.Vals = append(c.Vals, rapid.SliceOfN(rapid.Map(rapid.IntRange(1, 900), func(i int) float64 { return float64(i) }), 1, 3).Draw(t, "vals"))
			}
			return c
		},
		Run: func(_ *testing.T, c c18cCase) kit.Outcome {
			m := c18New(c18Case{Type: c.Type, Alpha: c.Alpha, Alpha2: c.Alpha2, Window: c.Window, Warmup: c.Warmup})
			n := len(c.Vals)
			var start, done sync.WaitGroup
			gate := make([]chan int, n)
			for g := range gate {
				gate[g] = make(chan int)
			}
			var mu sync.Mutex
			flagSeen := false
			for g := 0; g < n; g++ {
				go func(g int) {
					for r := range gate[g] {
						start.Done()
						start.Wait() // all threads leave together
						for _, v := range c.Vals[g] {
							_ = r
							if _, f := m.Add(v); f {
								mu.Lock()
								flagSeen = true
								mu.Unlock()
							}
						}
						done.Done()
					}
				}(g)
			}
			defer func() {
				for g := range gate {
					close(gate[g])
				}
			}()
			lo, hi := c.Vals[0][0], c.Vals[0][0]
			for _, vs := range c.Vals {
				for _, v := range vs {
					if v < lo {
						lo = v
					}
					if v > hi {
						hi = v
					}
				}
			}
			for r := 0; r < c.Rounds; r++ {
				m.Reset()
				rlo, rhi := lo, hi
				if c.Initial > 0 {
					m.Add(c.Initial)
					if c.Initial > rhi {
						rhi = c.Initial
					}
					if c.Initial < rlo {
						rlo = c.Initial
					}
				}
				mu.Lock()
				flagSeen = false
				mu.Unlock()
				before := m.Get()
				start.Add(n)
				done.Add(n)
				for g := range gate {
					gate[g] <- r
				}
				done.Wait()
				got := m.Get()
				switch c.Type {
				case "min":
					if got != rlo {
						return kit.Viol("min:concurrent", "round %d: %d threads added %v to a minimum that held %v: Get()=%v, the smallest sample added since the reset is %v", r, n, c.Vals, before, got, rlo)
					}
				case "var":
					if got < 0 || got != got {
						return kit.Viol("var:concurrent", "round %d: variance Get()=%v", r, got)
					}
				default:
					if got < rlo*(1-1e-9) || got > rhi*(1+1e-9) {
						return kit.Viol(c.Type+":concurrent", "round %d: %d threads added %v (initial %v): Get()=%v lies outside the range [%v,%v] of the samples", r, n, c.Vals, c.Initial, got, rlo, rhi)
					}
				}
				if got != before && !flagSeen && c.Type != "var" {
					return kit.Viol(c.Type+":concurrent-flag", "round %d: the value moved %v -> %v but no Add reported a change", r, before, got)
				}
			}
			return kit.Outcome{NonTrivial: c.Type == "min", Labels: []string{"type:" + c.Type, fmt.Sprintf("threads:%d", n)}}
		},
		NoShrink: true,
	})
}
