package harness

// C02 — the narrow case the property names: "a hand-off that races with the waiter giving up holds
// no capacity". One queued waiter; at one virtual instant a holder releases (hand-off to the waiter)
// and the waiter gives up (cancellation with eviction, or its backlog timer). Spawn order and yield
// counts at the schedule points are enumerated exhaustively.

import (
	"fmt"
	"github.com/platinummonkey/go-concurrency-limits/core"
	"testing"
	"testing/synctest"
	"time"

	"pgregory.net/rapid"

	"verifharness/kit"
)

type c02hCase struct {
	Stack   StackCfg  `json:"stack"`
	GiveUp  string    `json:"give_up"` // cancel | timeout
	Order   []int     `json:"order"`   // 0 = releaser, 1 = canceller
	Outcome int       `json:"outcome"`
	Yields  yieldList `json:"yields"`
	Par     bool      `json:"par,omitempty"`
}

func runC02H(t *testing.T, c c02hCase) kit.Outcome { return runC02HFor(t, c, "c02") }

// runC02HFor: prop "c20" additionally judges the queue gauges (C20: reported metrics match reality).
func runC02HFor(t *testing.T, c c02hCase, prop string) kit.Outcome {
	return bubble(t, func() kit.Outcome {
		t0 := time.Now()
		sc := newSched(c.Yields)
		sc.spin = c.Par
		sc.arm(false)
		st, err := buildStack(c.Stack, nil, sc, t0)
		if err != nil {
			return kit.Outcome{Harness: err.Error()}
		}
		sc.install()
		defer (*sched)(nil).install()
		w := newWorld(st, t0)
		kind := c.Stack.Kind + "-" + c.GiveUp
		holder := w.newCaller("a", 0, 0)
		w.start(holder)
		synctest.Wait()
		waiter := w.newCaller("a", 0, 0)
		w.start(waiter)
		synctest.Wait()
		if !holder.Done || !holder.OK || waiter.Done {
			w.unwind(2 * time.Second)
			w.flush()
			return kit.Outcome{Harness: "set-up failed"}
		}
		if c.GiveUp == "timeout" {
			// arrive at the very instant the waiter's backlog timer (or the limiter's deadline) fires
			if c.Stack.Kind == "deadline" {
				time.Sleep(time.Duration(c.Stack.DeadlineMs)*time.Millisecond - w.now())
			} else {
				time.Sleep(c.Stack.effTimeout() - w.now() + waiter.Arrived)
			}
		}
		sc.arm(true)
		release := func() {
			w.mu.Lock()
			holder.Released = true
			w.mu.Unlock()
			w.wg.Add(1)
			go func() { defer w.wg.Done(); defer notePanic(); complete(holder.L, c.Outcome) }()
		}
		for _, a := range c.Order {
			if a == 0 {
				release()
			} else if c.GiveUp == "cancel" {
				w.wg.Add(1)
				go func() { defer w.wg.Done(); defer notePanic(); waiter.cancel() }()
			}
		}
		synctest.Wait()
		sc.arm(false)
		n, _ := w.outstanding()
		busy, gauge := st.busy(), int(st.def.VerifInFlight())
		snap := w.snapshot()[1]
		var viol *kit.Outcome
		switch {
		case !snap.Done && c.Stack.Kind == "blocking" && c.GiveUp == "timeout":
			// the blocking limiter's timer is only a retry timer: still waiting is fine
		case !snap.Done:
			o := kit.Viol(kind+":waiter-stuck", "the waiter neither got the token nor returned from its give-up; points %v", sc.Trace)
			viol = &o
		case (snap.L != nil) != snap.OK:
			o := kit.Viol(kind+":listener-iff-ok", "waiter returned listener=%v ok=%v", snap.L != nil, snap.OK)
			viol = &o
		case busy != n || gauge != n:
			o := kit.Viol(kind+":leaked-capacity", "hand-off raced with the waiter's give-up: waiter returned ok=%v, %d granted token(s) outstanding, but strategy busy=%d and limiter gauge=%d; spawn order %v; points %v", snap.OK, n, busy, gauge, c.Order, sc.Trace)
			viol = &o
		case prop == "c20" && st.queue != nil && func() bool {
			v, ok := st.reg.gauge(core.MetricQueueSize, "")
			return !ok || int(v) != len(w.blocked()) || v < 0
		}():
			v, ok := st.reg.gauge(core.MetricQueueSize, "")
			o := kit.Viol(kind+":queue-size-gauge", "after a hand-off raced with the waiter's give-up the queue_size gauge reports %v (registered=%v) while %d caller(s) are blocked; spawn order %v; points %v", v, ok, len(w.blocked()), c.Order, sc.Trace)
			viol = &o
		case st.queue != nil && st.queue.VerifBacklogLen() != 0:
			o := kit.Viol(kind+":backlog", "backlog holds %d elements after the waiter returned", st.queue.VerifBacklogLen())
			viol = &o
		}
		msg := w.unwind(c.Stack.unwindWait())
		w.flush()
		if viol != nil {
			return *viol
		}
		if msg != "" {
			return kit.Viol(kind+":stuck", "%s", msg)
		}
		if b := st.busy(); b != 0 {
			return kit.Viol(kind+":end-busy", "after every granted listener completed: busy=%d", b)
		}
		// non-trivial: the give-up and the hand-off really overlapped (both points seen)
		sawGiveUp, sawHandOff := false, false
		for _, p := range sc.Trace {
			sawGiveUp = sawGiveUp || p == "queue.giveup"
			sawHandOff = sawHandOff || p == "queue.unblock.acquired" || p == "inner.completed"
			sawGiveUp = sawGiveUp || c.Stack.Kind != "queue"
		}
		return kit.Outcome{NonTrivial: sawGiveUp && sawHandOff, Labels: []string{"kind:" + kind, fmt.Sprintf("waiter-granted:%v", snap.OK)}}
	})
}

// The same scenarios with real threads inside the bubble (all cores): which of two events due at the
// same virtual instant runs first is then decided by the runtime, e.g. whether a waiter woken at its
// deadline sees the release or its timer first.
func TestC02_handoff_parallel(t *testing.T) {
	kit.RequireMode(t, "std")
	stacks := []StackCfg{
		{Kind: "queue", Ordering: "fifo", Backlog: 2, TimeoutMs: 20},
		{Kind: "queue", Ordering: "lifo", Backlog: 2, TimeoutMs: 20},
		{Kind: "deadline", DeadlineMs: 20},
		{Kind: "blocking", TimeoutMs: 20},
	}
	kit.Check(t, kit.Prop[c02hCase]{
		ID: "C02", Quick: 4000, Thor: 200_000,
		Rule: "the hand-off-vs-give-up scenarios of TestC02_handoff_enum_Coop with real parallelism inside the bubble (spins at the schedule points); non-trivial by the same rule",
		Gen: func(t *rapid.T) c02hCase {
			stk := rapid.SampledFrom(stacks).Draw(t, "stack")
			give := rapid.SampledFrom([]string{"cancel", "timeout", "timeout"}).Draw(t, "give")
			stk.Strategy, stk.Limit, stk.Inject = rapid.SampledFrom([]string{"simple", "precise"}).Draw(t, "strategy"), 1, true
			stk.Evict = give == "cancel"
			return c02hCase{Stack: stk, GiveUp: give, Order: rapid.Permutation([]int{0, 1}).Draw(t, "order"), Outcome: rapid.IntRange(0, 2).Draw(t, "outcome"),
				Yields: yieldList(rapid.SliceOfN(rapid.SampledFrom([]uint8{0, 0, 1, 2, 5}), 0, 10).Draw(t, "yields")), Par: true}
		},
		Run: runC02H, NoShrink: true,
	})
}

func TestC02_handoff_enum_Coop(t *testing.T) {
	kit.RequireMode(t, "coop")
	if kit.Replay != "" {
		kit.Check(t, kit.Prop[c02hCase]{ID: "C02", Run: runC02H})
		return
	}
	d := kit.NewDirect[c02hCase](t, "C02", "exhaustive: queue (FIFO/LIFO), deadline and blocking limiter x give-up kind (cancel with eviction / backlog timer at the same instant) x spawn order x completion outcome x yields in {0,1,3}^k (k=6, thorough 8) at the schedule points; non-trivial = both the give-up and the hand-off were in progress")
	k := 6
	if kit.Thorough() {
		k = 8
	}
	vals := []uint8{0, 1, 3}
	total := 1
	for i := 0; i < k; i++ {
		total *= len(vals)
	}
	stacks := []StackCfg{
		{Kind: "queue", Ordering: "fifo", Backlog: 2, TimeoutMs: 20},
		{Kind: "queue", Ordering: "lifo", Backlog: 2, TimeoutMs: 20},
		{Kind: "deadline", DeadlineMs: 20},
		{Kind: "blocking", TimeoutMs: 20},
	}
	for _, base := range stacks {
		for _, give := range []string{"cancel", "timeout"} {
			for _, order := range [][]int{{0, 1}, {1, 0}} {
				for code := kit.Shard; code < total; code += kit.Shards {
					ys := make(yieldList, k)
					x := code
					for i := range ys {
						ys[i] = vals[x%len(vals)]
						x /= len(vals)
					}
					stk := base
					stk.Strategy, stk.Limit, stk.Inject = "simple", 1, true
					stk.Evict = give == "cancel"
					c := c02hCase{Stack: stk, GiveUp: give, Order: order, Outcome: code % 3, Yields: ys}
					stop := kit.Watch("C02", t.Name(), c)
					o := runC02H(t, c)
					stop()
					if !d.Account(c, o) {
						return
					}
				}
			}
		}
	}
}

// C20: the queue limiter's gauges under the same coincidences (a give-up racing a hand-off may evict the same
// element twice; the reported size must stay the number of callers really blocked).
func TestC20_queue_gauges_Coop(t *testing.T) {
	kit.RequireMode(t, "coop")
	if kit.Replay != "" {
		kit.Check(t, kit.Prop[c02hCase]{ID: "C20", Run: func(t *testing.T, c c02hCase) kit.Outcome { return runC02HFor(t, c, "c20") }})
		return
	}
	d := kit.NewDirect[c02hCase](t, "C20", "exhaustive: queue limiter (FIFO/LIFO) x give-up kind (cancel with eviction / backlog timer at the same instant) racing a hand-off x spawn order x completion outcome x yields in {0,1,3}^k (k=6, thorough 8); at quiescence the queue_size gauge equals the number of callers blocked; non-trivial = both the give-up and the hand-off were in progress")
	k := 6
	if kit.Thorough() {
		k = 8
	}
	vals := []uint8{0, 1, 3}
	total := 1
	for i := 0; i < k; i++ {
		total *= len(vals)
	}
	for _, ordering := range []string{"fifo", "lifo"} {
		for _, give := range []string{"cancel", "timeout"} {
			for _, order := range [][]int{{0, 1}, {1, 0}} {
				for code := kit.Shard; code < total; code += kit.Shards {
					ys := make(yieldList, k)
					x := code
					for i := range ys {
						ys[i] = vals[x%len(vals)]
						x /= len(vals)
					}
					stk := StackCfg{Kind: "queue", Ordering: ordering, Backlog: 2, TimeoutMs: 20, Strategy: "simple", Limit: 1, Inject: true, Evict: give == "cancel"}
					c := c02hCase{Stack: stk, GiveUp: give, Order: order, Outcome: code % 3, Yields: ys}
					stop := kit.Watch("C20", t.Name(), c)
					o := runC02HFor(t, c, "c20")
					stop()
					if !d.Account(c, o) {
						return
					}
				}
			}
		}
	}
}
