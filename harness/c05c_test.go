package harness

// C05 — interleavings of completions that trigger updates: several goroutines complete tokens
// concurrently (generated cooperative schedule: yields inside the scripted limit and at the entry of
// the strategy's SetLimit, injected through a wrapping core.Strategy). When everything has settled
// the enforced limit must be the algorithm's current estimate, not an older one.

import (
	"context"
	"fmt"
	"runtime"
	"sync"
	"testing"
	"time"

	"github.com/platinummonkey/go-concurrency-limits/core"
	"github.com/platinummonkey/go-concurrency-limits/limiter"
	"pgregory.net/rapid"

	"verifharness/kit"
)

type c05cCase struct {
	Strategy string    `json:"strategy"`
	Traj     []int     `json:"traj"`
	Workers  int       `json:"workers"`
	Cycles   int       `json:"cycles"`
	Order    []int     `json:"order"`
	Yields   yieldList `json:"yields"`
	Hold     []bool    `json:"hold,omitempty"` // worker i keeps the first token it is granted until all workers are done (the strategy stays close to full)
	// Stall: yields taken by the k-th update right where it reaches the strategy (consumed only there): a long stall lets
	// the other workers complete a whole further window, update included, before this update is applied
	Stall yieldList `json:"stall,omitempty"`
}

type yieldStrategy struct {
	inner   core.Strategy
	sc      *sched
	after   func(n int) // called right after the inner SetLimit(n) returned
	refused func()      // called right after the inner strategy refused a request
	stall   yieldList
	mu      sync.Mutex
	k       int
}

func (y *yieldStrategy) TryAcquire(ctx context.Context) (core.StrategyToken, bool) {
	tk, ok := y.inner.TryAcquire(ctx)
	if !ok && y.refused != nil {
		y.refused() // right here, inside the limiter's critical section: nothing has been unlocked since the decision
	}
	return tk, ok
}
func (y *yieldStrategy) SetLimit(n int) {
	y.sc.Point("strategy.setlimit")
	y.mu.Lock()
	st := 0
	if y.k < len(y.stall) {
		st = int(y.stall[y.k])
	}
	y.k++
	y.mu.Unlock()
	for i := 0; i < st; i++ {
		runtime.Gosched()
	}
	y.inner.SetLimit(n)
	if y.after != nil {
		y.after(n)
	}
	y.sc.Point("strategy.setlimit.done")
}

func genC05C(t *rapid.T) c05cCase {
	c := c05cCase{Strategy: rapid.SampledFrom([]string{"simple", "precise", "lookup", "predicate"}).Draw(t, "strategy")}
	c.Traj = rapid.SliceOfN(rapid.IntRange(2, 40), 3, 10).Draw(t, "traj")
	if rapid.Bool().Draw(t, "tight") {
		// limits around the number of workers: the strategy is often full when an update arrives
		c.Traj = rapid.SliceOfN(rapid.IntRange(1, 4), 3, 12).Draw(t, "tightTraj")
	}
	c.Workers = rapid.IntRange(2, 4).Draw(t, "workers")
	if rapid.Bool().Draw(t, "holders") {
		c.Workers = rapid.IntRange(3, 5).Draw(t, "workersH")
		c.Hold = make([]bool, c.Workers)
		for i := 0; i < rapid.IntRange(1, c.Workers-2).Draw(t, "nhold"); i++ {
			c.Hold[i] = true
		}
	}
	c.Cycles = rapid.IntRange(12, 40).Draw(t, "cycles")
	c.Order = rapid.Permutation(seq(c.Workers)).Draw(t, "order")
	c.Stall = yieldList(rapid.SliceOfN(rapid.SampledFrom([]uint8{0, 0, 3, 40, 120, 250}), 0, 12).Draw(t, "stall"))
	c.Yields = yieldList(rapid.SliceOfN(rapid.SampledFrom([]uint8{0, 0, 0, 0, 1, 1, 2, 3, 6, 40}), 0, 200).Draw(t, "yields")) // 40: long enough for the other workers to complete a whole further window
	return c
}

func runC05C(_ *testing.T, c c05cCase) kit.Outcome {
	sc := newSched(c.Yields)
	dc := dlCase{Strategy: c.Strategy, StratInit: 3, Limit: LimitCfg{Algo: "script"}, Traj: append([]int{8}, c.Traj...), WinSize: 10, WinMin: 1, WinMax: 1, Threshold: 0}
	b, err := buildDL(dc, sc)
	if err != nil {
		return kit.Outcome{Harness: err.Error()}
	}
	// rebuild the limiter over the yielding wrapper around the same strategy
	var inner core.Strategy
	switch {
	case b.simple != nil:
		inner = b.simple
	case b.precise != nil:
		inner = b.precise
	case b.lookup != nil:
		inner = b.lookup
	default:
		inner = b.pred
	}
	// whenever an update is applied to the strategy it must be the algorithm's estimate of that moment
	var staleMu sync.Mutex
	stale := ""
	refusedFull := false
	ys := &yieldStrategy{inner: inner, sc: sc, stall: c.Stall}
	raisedWhileFull := false
	lastApplied := 8
	ys.after = func(n int) {
		if n > lastApplied && b.stratBusy() >= lastApplied {
			raisedWhileFull = true
		}
		lastApplied = n
		est := b.script.EstimatedLimit()
		if n != est {
			staleMu.Lock()
			if stale == "" {
				stale = fmt.Sprintf("SetLimit(%d) was applied to the strategy while the algorithm's estimate had already moved to %d (update #%d)", n, est, b.script.i)
			}
			staleMu.Unlock()
		}
	}
	// a refusal while the strategy itself reports room under the limit it enforces means the decision was taken
	// against another (stale) limit than the one the last update installed. The reads are made inside the strategy
	// call, i.e. inside the limiter's critical section and before anything is unlocked: once the limiter's mutex is
	// released it may be handed straight to a waiting completion (sync.Mutex starvation mode yields to the waiter),
	// after which busy counts are no longer those of the decision
	ys.refused = func() {
		if bz, lm := b.stratBusy(), b.stratLimit(); bz < lm {
			staleMu.Lock()
			if stale == "" {
				stale = fmt.Sprintf("a request was refused while the strategy reports busy=%d below its limit=%d (estimate %d, update #%d)", bz, lm, b.script.EstimatedLimit(), b.script.i)
			}
			staleMu.Unlock()
		}
	}
	lim, err := limiter.NewDefaultLimiter(b.script, 1, 1, 0, 10, ys, nil, b.reg)
	if err != nil {
		return kit.Outcome{Harness: err.Error()}
	}
	sc.install() // the library's own schedule points (default.sampled sits between a completion's release and its update)
	defer (*sched)(nil).install()
	start := make(chan struct{})
	var wg sync.WaitGroup
	var heldMu sync.Mutex
	var held []core.Listener
	worker := func(id int) {
		defer wg.Done()
		<-start
		for i := 0; i < c.Cycles; i++ {
			l, ok := lim.Acquire(stackKeyCtx(context.Background(), []string{"a", "b"}[(id+i)%2]))
			if !ok {
				staleMu.Lock()
				refusedFull = true
				staleMu.Unlock()
			}
			sc.Point("worker.acquired")
			if ok && id < len(c.Hold) && c.Hold[id] {
				heldMu.Lock()
				held = append(held, l)
				heldMu.Unlock()
				return // keeps its token; the harness completes it when every worker is done
			}
			if ok {
				complete(l, 0)
			}
			sc.Point("worker.completed")
		}
	}
	order := c.Order
	if len(order) != c.Workers {
		order = seq(c.Workers)
	}
	for _, i := range order {
		wg.Add(1)
		go worker(i)
	}
	close(start)
	done := make(chan struct{})
	go func() { wg.Wait(); close(done) }()
	select {
	case <-done:
	case <-time.After(60 * time.Second):
		return kit.Outcome{Harness: "workers did not finish within 60 s"}
	}
	// what is admitted, not only what is reported: with the holders' tokens still out, fill the limiter until it
	// refuses; exactly max(1, estimate) tokens must then be outstanding (tokens admitted under a higher limit stay)
	if b.simple != nil || b.precise != nil {
		want := b.script.EstimatedLimit()
		if want < 1 {
			want = 1
		}
		before := len(held)
		for i := 0; i < want+3; i++ {
			l, ok := lim.Acquire(context.Background())
			if !ok {
				break
			}
			held = append(held, l)
		}
		if n := len(held); n != want && !(before > want && n == before) && stale == "" {
			stale = fmt.Sprintf("after all workers finished %d tokens were out; filling the limiter until it refuses gives %d outstanding, the estimate is %d", before, n, b.script.EstimatedLimit())
		}
	}
	for _, l := range held {
		l.OnIgnore()
	}
	if stale != "" {
		return kit.Viol(c.Strategy+":stale-update-applied", "%s", stale)
	}
	est := b.script.EstimatedLimit()
	want := est
	if want < 1 {
		want = 1
	}
	updates := b.script.i
	if got := b.stratLimit(); got != want {
		return kit.Viol(c.Strategy+":stale-limit-after-interleaving", "after %d sample-driven updates from %d goroutines had all completed: the strategy enforces %d, the algorithm's estimate is %d", updates, c.Workers, got, est)
	}
	if b.lookup != nil || b.pred != nil {
		for i, n := range dlBins {
			if got, w := b.binLimit(i), dlShare(want, stackBinFracs[n]); got != w {
				return kit.Viol(c.Strategy+":stale-share-after-interleaving", "partition %q share is %d, want %d (limit %d)", n, got, w, want)
			}
		}
	}
	if bz := b.stratBusy(); bz != 0 {
		return kit.Viol(c.Strategy+":busy", "busy=%d after all completions", bz)
	}
	return kit.Outcome{NonTrivial: updates >= 2, Labels: []string{"strategy:" + c.Strategy, fmt.Sprintf("updates>=2:%v", updates >= 2), fmt.Sprintf("refusal-seen:%v", refusedFull), fmt.Sprintf("limit-raised-while-full:%v", raisedWhileFull)}}
}

func TestC05_interleaved_Coop(t *testing.T) {
	kit.RequireMode(t, "coop")
	kit.Check(t, kit.Prop[c05cCase]{
		ID: "C05", Quick: 1500, Thor: 150_000,
		Rule: "2-4 goroutines x 12-40 acquire/complete cycles over every strategy kind behind a yielding Strategy wrapper and a scripted limit (generated cooperative schedule); at the end enforced limit and shares must equal the current estimate; non-trivial = >=2 sample-driven updates happened",
		Gen:  genC05C, Run: runC05C, NoShrink: true,
	})
}
