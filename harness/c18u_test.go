package harness

// C18 — the primitives while somebody else is using them. Update takes a caller-supplied function; what that function
// takes its time over is the caller's business, and another goroutine may Add a sample meanwhile. Whatever the
// interleaving, both operations take effect: the instance ends up as if the two had happened one after the other, in
// one of the two orders - a sample that vanishes (or an update that does) leaves a value no sample sequence explains.
// Generated cooperative schedule with points inside the callback and around the Add; the two sequential outcomes are
// computed on twins that went through the same history.

import (
	"fmt"
	"sync"
	"testing"

	"github.com/platinummonkey/go-concurrency-limits/core"
	"github.com/platinummonkey/go-concurrency-limits/measurements"
	"pgregory.net/rapid"

	"verifharness/kit"
)

type c18uCase struct {
	Kind    string    `json:"kind"`
	History []float64 `json:"history"`
	Sample  float64   `json:"sample"`
	Op      string    `json:"op"` // what the callback returns: half | double | plus1 | const
	First   int       `json:"first"`
	Yields  yieldList `json:"yields"`
}

func c18uBuild(kind string) core.MeasurementInterface {
	switch kind {
	case "minimum":
		return &measurements.MinimumMeasurement{}
	case "single":
		return &measurements.SingleMeasurement{}
	case "expavg":
		return measurements.NewExponentialAverageMeasurement(10, 3)
	case "sema":
		m, _ := measurements.NewSimpleExponentialMovingAverage(0.2)
		return m
	case "variance":
		m, _ := measurements.NewSimpleMovingVariance(0.2, 0.2)
		return m
	}
	m, _ := measurements.NewWindowlessMovingPercentile(0.9, 0.01, 0.2, 0.2)
	return m
}

func c18uOp(op string) func(float64) float64 {
	switch op {
	case "half":
		return func(v float64) float64 { return v / 2 }
	case "double":
		return func(v float64) float64 { return v * 2 }
	case "plus1":
		return func(v float64) float64 { return v + 1 }
	}
	return func(float64) float64 { return 42 }
}

func runC18U(_ *testing.T, c c18uCase) kit.Outcome {
	mk := func() core.MeasurementInterface {
		m := c18uBuild(c.Kind)
		for _, h := range c.History {
			m.Add(h)
		}
		return m
	}
	op := c18uOp(c.Op)
	// the two sequential outcomes; what is compared afterwards is the value and the reaction to two further samples
	// (hidden state - warm-up counters, sums - must be one of the two as well)
	probe := func(m core.MeasurementInterface) [3]float64 {
		a := m.Get()
		b, _ := m.Add(c.Sample + 3)
		d, _ := m.Add(c.Sample / 2)
		return [3]float64{a, b, d}
	}
	ua := mk()
	ua.Update(op)
	ua.Add(c.Sample)
	au := mk()
	au.Add(c.Sample)
	au.Update(op)
	wantUA, wantAU := probe(ua), probe(au)

	sc := newSched(c.Yields)
	m := mk()
	start := make(chan struct{})
	var wg sync.WaitGroup
	inCallback := false
	run := []func(){
		func() {
			sc.Point("update.before")
			m.Update(func(v float64) float64 {
				inCallback = true
				sc.Point("update.callback.enter")
				r := op(v)
				sc.Point("update.callback.exit")
				return r
			})
			sc.Point("update.after")
		},
		func() {
			sc.Point("add.before")
			m.Add(c.Sample)
			sc.Point("add.after")
		},
	}
	order := []int{c.First % 2, 1 - c.First%2}
	for _, i := range order {
		wg.Add(1)
		go func(f func()) { defer wg.Done(); <-start; f() }(run[i])
	}
	close(start)
	wg.Wait()
	got := probe(m)
	if got != wantUA && got != wantAU {
		return kit.Viol(c.Kind+":update-add-lost", "history %v, then Update(%s) and Add(%v) from two goroutines: value and the next two results are %v; Update-then-Add gives %v, Add-then-Update gives %v - one of the two operations left no trace", c.History, c.Op, c.Sample, got, wantUA, wantAU)
	}
	return kit.Outcome{NonTrivial: inCallback && len(c.Yields) > 0 && wantUA != wantAU, Labels: []string{"kind:" + c.Kind, fmt.Sprintf("orders-differ:%v", wantUA != wantAU)}}
}

func TestC18_update_Coop(t *testing.T) {
	kit.RequireMode(t, "coop")
	kit.Check(t, kit.Prop[c18uCase]{
		ID: "C18", Quick: 3000, Thor: 200_000,
		Rule: "every measurement kind x a history of 1-12 samples, then Update(caller-supplied function) and Add(sample) from two goroutines under a generated cooperative schedule with points inside the callback: value and the results of the next two samples equal those of Update-then-Add or of Add-then-Update on twins with the same history; non-trivial = the two orders differ and a yield was scheduled",
		Gen: func(t *rapid.T) c18uCase {
			val := rapid.OneOf(rapid.Float64Range(0.5, 100), rapid.Map(rapid.IntRange(1, 1000), func(i int) float64 { return float64(i) }))
			return c18uCase{
				Kind:    rapid.SampledFrom([]string{"minimum", "single", "expavg", "expavg", "sema", "variance", "percentile"}).Draw(t, "kind"),
				History: rapid.SliceOfN(val, 1, 12).Draw(t, "history"), // at least one sample: on an unset instance the callback would be handed the unset marker 0, and whatever it makes of it is not a sample
				Sample:  val.Draw(t, "sample"),
				Op:      rapid.SampledFrom([]string{"half", "double", "plus1", "const"}).Draw(t, "op"),
				First:   rapid.IntRange(0, 1).Draw(t, "first"),
				Yields:  yieldList(rapid.SliceOfN(rapid.SampledFrom([]uint8{0, 1, 1, 2, 3}), 0, 12).Draw(t, "yields")),
			}
		},
		Run: runC18U, NoShrink: true,
	})
}
