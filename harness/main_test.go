package harness

import (
	"os"
	"testing"

	"verifharness/kit"
)

func TestMain(m *testing.M) {
	code := m.Run()
	kit.Flush()
	os.Exit(code)
}
