package harness

// Shared generators / builders for the limit-algorithm properties (C04, C06, C07, C08, C15, C16).

import (
	"fmt"
	"math"
	"math/rand"

	"github.com/platinummonkey/go-concurrency-limits/core"
	"github.com/platinummonkey/go-concurrency-limits/limit"
	"github.com/platinummonkey/go-concurrency-limits/limit/functions"
	"github.com/platinummonkey/go-concurrency-limits/measurements"
	"pgregory.net/rapid"
)

// LimitCfg is a JSON-serialisable configuration of one limit algorithm (+ optional wrappers).
type LimitCfg struct {
	Algo          string  `json:"algo"` // aimd | vegas | gradient | gradient2 | settable | fixed
	Initial       int     `json:"initial"`
	Min           int     `json:"min,omitempty"`
	Max           int     `json:"max,omitempty"`
	Backoff       float64 `json:"backoff,omitempty"`
	IncreaseBy    int     `json:"increase_by,omitempty"`
	Smoothing     float64 `json:"smoothing,omitempty"`
	ProbeMult     int     `json:"probe_mult,omitempty"`     // vegas; <=0 = library default (30)
	ProbeInterval int     `json:"probe_interval,omitempty"` // gradient; 0 = default (1000), -1 = disabled
	RTTTol        float64 `json:"rtt_tol,omitempty"`
	Queue         string  `json:"queue,omitempty"` // "" (library default) | fixed:k | sqrt:k | log10:k
	LongWindow    int     `json:"long_window,omitempty"`
	NoLoad        string  `json:"no_load,omitempty"` // vegas: caller-supplied baseline measurement: "" (default minimum) | minimum (a caller-supplied minimum) | single | expavg
	// vegas: caller-supplied policy functions (documented constructor options); "" = library default.
	// int ones (alpha, beta, threshold): "k:N" constant N | "log:M" M*log10-root(limit).
	// float ones (increase, decrease): half | dbl | sub:K | add:K | zero | same.
	VAlpha       string `json:"v_alpha,omitempty"`
	VBeta        string `json:"v_beta,omitempty"`
	VThr         string `json:"v_thr,omitempty"`
	VInc         string `json:"v_inc,omitempty"`
	VDec         string `json:"v_dec,omitempty"`
	Windowed     bool   `json:"windowed,omitempty"`
	Listener     bool   `json:"listener,omitempty"`      // a (no-op) change listener is registered on the outermost limit before anything else happens, as a strategy hook or a wrapper would
	WithRegistry bool   `json:"with_registry,omitempty"` // built over a recording metric registry (where the test does not supply one of its own)
	Traced       bool   `json:"traced,omitempty"`
	TraceDebug   bool   `json:"trace_debug,omitempty"` // traced: the logger handed to the traced limit has debug output enabled (it discards the text)
	WinSize      int32  `json:"win_size,omitempty"`
	WinMin       int64  `json:"win_min,omitempty"`
	WinMax       int64  `json:"win_max,omitempty"`
	WinThreshold int64  `json:"win_threshold,omitempty"`
	JitterSeed   int64  `json:"jitter_seed"`
	// AlgoDebug: the algorithm itself (Vegas, Gradient, Gradient2) is constructed with a logger that has debug output
	// enabled, so every argument of its trace lines is really evaluated (the text is dropped)
	AlgoDebug bool `json:"algo_debug,omitempty"`
	// Outer2: one more wrapper around everything else, built directly on the wrapper below it (no recording
	// pass-through in between): "" | windowed | traced. Its window parameters are the Win2* fields.
	Outer2        string `json:"outer2,omitempty"`
	Win2Size      int32  `json:"win2_size,omitempty"`
	Win2Min       int64  `json:"win2_min,omitempty"`
	Win2Max       int64  `json:"win2_max,omitempty"`
	Win2Threshold int64  `json:"win2_threshold,omitempty"`
	// Ctor: "" = the long constructor; "default" = NewDefaultAIMDLimit / NewDefaultVegasLimit / NewDefaultGradient2Limit
	// (every parameter is then the library's own choice); "default_limit" = NewDefaultVegasLimitWithLimit(Initial).
	Ctor string `json:"ctor,omitempty"`
	// Unset: parameters handed to the long constructor as their documented "use the default" value
	// (initial, min, max, smoothing, tol, lw). The harness assumes nothing about the defaults chosen.
	Unset []string `json:"unset,omitempty"`
}

// known reports whether the harness knows the effective value of a parameter (it was passed explicitly).
func (c LimitCfg) known(param string) bool {
	switch c.Ctor {
	case "default":
		return false
	case "default_limit":
		return param == "initial"
	}
	for _, u := range c.Unset {
		if u == param {
			return false
		}
	}
	return true
}

// arg returns the value handed to the long constructor for an int parameter: the configured one, or the
// documented "unset" sentinel.
func (c LimitCfg) arg(param string, v int) int {
	if c.known(param) {
		return v
	}
	switch param {
	case "max":
		return -1
	case "lw":
		return -1
	}
	return 0
}

func (c LimitCfg) argF(param string, v float64) float64 {
	if c.known(param) {
		return v
	}
	return -1
}

// sanityCeil bounds the estimate where the effective maximum is the library's own default (unknown to the
// harness): far above any default a maintainer would pick, far below what a broken update produces.
const sanityCeil = 10_000_000

// genUnset lets some parameters of a generated configuration fall back to the library defaults, or
// switches to one of the short constructors.
func genUnset(t *rapid.T, c *LimitCfg) { genUnsetOpt(t, c, false) }

// genUnsetSafe never produces a combination the Gradient2 constructor might reject (an unset minimum next to a
// small explicit maximum), so that buildLimit cannot fail.
func genUnsetSafe(t *rapid.T, c *LimitCfg) { genUnsetOpt(t, c, true) }

func genUnsetOpt(t *rapid.T, c *LimitCfg, safe bool) {
	switch rapid.IntRange(0, 9).Draw(t, "ctorKind") {
	case 0:
		if c.Algo == "aimd" || c.Algo == "vegas" || c.Algo == "gradient2" {
			c.Ctor = "default"
		}
	case 1:
		if c.Algo == "vegas" {
			c.Ctor = "default_limit"
		}
	case 2, 3:
		var cand []string
		switch c.Algo {
		case "vegas":
			cand = []string{"initial", "max", "smoothing"}
		case "gradient":
			cand = []string{"initial", "min", "max", "smoothing", "tol"}
		case "gradient2":
			cand = []string{"initial", "min", "max", "smoothing", "lw"}
		}
		for _, p := range cand {
			if rapid.IntRange(0, 2).Draw(t, "unset:"+p) == 0 {
				c.Unset = append(c.Unset, p)
			}
		}
		if safe && c.Algo == "gradient2" && !c.known("min") && c.known("max") {
			c.Unset = append(c.Unset, "max")
		}
	}
}

// Sample is one OnSample call.
type Sample struct {
	Start int64  `json:"start,omitempty"`
	RTT   int64  `json:"rtt"`
	Inf   int    `json:"inf"`
	Rel   string `json:"rel,omitempty"` // "" = Inf is absolute; third | half | eq | dbl = relative to the reported estimate at that moment
	Drop  bool   `json:"drop,omitempty"`
}

// inflight resolves the in-flight value of a sample against the current reported estimate.
func (s Sample) inflight(est int) int {
	if est < 0 {
		est = 0
	}
	if est > math.MaxInt32 {
		est = math.MaxInt32 // the in-flight domain ends at 2^31-1, whatever the estimate
	}
	switch s.Rel {
	case "half":
		return est / 2
	case "third":
		return est / 3
	case "eq":
		return est
	case "dbl":
		if est > math.MaxInt32/2-1 {
			return math.MaxInt32
		}
		return 2*est + 1
	}
	return s.Inf
}

func queueFunc(spec string) func(int) int {
	var k int
	switch {
	case spec == "":
		return nil
	case scan(spec, "fixed:%d", &k):
		return functions.FixedQueueSizeFunc(k)
	case scan(spec, "sqrt:%d", &k):
		return functions.SqrtRootFunction(k)
	case scan(spec, "log10:%d", &k):
		return functions.Log10RootFunction(k)
	}
	panic("bad queue spec " + spec)
}

// vegasIntFn / vegasFloatFn decode the caller-supplied Vegas policy functions of LimitCfg.
func vegasIntFn(spec string) func(int) int {
	var k int
	switch {
	case spec == "":
		return nil
	case scan(spec, "k:%d", &k):
		return func(int) int { return k }
	case scan(spec, "log:%d", &k):
		lg := functions.Log10RootFunction(0)
		return func(l int) int { return k * lg(l) }
	case scan(spec, "div:%d", &k):
		return func(l int) int { return l / k } // "a k-th of the limit": 0 for small limits
	}
	panic("bad vegas int fn " + spec)
}

func vegasFloatFn(spec string) func(float64) float64 {
	var k int
	switch {
	case spec == "":
		return nil
	case spec == "half":
		return func(l float64) float64 { return l / 2 }
	case spec == "dbl":
		return func(l float64) float64 { return l * 2 }
	case spec == "zero":
		return func(float64) float64 { return 0 }
	case spec == "same":
		return func(l float64) float64 { return l }
	case scan(spec, "sub:%d", &k):
		return func(l float64) float64 { return l - float64(k) }
	case scan(spec, "add:%d", &k):
		return func(l float64) float64 { return l + float64(k) }
	}
	panic("bad vegas float fn " + spec)
}

func genVegasFns(t *rapid.T, c *LimitCfg) {
	intFn := rapid.OneOf(rapid.Just(""), rapid.Just(""), rapid.Custom(func(t *rapid.T) string {
		if rapid.Bool().Draw(t, "const") {
			return fmt.Sprintf("k:%d", rapid.IntRange(0, 12).Draw(t, "k"))
		}
		return fmt.Sprintf("log:%d", rapid.IntRange(0, 8).Draw(t, "m"))
	}))
	floatFn := rapid.OneOf(rapid.Just(""), rapid.SampledFrom([]string{"half", "dbl", "zero", "same"}), rapid.Custom(func(t *rapid.T) string {
		return fmt.Sprintf("%s:%d", rapid.SampledFrom([]string{"sub", "add"}).Draw(t, "op"), rapid.IntRange(1, 40).Draw(t, "k"))
	}))
	c.VAlpha, c.VBeta, c.VThr = intFn.Draw(t, "valpha"), intFn.Draw(t, "vbeta"), intFn.Draw(t, "vthr")
	c.VInc, c.VDec = floatFn.Draw(t, "vinc"), floatFn.Draw(t, "vdec")
}

func scan(s, f string, p *int) bool { n, err := fmt.Sscanf(s, f, p); return err == nil && n == 1 }

// effectiveQueue returns the allowance function the algorithm will really use (library defaults applied).
func (c LimitCfg) effectiveQueue() func(int) int {
	if f := queueFunc(c.Queue); f != nil {
		return f
	}
	switch c.Algo {
	case "gradient":
		return functions.SqrtRootFunction(4)
	case "gradient2":
		return func(int) int { return 4 }
	}
	return func(int) int { return 0 }
}

type rttNoLoader interface{ RTTNoLoad() int64 }

// built is a constructed limit: Outer is what samples are fed to, Inner the algorithm itself.
// When wrappers are configured a recording pass-through (Tap) sits between them and the algorithm.
type built struct {
	Outer core.Limit
	Inner core.Limit
	Tap   *tapLimit
}

// tapLimit forwards everything to the wrapped limit and records the samples it was given.
type tapLimit struct {
	inner core.Limit
	Got   []Sample
}

func (t *tapLimit) EstimatedLimit() int                       { return t.inner.EstimatedLimit() }
func (t *tapLimit) NotifyOnChange(c core.LimitChangeListener) { t.inner.NotifyOnChange(c) }
func (t *tapLimit) OnSample(start, rtt int64, inf int, drop bool) {
	t.Got = append(t.Got, Sample{Start: start, RTT: rtt, Inf: inf, Drop: drop})
	t.inner.OnSample(start, rtt, inf, drop)
}

// buildLimit constructs the configured limit. The library's global jitter source is re-seeded
// first (harness go.mod has godebug randseednop=0), so construction + samples are reproducible.
func buildLimit(c LimitCfg, reg core.MetricRegistry) built {
	if reg == nil && c.WithRegistry {
		reg = newRecRegistry() // every component of the chain is built over a real (recording) registry and not over none
	}
	b, err := tryBuildLimit(c, reg)
	if err != nil {
		panic(err)
	}
	if c.Listener {
		b.Outer.NotifyOnChange(func(int) {})
	}
	return b
}

// tryBuildLimit is buildLimit for configurations whose effective values are partly the library's own
// defaults: the constructor may then reject the combination (e.g. a minimum above the default maximum).
func tryBuildLimit(c LimitCfg, reg core.MetricRegistry) (built, error) {
	rand.Seed(c.JitterSeed)
	var logger limit.Logger
	if c.AlgoDebug {
		logger = debugDiscardLogger{}
	}
	var inner core.Limit
	switch c.Algo {
	case "aimd":
		if c.Ctor == "default" {
			inner = limit.NewDefaultAIMDLimit("t", reg)
			break
		}
		inner = limit.NewAIMDLimit("t", c.Initial, c.Backoff, c.IncreaseBy, reg)
	case "vegas":
		if c.Ctor == "default" {
			inner = limit.NewDefaultVegasLimit("t", logger, reg)
			break
		}
		if c.Ctor == "default_limit" {
			inner = limit.NewDefaultVegasLimitWithLimit("t", c.Initial, logger, reg)
			break
		}
		var noLoad core.MeasurementInterface
		switch c.NoLoad {
		case "single":
			noLoad = &measurements.SingleMeasurement{}
		case "expavg":
			noLoad = measurements.NewExponentialAverageMeasurement(20, 3)
		case "minimum":
			noLoad = &measurements.MinimumMeasurement{} // the caller's own instance of what the library would have built itself
		case "percentile":
			m, err := measurements.NewWindowlessMovingPercentile(0.5, 1.0, 0.5, 0.5) // a caller's choice of baseline: a running median with large steps
			if err != nil {
				panic(err)
			}
			noLoad = m
		case "minimum-wrapped":
			noLoad = &wrappedMinimum{} // the same measurement behind a type of the caller's own (instrumentation, say)
		}
		inner = limit.NewVegasLimitWithRegistry("t", c.arg("initial", c.Initial), noLoad, c.arg("max", c.Max), c.argF("smoothing", c.Smoothing), vegasIntFn(c.VAlpha), vegasIntFn(c.VBeta), vegasIntFn(c.VThr), vegasFloatFn(c.VInc), vegasFloatFn(c.VDec), c.ProbeMult, logger, reg)
	case "gradient":
		inner = limit.NewGradientLimitWithRegistry("t", c.arg("initial", c.Initial), c.arg("min", c.Min), c.arg("max", c.Max), c.argF("smoothing", c.Smoothing), queueFunc(c.Queue), c.argF("tol", c.RTTTol), c.ProbeInterval, logger, reg)
	case "gradient2":
		if c.Ctor == "default" {
			inner = limit.NewDefaultGradient2Limit("t", logger, reg)
			break
		}
		g, err := limit.NewGradient2Limit("t", c.arg("initial", c.Initial), c.arg("max", c.Max), c.arg("min", c.Min), queueFunc(c.Queue), c.argF("smoothing", c.Smoothing), c.arg("lw", c.LongWindow), logger, reg)
		if err != nil {
			return built{}, err
		}
		inner = g
	case "settable":
		inner = limit.NewSettableLimit("t", c.Initial, reg)
	case "fixed":
		inner = limit.NewFixedLimit("t", c.Initial, reg)
	default:
		panic("algo " + c.Algo)
	}
	outer := inner
	var tap *tapLimit
	if c.Windowed || c.Traced {
		tap = &tapLimit{inner: inner}
		outer = tap
	}
	if c.Windowed {
		w, err := limit.NewWindowedLimit("w", c.WinMin, c.WinMax, c.WinSize, c.WinThreshold, outer, reg)
		if err != nil {
			panic(err)
		}
		outer = w
	}
	if c.Traced {
		if c.TraceDebug {
			outer = limit.NewTracedLimit(outer, debugDiscardLogger{})
		} else {
			outer = limit.NewTracedLimit(outer, limit.NoopLimitLogger{})
		}
	}
	switch c.Outer2 {
	case "windowed":
		w, err := limit.NewWindowedLimit("w2", c.Win2Min, c.Win2Max, c.Win2Size, c.Win2Threshold, outer, reg)
		if err != nil {
			panic(err)
		}
		outer = w
	case "traced":
		outer = limit.NewTracedLimit(outer, debugDiscardLogger{})
	}
	return built{Outer: outer, Inner: inner, Tap: tap}, nil
}

// debugDiscardLogger: a limit.Logger with debug output enabled; the formatted text is built and dropped.
// wrappedMinimum is a caller's measurement type with the meaning of the library's minimum (it delegates to one).
type wrappedMinimum struct {
	m measurements.MinimumMeasurement
}

func (w *wrappedMinimum) Add(v float64) (float64, bool)  { return w.m.Add(v) }
func (w *wrappedMinimum) Get() float64                   { return w.m.Get() }
func (w *wrappedMinimum) Reset()                         { w.m.Reset() }
func (w *wrappedMinimum) Update(f func(float64) float64) { w.m.Update(f) }

type debugDiscardLogger struct{}

func (debugDiscardLogger) Debugf(msg string, params ...interface{}) { _ = fmt.Sprintf(msg, params...) }
func (debugDiscardLogger) IsDebugEnabled() bool                     { return true }

func (b built) noLoad() (int64, bool) {
	if r, ok := b.Inner.(rttNoLoader); ok {
		return r.RTTNoLoad(), true
	}
	return 0, false
}

// floorOf / ceilOf: the bounds C04 states for the reported estimate.
func (c LimitCfg) floorOf() int {
	switch c.Algo {
	case "gradient", "gradient2":
		if c.known("min") {
			return c.Min
		}
	}
	return 1
}

// genTableEdge: limits around the sizes of the pre-computed sqrt / log10 tables (1000 entries) and around
// the powers of ten where the log10 steps change.
func genTableEdge() *rapid.Generator[int] {
	return rapid.SampledFrom([]int{9, 10, 11, 99, 100, 101, 998, 999, 1000, 1001, 1002, 1003, 1005, 1010, 1100, 2000})
}

func genSmoothing() *rapid.Generator[float64] {
	return rapid.OneOf(rapid.SampledFrom([]float64{1, 0.2, 0.5, 0.05, 0.9}), rapid.Float64Range(0.01, 1))
}

func genQueue(max int) *rapid.Generator[string] {
	return rapid.Custom(func(t *rapid.T) string {
		switch rapid.IntRange(0, 3).Draw(t, "qkind") {
		case 0:
			return ""
		case 1:
			return fmt.Sprintf("fixed:%d", rapid.IntRange(0, minInt(max, 50)).Draw(t, "qk"))
		case 2:
			// sqrt:k = max(k, sqrt(limit)); stays <= max when k <= max (sqrt(max) <= max)
			return fmt.Sprintf("sqrt:%d", rapid.IntRange(0, minInt(max, 20)).Draw(t, "qk"))
		default:
			// log10:k = k + max(1, log10(limit)) ; <= max needs k + 4 <= max for limits up to 10^4
			hi := max - 4
			if hi < 0 {
				return "fixed:1"
			}
			return fmt.Sprintf("log10:%d", rapid.IntRange(0, minInt(hi, 20)).Draw(t, "qk"))
		}
	})
}

func minInt(a, b int) int {
	if a < b {
		return a
	}
	return b
}
func maxInt(a, b int) int {
	if a > b {
		return a
	}
	return b
}

// genLimitCfg draws a valid configuration (as C04 lists validity) of one of the given algorithms.
func genLimitCfg(t *rapid.T, algos []string, allowWrappers bool) LimitCfg {
	c := LimitCfg{Algo: rapid.SampledFrom(algos).Draw(t, "algo"), JitterSeed: rapid.Int64Range(1, 1<<40).Draw(t, "jitter")}
	switch c.Algo {
	case "aimd":
		c.Initial = rapid.IntRange(1, 300).Draw(t, "initial")
		c.Backoff = rapid.OneOf(rapid.SampledFrom([]float64{0.9, 0.5, 1, 0.99, 0.1}), rapid.Float64Range(0.01, 1)).Draw(t, "backoff")
		c.IncreaseBy = rapid.IntRange(1, 50).Draw(t, "incr")
		if rapid.IntRange(0, 5).Draw(t, "noisyBackoff") == 0 && len(c03Noisy) > 0 {
			// a decimal back-off ratio and a limit whose product in IEEE double lies a hair below / above an integer
			// (100 x 0.29 = 28.999999999999996): the documented floor(limit x ratio) of that double is what counts
			np := c03Noisy[rapid.IntRange(0, len(c03Noisy)-1).Draw(t, "noisyPair")]
			c.Backoff, c.Initial = np.F, np.L
		}
	case "vegas":
		c.Max = rapid.OneOf(rapid.IntRange(1, 30), rapid.IntRange(1, 3000), genTableEdge(), rapid.SampledFrom([]int{1000, 1000, 1000, 200, 100})).Draw(t, "max") // (1000: the ceiling the library itself defaults to, where its pre-computed tables end)
		c.Initial = rapid.OneOf(rapid.IntRange(1, c.Max), rapid.IntRange(1, 3000), genTableEdge()).Draw(t, "initial")
		c.Smoothing = genSmoothing().Draw(t, "smoothing")
		c.ProbeMult = rapid.OneOf(rapid.Just(0), rapid.IntRange(1, 100)).Draw(t, "pm")
	case "gradient":
		c.Max = rapid.OneOf(rapid.IntRange(1, 30), rapid.IntRange(1, 3000), genTableEdge(), rapid.SampledFrom([]int{1000, 1000, 1000, 200, 100})).Draw(t, "max") // (1000: the ceiling the library itself defaults to, where its pre-computed tables end)
		c.Min = rapid.IntRange(1, minInt(c.Max, 40)).Draw(t, "min")
		c.Initial = rapid.OneOf(rapid.IntRange(c.Min, c.Max), rapid.IntRange(c.Min, 3000)).Draw(t, "initial")
		c.Smoothing = genSmoothing().Draw(t, "smoothing")
		c.RTTTol = rapid.SampledFrom([]float64{2, 1, 0, 1.5, 5, 0.5}).Draw(t, "tol")
		c.ProbeInterval = rapid.OneOf(rapid.SampledFrom([]int{-1, 0}), rapid.IntRange(1, 200)).Draw(t, "pi")
		c.Queue = genQueue(c.Max).Draw(t, "queue")
		if c.Queue == "" && c.Max < 32 {
			c.Queue = fmt.Sprintf("fixed:%d", minInt(4, c.Max)) // default sqrt:4 may exceed a tiny max
		}
	case "gradient2":
		c.Max = rapid.OneOf(rapid.IntRange(1, 30), rapid.IntRange(1, 3000), genTableEdge(), rapid.SampledFrom([]int{1000, 1000, 1000, 200, 100})).Draw(t, "max") // (1000: the ceiling the library itself defaults to, where its pre-computed tables end)
		c.Min = rapid.IntRange(1, minInt(c.Max, 40)).Draw(t, "min")
		c.Initial = rapid.OneOf(rapid.IntRange(c.Min, c.Max), rapid.IntRange(c.Min, 3000)).Draw(t, "initial")
		c.Smoothing = genSmoothing().Draw(t, "smoothing")
		c.LongWindow = rapid.OneOf(rapid.SampledFrom([]int{1, 2, 100, 600}), rapid.IntRange(1, 1000)).Draw(t, "lw")
		c.Queue = genQueue(c.Max).Draw(t, "queue")
		if c.Queue == "" && c.Max < 4 {
			c.Queue = "fixed:1"
		}
	case "settable", "fixed":
		c.Initial = rapid.IntRange(0, 300).Draw(t, "initial")
	}
	c.AlgoDebug = rapid.IntRange(0, 3).Draw(t, "algoDebug") == 0
	if allowWrappers {
		c.Windowed = rapid.IntRange(0, 3).Draw(t, "windowed") == 0
		c.Traced = rapid.IntRange(0, 3).Draw(t, "traced") == 0
		c.TraceDebug = c.Traced && rapid.Bool().Draw(t, "traceDebug")
		if c.Windowed {
			c.WinSize = int32(rapid.IntRange(10, 12).Draw(t, "wsize"))
			c.WinMin = int64(rapid.IntRange(100, 300).Draw(t, "wmin")) * 1e6
			c.WinMax = c.WinMin + int64(rapid.IntRange(0, 300).Draw(t, "wmaxd"))*1e6
			c.WinThreshold = rapid.SampledFrom([]int64{0, 1, 1000, 1e5}).Draw(t, "wthr")
		}
		if (c.Windowed || c.Traced) && rapid.IntRange(0, 2).Draw(t, "outer2") == 0 {
			// wrappers stacked on wrappers (a window over a window, a trace around a window around a trace, ...)
			c.Outer2 = rapid.SampledFrom([]string{"windowed", "windowed", "traced"}).Draw(t, "outer2kind")
			if c.Outer2 == "windowed" {
				c.Win2Size = int32(rapid.IntRange(10, 14).Draw(t, "w2size"))
				c.Win2Min = int64(rapid.IntRange(100, 300).Draw(t, "w2min")) * 1e6
				c.Win2Max = c.Win2Min + int64(rapid.IntRange(0, 300).Draw(t, "w2maxd"))*1e6
				c.Win2Threshold = rapid.SampledFrom([]int64{0, 1, 1000, 1e5}).Draw(t, "w2thr")
			}
		}
	}
	return c
}

// genRTT: the mixture C04 names: {0, 1, small, large, 2^62}.
func genRTT() *rapid.Generator[int64] {
	return rapid.OneOf(
		rapid.SampledFrom([]int64{0, 1, 1, 2, 1 << 62}),
		rapid.Int64Range(1, 1000),
		rapid.Int64Range(1, 1000),
		rapid.Int64Range(100_000, 10_000_000_000),
		// whole seconds and more, a few nanoseconds apart (relative differences of 1e-9 and less)
		rapid.Map(rapid.Int64Range(0, 4), func(i int64) int64 { return 4_000_000_000 - i }),
	)
}

func genSamples(t *rapid.T, c LimitCfg, maxN int) []Sample {
	dropPct := rapid.SampledFrom([]int{0, 5, 30, 100}).Draw(t, "droppct")
	startsOutOfOrder := !c.Windowed && c.Outer2 != "windowed" && rapid.Bool().Draw(t, "startsOutOfOrder")
	one := rapid.Custom(func(t *rapid.T) Sample {
		s := Sample{RTT: genRTT().Draw(t, "rtt")}
		switch rapid.IntRange(0, 6).Draw(t, "infk") {
		case 0:
			s.Inf = 0
		case 1:
			s.Inf = 1
		case 2:
			s.Rel = "half"
		case 3:
			s.Rel = "eq"
		case 4:
			s.Rel = "dbl"
		case 5:
			s.Inf = rapid.IntRange(0, 4000).Draw(t, "inf")
		default:
			s.Inf = math.MaxInt32
		}
		s.Drop = rapid.IntRange(0, 99).Draw(t, "drop") < dropPct
		if c.Windowed || c.Outer2 == "windowed" {
			s.Start = rapid.Int64Range(0, 200_000_000).Draw(t, "dt") // made cumulative below
		} else if startsOutOfOrder {
			// completions are reported in any order relative to when their requests started
			s.Start = rapid.OneOf(rapid.Int64Range(0, 1<<40), rapid.Int64Range(0, 1<<40), rapid.SampledFrom([]int64{-1, -1, math.MinInt64})).Draw(t, "start") // (-1: "no start time", as the library's own callers write it)
		}
		return s
	})
	lo := 1
	if maxN >= 8 {
		lo = minInt(rapid.SampledFrom([]int{1, 1, 8, 30, 100}).Draw(t, "minlen"), maxN)
	}
	out := rapid.SliceOfN(one, lo, maxN).Draw(t, "samples")
	if maxN >= 8 {
		// whole-list shapes that a sample-by-sample mixture practically never produces (fed several times over by the
		// callers that repeat their lists, they become runs of thousands):
		switch rapid.IntRange(0, 15).Draw(t, "shape") {
		case 0: // a quiet service: every sample idle and drop-free
			for i := range out {
				out[i].Drop, out[i].Rel, out[i].Inf = false, "third", 0
				if i%2 == 1 {
					out[i].Rel = ""
				}
			}
		case 1: // a healthy saturated service at one constant RTT, then a single drop at the very end
			r := rapid.OneOf(rapid.Int64Range(1, 1000), rapid.Int64Range(100_000, 50_000_000)).Draw(t, "healthyRTT")
			for i := range out {
				out[i].Drop, out[i].Rel, out[i].RTT = false, "dbl", r
			}
			out[len(out)-1].Drop = true
			if rapid.Bool().Draw(t, "slowDrop") {
				out[len(out)-1].RTT = r * 10
			}
		case 2: // the far end of the RTT domain: a few completions at 2^62 ns (their sum does not fit an int64), then nothing but drops
			k := rapid.IntRange(2, 5).Draw(t, "hugeHead")
			for i := range out {
				out[i].RTT = 1<<62 - int64(i%2)
				out[i].Drop = i >= k
			}
		}
	}
	if c.Windowed || c.Outer2 == "windowed" {
		start := int64(0)
		for i := range out {
			start += out[i].Start
			out[i].Start = start
		}
	}
	return out
}
