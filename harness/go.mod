module verifharness

go 1.26.8

godebug randseednop=0

require (
	github.com/anishathalye/porcupine v1.3.0
	github.com/platinummonkey/go-concurrency-limits v0.0.0
	pgregory.net/rapid v1.3.0
)

replace github.com/platinummonkey/go-concurrency-limits => /repo
