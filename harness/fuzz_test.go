package harness

// Native coverage-guided fuzz targets (thorough tier only). The fuzzer's bytes drive the same rapid
// generators as the property tests (rapid.MakeFuzz), and the same oracle runs inside the target.
// A failing input is saved by the Go fuzzer under testdata/fuzz/<target>/ and, as the harness's
// own JSON replay file, under replays/found/<ID>/.

import (
	"testing"

	"pgregory.net/rapid"

	"verifharness/kit"
)

func fuzzProp[C any](f *testing.F, id string, gen func(*rapid.T) C, run func(*testing.T, C) kit.Outcome) {
	f.Fuzz(rapid.MakeFuzz(func(t *rapid.T) {
		c := gen(t)
		out := run(nil, c)
		if out.Violation != "" {
			path := kit.SaveFound(id, f.Name(), c, out)
			t.Fatalf("VERIF-VIOLATION property=%s sig=%s replay=%s :: %s", id, out.Sig, path, out.Violation)
		}
	}))
}

func FuzzC04_samples(f *testing.F) { fuzzProp(f, "C04", genC04, runC04) }
func FuzzC18_ops(f *testing.F)     { fuzzProp(f, "C18", genC18, runC18) }
func FuzzC03_model(f *testing.F)   { fuzzProp(f, "C03", genC03, runC03) }
func FuzzC06_loss(f *testing.F)    { fuzzProp(f, "C06", genC06, runC06) }
func FuzzC14_calls(f *testing.F)   { fuzzProp(f, "C14", genC14, runC14) }
