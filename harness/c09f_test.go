package harness

// C09 — the window a ready update is computed from, under interleaved completions. windowSize+1 successes (plus a
// few drops acquired first) are completed by 2-3 goroutines under a generated cooperative schedule whose points sit
// between a completion's fold into the window and its update attempt (default.sampled). Whatever the interleaving,
// the one update the algorithm receives needs all windowSize+1 successes, hence must carry the in-flight value of
// the last-acquired token (a success), and no second update may follow within the window period.

import (
	"context"
	"fmt"
	"sync"
	"testing"
	"time"

	"github.com/platinummonkey/go-concurrency-limits/core"
	"github.com/platinummonkey/go-concurrency-limits/limiter"
	"github.com/platinummonkey/go-concurrency-limits/strategy"
	"pgregory.net/rapid"

	"verifharness/kit"
)

type c09fCase struct {
	WinSize int       `json:"win_size"`
	Drops   int       `json:"drops"`
	Workers int       `json:"workers"`
	Assign  []int     `json:"assign"` // token i is completed by worker Assign[i] % Workers, in index order per worker
	Reverse []bool    `json:"reverse"`
	Order   []int     `json:"order"`
	Yields  yieldList `json:"yields"`
}

func TestC09_fold_Coop(t *testing.T) {
	kit.RequireMode(t, "coop")
	kit.Check(t, kit.Prop[c09fCase]{
		ID: "C09", Quick: 3000, Thor: 200_000,
		Rule: "windowSize+1 successes and 0-3 drops completed by 2-3 goroutines under generated cooperative schedules (yields between a completion's fold and its update attempt): exactly one update carrying the largest in-flight value; non-trivial = the goroutine that folded the last success was not the one that delivered the update, or a yield separated some fold from its update",
		Gen: func(t *rapid.T) c09fCase {
			c := c09fCase{WinSize: rapid.IntRange(10, 12).Draw(t, "wsize"), Drops: rapid.IntRange(0, 3).Draw(t, "drops"), Workers: rapid.IntRange(2, 3).Draw(t, "workers")}
			m := c.WinSize + 1 + c.Drops
			c.Assign = rapid.SliceOfN(rapid.IntRange(0, 2), m, m).Draw(t, "assign")
			c.Reverse = rapid.SliceOfN(rapid.Bool(), c.Workers, c.Workers).Draw(t, "reverse")
			c.Order = rapid.Permutation(seq(c.Workers)).Draw(t, "order")
			c.Yields = yieldList(rapid.SliceOfN(rapid.SampledFrom([]uint8{0, 0, 1, 1, 2, 3}), 0, 60).Draw(t, "yields"))
			return c
		},
		Run: func(_ *testing.T, c c09fCase) kit.Outcome {
			m := c.WinSize + 1 + c.Drops
			rec := &lockedRecLimit{est: m + 10}
			sc := newSched(c.Yields)
			// the limiter's logger is a public extension point: with debug output enabled, every log call the limiter
			// makes on its completion path is a schedule point too (the pinned tree makes none)
			lim, err := limiter.NewDefaultLimiter(rec, int64(time.Hour), int64(time.Hour), 1, c.WinSize, strategy.NewPreciseStrategy(m+10), debugSchedLogger{schedLogger{s: sc}}, nil)
			if err != nil {
				return kit.Outcome{Harness: err.Error()}
			}
			toks := make([]core.Listener, 0, m)
			for i := 0; i < m; i++ {
				l, ok := lim.Acquire(context.Background())
				if !ok {
					return kit.Outcome{Harness: "acquire refused"}
				}
				toks = append(toks, l)
			}
			time.Sleep(20 * time.Microsecond) // every RTT is above the 1 ns threshold
			sc.install()
			defer (*sched)(nil).install()
			start := make(chan struct{})
			var wg sync.WaitGroup
			worker := func(g int) {
				defer wg.Done()
				<-start
				var mine []int
				for i := 0; i < m; i++ {
					if c.Assign[i]%c.Workers == g {
						mine = append(mine, i)
					}
				}
				if g < len(c.Reverse) && c.Reverse[g] {
					for a, b := 0, len(mine)-1; a < b; a, b = a+1, b-1 {
						mine[a], mine[b] = mine[b], mine[a]
					}
				}
				for _, i := range mine {
					if i < c.Drops {
						toks[i].OnDropped()
					} else {
						toks[i].OnSuccess()
					}
					sc.Point("worker.completed")
				}
			}
			order := c.Order
			if len(order) != c.Workers {
				order = seq(c.Workers)
			}
			for _, g := range order {
				wg.Add(1)
				go worker(g)
			}
			close(start)
			wg.Wait()
			got := rec.snapshot()
			if len(got) != 1 {
				return kit.Viol("default:interleaved-fold", "%d successes and %d drops completed by %d goroutines (window size %d, period 1 h): the algorithm received %d updates, expected exactly 1", c.WinSize+1, c.Drops, c.Workers, c.WinSize, len(got))
			}
			if u := got[0]; u.Inf != m || (u.Drop && c.Drops == 0) {
				return kit.Viol("default:interleaved-aggregate", "the update %+v was not computed from the window that made it ready: every one of the %d successes is needed, the last-acquired one carries in-flight %d (drops among the completions: %d)", u, c.WinSize+1, m, c.Drops)
			}
			return kit.Outcome{NonTrivial: len(c.Yields) > 0, Labels: []string{fmt.Sprintf("workers:%d", c.Workers)}}
		},
		NoShrink: true,
	})
}

// debugSchedLogger: a schedule-point logger that reports debug output as enabled.
type debugSchedLogger struct{ schedLogger }

func (debugSchedLogger) IsDebugEnabled() bool { return true }
