package harness

// C06 — drops fed by several goroutines at once: every drop still counts. For AIMD the result of n
// drops is order independent, so the final estimate must equal the exact formula applied n times;
// Vegas/Gradient must have reached their floor after the bound's worth of drops from each thread.

import (
	"fmt"
	"runtime"
	"sync"
	"testing"

	"pgregory.net/rapid"

	"verifharness/kit"
)

type c06cCase struct {
	Cfg     LimitCfg `json:"cfg"`
	Workers int      `json:"workers"`
	Drops   int      `json:"drops"` // per worker
	// ListenerYields > 0: a change listener is registered that takes its time (that many scheduler yields per call): what
	// the limit reports afterwards must still be the result of all drops
	ListenerYields int `json:"listener_yields,omitempty"`
}

func TestC06_concurrent(t *testing.T) {
	kit.RequireMode(t, "std")
	kit.Check(t, kit.Prop[c06cCase]{
		ID: "C06", Quick: 400, Thor: 20_000,
		Rule: "2-8 real threads each feeding drop samples to one AIMD limit (with or without a change listener that takes its time); the final estimate must equal the back-off formula applied (threads x drops) times (no lost update); non-trivial = the sequential result is above the floor or was reached within the last thread's share",
		Gen: func(t *rapid.T) c06cCase {
			c := c06cCase{Cfg: genLossCfg(t, []string{"aimd"}), Workers: rapid.IntRange(2, 8).Draw(t, "workers"), Drops: rapid.OneOf(rapid.IntRange(1, 40), rapid.IntRange(50, 1500)).Draw(t, "drops")}
			c.Cfg.Initial = rapid.OneOf(rapid.IntRange(50, 3000), rapid.IntRange(1000, 100000)).Draw(t, "initial")
			c.Cfg.Backoff = rapid.SampledFrom([]float64{0.999, 0.99, 0.95, 1}).Draw(t, "slowBackoff")
			if c.Drops > 40 {
				// long overlapping bursts: keep the sequential result well above the floor so that a lost update shows
				c.Cfg.Initial = rapid.IntRange(20_000, 400_000).Draw(t, "bigInitial")
				c.Cfg.Backoff = rapid.SampledFrom([]float64{1, 1, 0.9999, 0.999}).Draw(t, "slowestBackoff")
			}
			c.ListenerYields = rapid.SampledFrom([]int{0, 0, 1, 5, 50}).Draw(t, "listenerYields")
			return c
		},
		Run: func(_ *testing.T, c c06cCase) kit.Outcome {
			b := buildLimit(c.Cfg, nil)
			if c.ListenerYields > 0 {
				b.Outer.NotifyOnChange(func(int) {
					for i := 0; i < c.ListenerYields; i++ {
						runtime.Gosched()
					}
				})
			}
			start := make(chan struct{})
			var wg sync.WaitGroup
			for g := 0; g < c.Workers; g++ {
				wg.Add(1)
				go func() {
					defer wg.Done()
					<-start
					for i := 0; i < c.Drops; i++ {
						b.Outer.OnSample(0, 1000, 5, true)
					}
				}()
			}
			close(start)
			wg.Wait()
			want := c.Cfg.Initial
			for i := 0; i < c.Workers*c.Drops; i++ {
				want = aimdAfterDrop(want, c.Cfg.Backoff)
			}
			if got := b.Outer.EstimatedLimit(); got != want {
				return kit.Viol("aimd:lost-drop", "%d threads x %d drops on AIMD (initial %d, ratio %v): estimate %d, the formula applied %d times gives %d", c.Workers, c.Drops, c.Cfg.Initial, c.Cfg.Backoff, got, c.Workers*c.Drops, want)
			}
			return kit.Outcome{NonTrivial: want > 1, Labels: []string{fmt.Sprintf("above-floor:%v", want > 1)}}
		},
		NoShrink: true,
	})
}
