package harness

// C06 — drops fed by several goroutines at once: every drop still counts. For AIMD the result of n
// drops is order independent, so the final estimate must equal the exact formula applied n times;
// Vegas/Gradient must have reached their floor after the bound's worth of drops from each thread.

import (
	"fmt"
	"runtime"
	"sync"
	"sync/atomic"
	"testing"

	"pgregory.net/rapid"

	"verifharness/kit"
)

type c06cCase struct {
	Cfg     LimitCfg `json:"cfg"`
	Workers int      `json:"workers"`
	Drops   int      `json:"drops"` // per worker
	// ListenerYields > 0: a change listener is registered that takes its time (that many scheduler yields per call): what
	// the limit reports afterwards must still be the result of all drops
	ListenerYields int `json:"listener_yields,omitempty"`
}

func TestC06_concurrent(t *testing.T) {
	kit.RequireMode(t, "std")
	kit.Check(t, kit.Prop[c06cCase]{
		ID: "C06", Quick: 400, Thor: 20_000,
		Rule: "2-8 real threads each feeding drop samples to one AIMD limit (with or without a change listener that takes its time); no thread ever sees the estimate rise, and the final estimate must equal the back-off formula applied (threads x drops) times (no lost update); non-trivial = the sequential result is above the floor or was reached within the last thread's share",
		Gen: func(t *rapid.T) c06cCase {
			c := c06cCase{Cfg: genLossCfg(t, []string{"aimd"}), Workers: rapid.IntRange(2, 8).Draw(t, "workers"), Drops: rapid.OneOf(rapid.IntRange(1, 40), rapid.IntRange(50, 1500)).Draw(t, "drops")}
			c.Cfg.Initial = rapid.OneOf(rapid.IntRange(50, 3000), rapid.IntRange(1000, 100000)).Draw(t, "initial")
			c.Cfg.Backoff = rapid.SampledFrom([]float64{0.999, 0.99, 0.95, 1}).Draw(t, "slowBackoff")
			if c.Drops > 40 {
				// long overlapping bursts: keep the sequential result well above the floor so that a lost update shows
				c.Cfg.Initial = rapid.IntRange(20_000, 400_000).Draw(t, "bigInitial")
				c.Cfg.Backoff = rapid.SampledFrom([]float64{1, 1, 0.9999, 0.999}).Draw(t, "slowestBackoff")
			}
			c.ListenerYields = rapid.SampledFrom([]int{0, 0, 1, 5, 50, 50, 200}).Draw(t, "listenerYields")
			return c
		},
		Run: func(_ *testing.T, c c06cCase) kit.Outcome {
			b := buildLimit(c.Cfg, nil)
			if c.ListenerYields > 0 {
				b.Outer.NotifyOnChange(func(int) {
					for i := 0; i < c.ListenerYields; i++ {
						runtime.Gosched()
					}
				})
			}
			start := make(chan struct{})
			var wg sync.WaitGroup
			var rose atomic.Int64
			for g := 0; g < c.Workers; g++ {
				wg.Add(1)
				go func() {
					defer wg.Done()
					<-start
					last := b.Outer.EstimatedLimit()
					for i := 0; i < c.Drops; i++ {
						b.Outer.OnSample(0, 1000, 5, true)
						// nothing but drops is going on: whoever looks twice never sees the estimate go up
						if now := b.Outer.EstimatedLimit(); now > last {
							rose.Store(int64(last)<<32 | int64(now))
						} else {
							last = now
						}
					}
				}()
			}
			close(start)
			wg.Wait()
			if v := rose.Load(); v != 0 {
				return kit.Viol("aimd:drop-raised", "%d threads feeding nothing but drops to AIMD (initial %d, ratio %v): a thread that had read the estimate %d read %d after a further drop of its own had completed", c.Workers, c.Cfg.Initial, c.Cfg.Backoff, v>>32, v&0xffffffff)
			}
			want := c.Cfg.Initial
			for i := 0; i < c.Workers*c.Drops; i++ {
				want = aimdAfterDrop(want, c.Cfg.Backoff)
			}
			if got := b.Outer.EstimatedLimit(); got != want {
				return kit.Viol("aimd:lost-drop", "%d threads x %d drops on AIMD (initial %d, ratio %v): estimate %d, the formula applied %d times gives %d", c.Workers, c.Drops, c.Cfg.Initial, c.Cfg.Backoff, got, c.Workers*c.Drops, want)
			}
			return kit.Outcome{NonTrivial: want > 1, Labels: []string{fmt.Sprintf("above-floor:%v", want > 1)}}
		},
		NoShrink: true,
	})
}
