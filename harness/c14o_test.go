package harness

// C14 — RecvMsg and SendMsg of one wrapped stream running at the same time (gRPC allows one goroutine
// in each): every acquired token must still be completed exactly once, on its own limiter.

import (
	"context"
	"errors"
	"fmt"
	"strings"
	"sync"
	"testing"
	"time"

	"github.com/platinummonkey/go-concurrency-limits/core"
	gcl "github.com/platinummonkey/go-concurrency-limits/grpc"
	"google.golang.org/grpc"
	"google.golang.org/grpc/metadata"
	"pgregory.net/rapid"

	"verifharness/kit"
)

type c14oCase struct {
	Rounds   int  `json:"rounds"`
	RecvErr  bool `json:"recv_err"`
	SendErr  bool `json:"send_err"`
	Classify int  `json:"classify"`
	Custom   bool `json:"custom_classifier"`
}

type overlapStream struct {
	mu          sync.Mutex
	log         *c14Log
	recvStarted chan struct{}
	sendStarted chan struct{}
	recvErr     error
	sendErr     error
}

func (s *overlapStream) SetHeader(metadata.MD) error  { return nil }
func (s *overlapStream) SendHeader(metadata.MD) error { return nil }
func (s *overlapStream) SetTrailer(metadata.MD)       {}
func (s *overlapStream) Context() context.Context     { return context.Background() }
func (s *overlapStream) RecvMsg(m any) error {
	close(s.recvStarted)
	select {
	case <-s.sendStarted:
	case <-time.After(20 * time.Second):
	}
	return s.recvErr
}
func (s *overlapStream) SendMsg(m any) error {
	close(s.sendStarted)
	select {
	case <-s.recvStarted:
	case <-time.After(20 * time.Second):
	}
	return s.sendErr
}

func runC14O(_ *testing.T, c c14oCase) kit.Outcome {
	var mu sync.Mutex
	log := &c14Log{}
	add := func(f string, a ...any) {
		mu.Lock()
		log.ev = append(log.ev, fmt.Sprintf(f, a...))
		mu.Unlock()
	}
	grant := true
	mk := func(name string) *c14LimiterSync {
		return &c14LimiterSync{name: name, add: add, grant: &grant}
	}
	recvL, sendL := mk("recv"), mk("send")
	opts := []gcl.StreamInterceptorOption{gcl.WithStreamRecvLimiter(recvL), gcl.WithStreamSendLimiter(sendL)}
	if c.Custom {
		cl := func(ctx context.Context, req interface{}, info *grpc.StreamServerInfo, err error) gcl.ResponseType {
			return gcl.ResponseType(c.Classify)
		}
		opts = append(opts, gcl.WithStreamServerResponseTypeClassifier(cl), gcl.WithStreamClientResponseTypeClassifier(cl))
	}
	icpt := gcl.StreamServerInterceptor(opts...)
	for round := 0; round < c.Rounds; round++ {
		inner := &overlapStream{recvStarted: make(chan struct{}), sendStarted: make(chan struct{})}
		if c.RecvErr {
			inner.recvErr = errors.New("recv failed")
		}
		if c.SendErr {
			inner.sendErr = errors.New("send failed")
		}
		mu.Lock()
		mark := len(log.ev)
		mu.Unlock()
		_ = icpt(nil, inner, &grpc.StreamServerInfo{FullMethod: "/svc/S"}, func(srv interface{}, ss grpc.ServerStream) error {
			var wg sync.WaitGroup
			wg.Add(2)
			go func() { defer wg.Done(); _ = ss.RecvMsg("m") }()
			go func() { defer wg.Done(); _ = ss.SendMsg("m") }()
			wg.Wait()
			return nil
		})
		mu.Lock()
		ev := append([]string(nil), log.ev[mark:]...)
		mu.Unlock()
		for _, name := range []string{"recv", "send"} {
			acq, done := 0, 0
			outcome := ""
			for _, e := range ev {
				if strings.HasPrefix(e, "acquire("+name+")") {
					acq++
				}
				if strings.Contains(e, "("+name+".token") {
					done++
					outcome = e[:strings.Index(e, "(")]
				}
			}
			if acq != 1 || done != 1 {
				return kit.Viol("stream:overlap-token", "round %d: RecvMsg and SendMsg ran at the same time on one stream: the %s limiter saw %d acquire(s) and %d completion(s) (every token must be completed exactly once on its own limiter); events %v", round, name, acq, done, ev)
			}
			want := "success"
			failed := (name == "recv" && c.RecvErr) || (name == "send" && c.SendErr)
			if failed {
				want = "dropped"
				if c.Custom {
					want = c14Outcome[c.Classify]
				}
			}
			if outcome != want {
				return kit.Viol("stream:overlap-outcome", "round %d: %s token completed with %s, expected %s; events %v", round, name, outcome, want, ev)
			}
		}
	}
	return kit.Outcome{NonTrivial: c.RecvErr != c.SendErr || c.Custom, Labels: []string{fmt.Sprintf("custom:%v", c.Custom)}}
}

// c14LimiterSync is the recording limiter with a shared, locked log (the calls overlap here).
type c14LimiterSync struct {
	name  string
	add   func(string, ...any)
	grant *bool
	mu    sync.Mutex
	n     int
}

type c14TokenSync struct {
	lim *c14LimiterSync
	id  int
}

func (l *c14LimiterSync) Acquire(ctx context.Context) (core.Listener, bool) {
	l.mu.Lock()
	l.n++
	id := l.n
	l.mu.Unlock()
	l.add("acquire(%s)=token%d", l.name, id)
	return &c14TokenSync{l, id}, true
}
func (k *c14TokenSync) OnSuccess() { k.lim.add("success(%s.token%d)", k.lim.name, k.id) }
func (k *c14TokenSync) OnIgnore()  { k.lim.add("ignore(%s.token%d)", k.lim.name, k.id) }
func (k *c14TokenSync) OnDropped() { k.lim.add("dropped(%s.token%d)", k.lim.name, k.id) }

func TestC14_stream_overlap(t *testing.T) {
	kit.RequireMode(t, "std")
	kit.Check(t, kit.Prop[c14oCase]{
		ID: "C14", Quick: 300, Thor: 20_000,
		Rule: "one wrapped server stream whose RecvMsg and SendMsg are forced to overlap (each inner call waits until the other has started), with generated errors and classifier answers: each limiter sees exactly one acquire and one completion per call with the right outcome; non-trivial = the two directions differ in result or a custom classifier is used",
		Gen: func(t *rapid.T) c14oCase {
			return c14oCase{Rounds: rapid.IntRange(1, 3).Draw(t, "rounds"), RecvErr: rapid.Bool().Draw(t, "recvErr"), SendErr: rapid.Bool().Draw(t, "sendErr"),
				Classify: rapid.IntRange(0, 2).Draw(t, "classify"), Custom: rapid.Bool().Draw(t, "custom")}
		},
		Run: runC14O,
	})
}
