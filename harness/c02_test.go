package harness

// C02 — capacity conservation: each grant returns exactly one unit, failures hold none.

import (
	"fmt"
	"github.com/platinummonkey/go-concurrency-limits/core"
	"testing"
	"testing/synctest"
	"time"

	"pgregory.net/rapid"

	"verifharness/kit"
)

type c02Ev struct {
	K       string  `json:"k"` // arrive | complete | cancel | sleep | burst | mass (N arrivals at one instant)
	N       int     `json:"n,omitempty"`
	Key     string  `json:"key,omitempty"`
	Hold    int     `json:"hold,omitempty"` // arrive: >0 = the caller completes by itself that many ms after the grant
	Outcome int     `json:"outcome,omitempty"`
	Idx     int     `json:"idx,omitempty"`
	Async   bool    `json:"async,omitempty"` // complete/cancel in its own goroutine
	D       int     `json:"d,omitempty"`     // sleep: virtual ms
	Acts    []c02Ev `json:"acts,omitempty"`  // burst: actions released at one instant, in this spawn order
}

type c02Case struct {
	Stack  StackCfg  `json:"stack"`
	Evs    []c02Ev   `json:"evs"`
	Yields yieldList `json:"yields,omitempty"`
}

func genStackCfg(t *rapid.T, kinds []string, coop bool) StackCfg {
	c := StackCfg{Kind: rapid.SampledFrom(kinds).Draw(t, "kind")}
	c.Limit = rapid.IntRange(1, 4).Draw(t, "limit")
	c.Strategy = rapid.SampledFrom([]string{"simple", "precise", "lookup", "predicate"}).Draw(t, "strategy")
	c.Inject = coop
	c.FmtLog = rapid.IntRange(0, 3).Draw(t, "fmtLog") == 0
	c.SlowMetrics = coop && rapid.IntRange(0, 2).Draw(t, "slowMetrics") == 0
	switch c.Kind {
	case "blocking":
		c.TimeoutMs = rapid.SampledFrom([]int{0, 0, 5, 20, 50}).Draw(t, "timeout")
	case "deadline":
		c.DeadlineMs = rapid.SampledFrom([]int{0, 10, 30, 60, 200}).Draw(t, "deadline")
	case "queue":
		c.Ordering = rapid.SampledFrom([]string{"fifo", "lifo", ""}).Draw(t, "ordering")
		c.Backlog = rapid.IntRange(1, 4).Draw(t, "backlog")
		c.TimeoutMs = rapid.SampledFrom([]int{1, 5, 20, 50, 0}).Draw(t, "timeout")
		c.Evict = rapid.Bool().Draw(t, "evict")
	case "fifo-dep", "lifo-dep":
		c.Backlog = rapid.IntRange(1, 4).Draw(t, "backlog")
		c.TimeoutMs = rapid.SampledFrom([]int{1, 5, 20, 50}).Draw(t, "timeout")
		c.Defaults = rapid.IntRange(0, 5).Draw(t, "defaults") == 0
	case "pool", "fixedpool":
		c.Ordering = rapid.SampledFrom([]string{"random", "fifo", "lifo"}).Draw(t, "ordering")
		c.Backlog = rapid.IntRange(1, 4).Draw(t, "backlog")
		c.TimeoutMs = rapid.SampledFrom([]int{5, 20, 50}).Draw(t, "timeout")
		if c.Kind == "fixedpool" {
			c.Strategy = ""
		}
	}
	return c
}

func genC02Ev(depth int) *rapid.Generator[c02Ev] {
	return rapid.Custom(func(t *rapid.T) c02Ev {
		k := rapid.IntRange(0, 19).Draw(t, "k")
		switch {
		case k < 8:
			e := c02Ev{K: "arrive", Key: rapid.SampledFrom([]string{"a", "a", "b", "zz"}).Draw(t, "key"), Outcome: rapid.IntRange(0, 2).Draw(t, "outcome")}
			if rapid.IntRange(0, 2).Draw(t, "self") == 0 {
				e.Hold = rapid.SampledFrom([]int{1, 5, 20, 50, 7}).Draw(t, "hold")
			}
			return e
		case k < 13:
			return c02Ev{K: "complete", Idx: rapid.IntRange(0, 100).Draw(t, "idx"), Outcome: rapid.IntRange(0, 2).Draw(t, "outcome"), Async: rapid.Bool().Draw(t, "async")}
		case k < 15:
			return c02Ev{K: "cancel", Idx: rapid.IntRange(0, 100).Draw(t, "idx")}
		case k < 17 || depth > 0:
			return c02Ev{K: "sleep", D: rapid.SampledFrom([]int{1, 4, 5, 15, 20, 30, 50, 1000}).Draw(t, "d")}
		default:
			return c02Ev{K: "burst", Acts: rapid.SliceOfN(genC02Ev(depth+1), 2, 4).Draw(t, "acts")}
		}
	})
}

func genC02(kinds []string, coop bool) func(t *rapid.T) c02Case {
	return func(t *rapid.T) c02Case {
		c := c02Case{Stack: genStackCfg(t, kinds, coop)}
		c.Evs = rapid.SliceOfN(genC02Ev(0), 1, 40).Draw(t, "evs")
		if coop {
			c.Yields = yieldList(rapid.SliceOfN(rapid.SampledFrom([]uint8{0, 0, 1, 1, 2, 3}), 0, 40).Draw(t, "yields"))
		}
		return c
	}
}

var c02Kinds = []string{"default", "blocking", "deadline", "queue", "queue", "fifo-dep", "lifo-dep", "pool", "fixedpool"}

func runC02(t *testing.T, c c02Case) kit.Outcome {
	return bubble(t, func() kit.Outcome { return runC02InBubble(c) })
}

func runC02InBubble(c c02Case) (out kit.Outcome) {
	t0 := time.Now()
	var sc *sched
	if len(c.Yields) > 0 || c.Stack.Inject {
		sc = newSched(c.Yields)
	}
	st, err := buildStack(c.Stack, nil, sc, t0)
	if err != nil {
		return kit.Outcome{Harness: "stack: " + err.Error()}
	}
	sc.install()
	defer (*sched)(nil).install()
	w := newWorld(st, t0)
	kind := c.Stack.Kind

	check := func(when string) *kit.Outcome {
		synctest.Wait()
		n, perKey := w.outstanding()
		for _, cl := range w.snapshot() {
			if cl.Done && (cl.L != nil) != cl.OK {
				o := kit.Viol(kind+":listener-iff-ok", "%s: caller %d returned listener=%v ok=%v", when, cl.ID, cl.L != nil, cl.OK)
				return &o
			}
		}
		if st.def != nil {
			if b := st.busy(); b != n {
				o := kit.Viol(kind+":strategy-busy", "%s: strategy busy=%d but %d granted tokens are outstanding", when, b, n)
				return &o
			}
			if g := int(st.def.VerifInFlight()); g != n {
				o := kit.Viol(kind+":limiter-gauge", "%s: limiter in-flight gauge=%d but %d granted tokens are outstanding", when, g, n)
				return &o
			}
			if st.partitioned() {
				for i, name := range st.binNames {
					if bb := st.binBusy(i); bb != perKey[name] {
						o := kit.Viol(kind+":bin-busy", "%s: bin %q busy=%d but %d of its tokens are outstanding", when, name, bb, perKey[name])
						return &o
					}
				}
			}
		}
		return nil
	}

	x := &evExec{w: w}
	doEv := x.do
	for i, e := range c.Evs {
		doEv(e, false)
		if o := check(fmt.Sprintf("after event %d (%s)", i, e.K)); o != nil {
			w.unwind(2 * time.Second)
			w.flush()
			return *o
		}
	}
	// ---- end of case: complete everything, unwind, then the zero state ----------------------
	maxWait := c.Stack.effTimeout() + time.Duration(c.Stack.DeadlineMs)*time.Millisecond + 1100*time.Millisecond
	if msg := w.unwind(maxWait); msg != "" {
		return kit.Viol(kind+":stuck", "%s", msg)
	}
	if kind != "default" {
		w.flush()
	}
	for _, cl := range w.snapshot() {
		if cl.Done && !cl.OK && cl.RetAt > cl.Arrived {
			x.gaveUp = true
		}
	}
	completedWhileBlocked, gaveUp, coincide := x.completedWhileBlocked, x.gaveUp, x.coincide
	if o := check("at the end"); o != nil {
		return *o
	}
	if st.def != nil {
		if b := st.busy(); b != 0 {
			return kit.Viol(kind+":end-busy", "after every granted listener completed: strategy busy=%d", b)
		}
		if st.queue != nil {
			if n := st.queue.VerifBacklogLen(); n != 0 {
				return kit.Viol(kind+":end-backlog", "after every caller returned: backlog holds %d elements", n)
			}
		}
		if v, ok := st.reg.gauge(core.MetricQueueSize, ""); ok && v != 0 {
			return kit.Viol(kind+":end-backlog", "after every caller returned: queue_size gauge reports %v", v)
		}
		if st.partitioned() {
			// after quiescence the stack must admit exactly like a freshly built one
			fresh, err := buildStack(c.Stack, nil, nil, t0)
			if err != nil {
				return kit.Outcome{Harness: "fresh stack: " + err.Error()}
			}
			probe := []string{}
			for i := 0; i < 2*c.Stack.Limit; i++ {
				probe = append(probe, "a")
			}
			probe = append(probe, "zz", "b", "zz", "a", "b", "b", "zz")
			var got1, got2 []interface{ OnIgnore() }
			diff := ""
			for i, k := range probe {
				l1, ok1 := st.def.Acquire(stackKeyCtx(t0ctx(), k))
				l2, ok2 := fresh.def.Acquire(stackKeyCtx(t0ctx(), k))
				if ok1 {
					got1 = append(got1, l1)
				}
				if ok2 {
					got2 = append(got2, l2)
				}
				if ok1 != ok2 && diff == "" {
					diff = fmt.Sprintf("probe request #%d (key %q, after %v): this limiter answered %v, a freshly built one %v", i+1, k, probe[:i], ok1, ok2)
				}
			}
			for _, g := range got1 {
				g.OnIgnore()
			}
			for _, g := range got2 {
				g.OnIgnore()
			}
			if diff != "" {
				return kit.Viol(kind+":end-not-like-new", "after every granted listener completed the limiter does not admit like a new one: %s", diff)
			}
		}
		if !st.partitioned() {
			lim := st.limit()
			var got []interface{ OnIgnore() }
			for i := 0; i < lim+1; i++ {
				l, ok := st.def.Acquire(stackKeyCtx(t0ctx(), "a"))
				if ok != (i < lim) {
					for _, g := range got {
						g.OnIgnore()
					}
					return kit.Viol(kind+":end-readmit", "after quiescence the limiter (limit %d) answered %v to fresh acquire #%d", lim, ok, i+1)
				}
				if ok {
					got = append(got, l)
				}
			}
			for _, g := range got {
				g.OnIgnore()
			}
		}
	} else {
		// fixed pool: black box — it must admit exactly its limit again
		var got []interface{ OnIgnore() }
		okAll := true
		for i := 0; i < c.Stack.Limit; i++ {
			cl := w.newCaller("a", 0, 1)
			w.start(cl)
			synctest.Wait()
			if !cl.Done || !cl.OK {
				okAll = false
				break
			}
			got = append(got, cl.L)
			cl.Released = true
		}
		for _, g := range got {
			g.OnIgnore()
		}
		if !okAll {
			w.unwind(maxWait)
			w.flush()
			return kit.Viol("fixedpool:end-readmit", "after quiescence the pool (limit %d) did not admit %d fresh callers", c.Stack.Limit, c.Stack.Limit)
		}
		w.flush()
	}
	out.NonTrivial = completedWhileBlocked && gaveUp
	out.Labels = []string{"kind:" + kind}
	if completedWhileBlocked {
		out.Labels = append(out.Labels, "completion-while-blocked")
	}
	if gaveUp {
		out.Labels = append(out.Labels, "give-up")
	}
	if coincide {
		out.Labels = append(out.Labels, "burst")
	}
	return out
}

func TestC02_stacks(t *testing.T) {
	kit.RequireMode(t, "std")
	kit.Check(t, kit.Prop[c02Case]{
		ID: "C02", Quick: 4000, Thor: 400_000,
		Rule: "limiter stack x event sequence on a virtual clock (arrivals with keys and self-completing holders, completions with all outcomes, cancellations, sleeps, same-instant bursts); conservation invariants at every quiescent point and the zero state at the end; non-trivial = a completion while a caller was blocked and a caller that gave up",
		Gen:  genC02(c02Kinds, false), Run: runC02, Timeout: 30 * time.Second,
	})
}

func TestC02_sched_Coop(t *testing.T) {
	kit.RequireMode(t, "coop")
	kit.Check(t, kit.Prop[c02Case]{
		ID: "C02", Quick: 2500, Thor: 250_000,
		Rule: "as TestC02_stacks plus a generated cooperative schedule (yield counts at the library's schedule points and around the injected delegate); same invariants",
		Gen:  genC02(c02Kinds, true), Run: runC02, Timeout: 30 * time.Second,
	})
}

// evExec executes generated events against a virtual-time world.
type evExec struct {
	w                                       *vtWorld
	completedWhileBlocked, gaveUp, coincide bool
	arrivedFull                             bool
}

func (x *evExec) do(e c02Ev, inBurst bool) {
	w := x.w
	switch e.K {
	case "arrive":
		cl := w.newCaller(e.Key, e.Hold, e.Outcome)
		w.start(cl)
	case "complete":
		h := w.heldByHarness()
		if len(h) == 0 {
			return
		}
		cl := h[e.Idx%len(h)]
		if len(w.blocked()) > 0 {
			x.completedWhileBlocked = true
		}
		if e.Async || inBurst {
			// mark first so that a second action of the same burst picks another token
			w.mu.Lock()
			if cl.Released {
				w.mu.Unlock()
				return
			}
			cl.Released = true
			l := cl.L
			w.mu.Unlock()
			w.wg.Add(1)
			go func() { defer w.wg.Done(); defer notePanic(); complete(l, e.Outcome) }()
		} else {
			w.release(cl, e.Outcome)
		}
	case "cancel":
		all := w.snapshot()
		var cand []int
		// prefer callers that are blocked right now (a cancellation that can race with a hand-off)
		for _, cl := range all {
			if !cl.Canceled && cl.Started && !cl.Done {
				cand = append(cand, cl.ID)
			}
		}
		if len(cand) == 0 || e.Idx%4 == 3 {
			cand = cand[:0]
			for _, cl := range all {
				if !cl.Canceled {
					cand = append(cand, cl.ID)
				}
			}
		}
		if len(cand) == 0 {
			return
		}
		cl := w.callers[cand[e.Idx%len(cand)]]
		w.mu.Lock()
		cl.Canceled = true
		cl.CancelAt = w.now()
		blockedNow := cl.Started && !cl.Done
		w.mu.Unlock()
		if blockedNow {
			x.gaveUp = true
		}
		cl.cancel()
	case "sleep":
		before := len(w.blocked())
		time.Sleep(time.Duration(e.D) * time.Millisecond)
		synctest.Wait()
		if len(w.blocked()) < before {
			// somebody returned during the sleep: granted by a self-completing holder or gave up
			for _, cl := range w.snapshot() {
				if cl.Done && !cl.OK && cl.RetAt > cl.Arrived {
					x.gaveUp = true
				}
			}
		}
	case "mass":
		for i := 0; i < e.N; i++ {
			w.start(w.newCaller("a", 0, 0))
		}
	case "burst":
		x.coincide = true
		for _, a := range e.Acts {
			x.do(a, true)
		}
	}
}

// The limiter's in-flight gauge, the strategy and the partition bins stay exact while sampling windows
// close and the limit moves (DefaultLimiter engine, every strategy, scripted and real limits).
func TestC02_windows(t *testing.T) {
	kit.RequireMode(t, "std")
	kit.Check(t, kit.Prop[dlCase]{
		ID: "C02", Quick: 1500, Thor: 150_000,
		Rule: "DefaultLimiter engine on a virtual clock (acquire / complete with every outcome / sleep, windows really close, the limit really moves): after every event strategy busy == limiter in-flight gauge == bin counts == outstanding tokens; non-trivial = at least one window closed while tokens were being released",
		Gen:  genDL("c02"), Run: func(t *testing.T, c dlCase) kit.Outcome { return runDL(t, c, "c02") },
	})
}
