package harness

// C15 — no-load RTT baseline is a recent true minimum and is refreshed by probing.

import (
	"fmt"
	"math"
	"math/rand"
	"testing"

	"github.com/platinummonkey/go-concurrency-limits/core"
	"github.com/platinummonkey/go-concurrency-limits/limit"
	"pgregory.net/rapid"

	"verifharness/kit"
)

type c15Seg struct {
	RTT  int64  `json:"rtt"`
	Len  int    `json:"len"`
	Rel  string `json:"rel"`
	Drop bool   `json:"drop,omitempty"`
	Jit  int64  `json:"jit,omitempty"` // rtt varies in [RTT, RTT+Jit] deterministically (i*7919 mod)
}

type c15Case struct {
	Cfg  LimitCfg `json:"cfg"`
	Segs []c15Seg `json:"segs"`
}

func genC15(t *rapid.T) c15Case {
	var c c15Case
	c.Cfg.Algo = rapid.SampledFrom([]string{"vegas", "gradient"}).Draw(t, "algo")
	c.Cfg.JitterSeed = rapid.Int64Range(1, 1<<40).Draw(t, "jitter")
	c.Cfg.Smoothing = genSmoothing().Draw(t, "smoothing")
	bound := 0
	switch c.Cfg.Algo {
	case "vegas":
		c.Cfg.Max = rapid.IntRange(1, 20).Draw(t, "max")
		c.Cfg.Initial = rapid.IntRange(1, c.Cfg.Max).Draw(t, "initial")
		c.Cfg.ProbeMult = rapid.IntRange(1, 50).Draw(t, "pm") // explicit: the staleness bound must not depend on what the library's default happens to be
		m := c.Cfg.ProbeMult
		if m <= 0 {
			m = 30
		}
		bound = m*(c.Cfg.Max+1) + 1
	case "gradient":
		c.Cfg.Max = rapid.IntRange(4, 200).Draw(t, "max")
		c.Cfg.Min = rapid.IntRange(1, 4).Draw(t, "min")
		c.Cfg.Initial = rapid.IntRange(c.Cfg.Min, c.Cfg.Max).Draw(t, "initial")
		c.Cfg.RTTTol = rapid.SampledFrom([]float64{2, 1, 1.5}).Draw(t, "tol")
		c.Cfg.ProbeInterval = rapid.OneOf(rapid.IntRange(1, 200), rapid.IntRange(1, 200), rapid.Just(-1)).Draw(t, "pi")
		c.Cfg.Queue = "fixed:1"
		pi := c.Cfg.ProbeInterval
		if pi == 0 {
			pi = 1000
		}
		if pi > 0 {
			bound = 2 * pi
		} else {
			bound = 300
		}
	}
	nseg := rapid.IntRange(1, 6).Draw(t, "nseg")
	for i := 0; i < nseg; i++ {
		s := c15Seg{
			RTT:  rapid.OneOf(rapid.Int64Range(1, 100), rapid.Int64Range(1, 10_000_000), rapid.SampledFrom([]int64{0, 1})).Draw(t, "rtt"),
			Rel:  rapid.SampledFrom([]string{"eq", "dbl", "half", ""}).Draw(t, "rel"),
			Drop: rapid.IntRange(0, 9).Draw(t, "drop") == 0,
		}
		if rapid.Bool().Draw(t, "long") {
			s.Len = rapid.IntRange(bound, bound*3/2+2).Draw(t, "len")
		} else {
			s.Len = rapid.IntRange(1, 20).Draw(t, "len")
		}
		if rapid.IntRange(0, 2).Draw(t, "jit") == 0 {
			s.Jit = rapid.Int64Range(1, 50).Draw(t, "jitv")
		}
		c.Segs = append(c.Segs, s)
	}
	return c
}

func runC15(_ *testing.T, c c15Case) kit.Outcome {
	b := buildLimit(c.Cfg, nil)
	algo := c.Cfg.Algo
	mult := c.Cfg.ProbeMult
	if mult <= 0 {
		mult = 30
	}
	interval := c.Cfg.ProbeInterval
	if interval == 0 {
		interval = 1000
	}
	prevBase, _ := b.noLoad()
	if prevBase != 0 {
		return kit.Viol(algo+":initial-baseline", "baseline %d before any sample", prevBase)
	}
	// staleness tracking: b0 = baseline value, since = samples seen since it took that value, all with rtt > b0
	var staleBase int64
	staleRun, staleMaxEst := 0, 0
	var stepUp, longRun bool
	lowSeen := false
	n := 0
	for _, sg := range c.Segs {
		for i := 0; i < sg.Len; i++ {
			rtt := sg.RTT
			if sg.Jit > 0 {
				rtt += int64(i*7919) % (sg.Jit + 1)
			}
			est := b.Outer.EstimatedLimit()
			b.Outer.OnSample(0, rtt, Sample{Rel: sg.Rel, Inf: 3}.inflight(est), sg.Drop)
			n++
			base, _ := b.noLoad()
			if base != 0 && base > rtt {
				return kit.Viol(algo+":baseline-above-sample", "sample %d rtt=%d: baseline reads %d (> the sample just processed)", n, rtt, base)
			}
			if base != 0 && base != prevBase && base != rtt {
				return kit.Viol(algo+":baseline-not-observed", "sample %d rtt=%d: baseline changed %d -> %d, a value that is neither this sample nor the previous baseline", n, rtt, prevBase, base)
			}
			if prevBase != 0 && rtt > prevBase {
				if lowSeen {
					stepUp = true
				}
			}
			if rtt <= 100 && rtt > 0 {
				lowSeen = true
			}
			// staleness
			if base != 0 && base == staleBase && rtt > base {
				staleRun++
				if e := b.Outer.EstimatedLimit(); e > staleMaxEst {
					staleMaxEst = e
				}
				if est > staleMaxEst {
					staleMaxEst = est
				}
				allowed := -1
				switch algo {
				case "vegas":
					allowed = mult*(staleMaxEst+1) + 1
				case "gradient":
					if interval > 0 {
						allowed = 2 * interval
					}
				}
				if allowed >= 0 && staleRun > allowed {
					return kit.Viol(algo+":stale-baseline", "baseline %d survived %d consecutive samples that were all slower (allowed %d: no probe/reset happened)", base, staleRun, allowed)
				}
				if allowed >= 0 && staleRun*2 > allowed {
					longRun = true
				}
			} else {
				staleBase, staleRun, staleMaxEst = base, 0, 0
			}
			prevBase = base
		}
	}
	out := kit.Outcome{NonTrivial: stepUp && longRun, Labels: []string{"algo:" + algo}}
	if stepUp {
		out.Labels = append(out.Labels, "step-up")
	}
	if longRun {
		out.Labels = append(out.Labels, "stale-run>half-bound")
	}
	return out
}

func TestC15_baseline(t *testing.T) {
	kit.RequireMode(t, "std")
	kit.Check(t, kit.Prop[c15Case]{
		ID: "C15", Quick: 5000, Thor: 200_000,
		Rule: "RTT plateaus/steps (with jitter) on Vegas/Gradient; non-trivial = a step up after a low sample and a run of slower samples longer than half the staleness bound",
		Gen:  genC15, Run: runC15,
	})
}

// ---- "unset" probe multipliers ---------------------------------------------------------------------
//
// The staleness bound is stated for every probe multiplier. A non-positive multiplier means "not set" (the
// library's own default constructors pass -1) and selects the default multiplier, whatever its value: a Vegas
// limit built with a negative multiplier must therefore behave, sample for sample, like the one built with 0
// (same jitter source), and the default constructors like the long constructor with every argument unset. The
// numeric default is not assumed.

type c15uCase struct {
	Cfg  LimitCfg `json:"cfg"`
	Neg  int      `json:"neg"`  // the negative multiplier of twin B
	Ctor int      `json:"ctor"` // twin B: 0 long constructor, 1 NewDefaultVegasLimitWithLimit, 2 NewDefaultVegasLimit (initial 20)
	Segs []c15Seg `json:"segs"`
}

func runC15U(_ *testing.T, c c15uCase) kit.Outcome {
	type obs struct {
		est  int
		base int64
	}
	feed := func(l core.Limit) (tr []obs, resets int) {
		var prev int64
		for _, sg := range c.Segs {
			for i := 0; i < sg.Len; i++ {
				rtt := sg.RTT
				if sg.Jit > 0 {
					rtt += int64(i*7919) % (sg.Jit + 1)
				}
				l.OnSample(0, rtt, Sample{Rel: sg.Rel, Inf: 3}.inflight(l.EstimatedLimit()), sg.Drop)
				base := l.(rttNoLoader).RTTNoLoad()
				if base > prev && prev != 0 {
					resets++ // the baseline can only rise through a reset
				}
				prev = base
				tr = append(tr, obs{l.EstimatedLimit(), base})
			}
		}
		return
	}
	cfgA := c.Cfg
	cfgA.ProbeMult = 0
	a, resetsA := feed(buildLimit(cfgA, nil).Inner)
	var lb core.Limit
	switch c.Ctor {
	case 1:
		rand.Seed(c.Cfg.JitterSeed)
		lb = limit.NewDefaultVegasLimitWithLimit("t", c.Cfg.Initial, nil, nil)
	case 2:
		rand.Seed(c.Cfg.JitterSeed)
		lb = limit.NewDefaultVegasLimit("t", nil, nil)
	default:
		cfgB := c.Cfg
		cfgB.ProbeMult = c.Neg
		lb = buildLimit(cfgB, nil).Inner
	}
	b, resetsB := feed(lb)
	for i := range a {
		if a[i] != b[i] {
			return kit.Viol("vegas:unset-multiplier", "Vegas built with probe multiplier 0 and its twin (constructor variant %d, multiplier %d: both \"not set\") diverge at sample %d: estimate/baseline %v vs %v; baseline resets seen: %d vs %d",
				c.Ctor, c.Neg, i+1, a[i], b[i], resetsA, resetsB)
		}
	}
	return kit.Outcome{NonTrivial: resetsA >= 1, Labels: []string{fmt.Sprintf("ctor:%d", c.Ctor), fmt.Sprintf("resets>=1:%v", resetsA >= 1)}}
}

func TestC15_unset_multiplier(t *testing.T) {
	kit.RequireMode(t, "std")
	kit.Check(t, kit.Prop[c15uCase]{
		ID: "C15", Quick: 600, Thor: 60_000,
		Rule: "Vegas twins fed the same RTT plateaus/steps from the same jitter source: probe multiplier 0 vs a negative one, or vs the library's default constructors (which pass -1); estimates and baselines must agree sample for sample; non-trivial = the baseline was reset (rose) at least once",
		Gen: func(t *rapid.T) c15uCase {
			c := c15uCase{Neg: rapid.SampledFrom([]int{-1, -1, -2, -30, math.MinInt32}).Draw(t, "neg"), Ctor: rapid.SampledFrom([]int{0, 0, 1, 2}).Draw(t, "ctor")}
			c.Cfg = LimitCfg{Algo: "vegas", JitterSeed: rapid.Int64Range(1, 1<<40).Draw(t, "jitter"), Initial: rapid.IntRange(1, 12).Draw(t, "initial")}
			switch c.Ctor {
			case 0:
				c.Cfg.Max = rapid.IntRange(c.Cfg.Initial, 20).Draw(t, "max")
				c.Cfg.Smoothing = genSmoothing().Draw(t, "smoothing")
			case 1:
				c.Cfg.Max, c.Cfg.Smoothing = -1, -1 // what the default constructor passes: "not set"
			case 2:
				c.Cfg.Initial, c.Cfg.Max, c.Cfg.Smoothing = -1, -1, -1
			}
			nseg := rapid.IntRange(2, 6).Draw(t, "nseg")
			for i := 0; i < nseg; i++ {
				s := c15Seg{RTT: rapid.OneOf(rapid.Int64Range(1, 100), rapid.Int64Range(1, 10_000_000)).Draw(t, "rtt"),
					Rel: rapid.SampledFrom([]string{"eq", "dbl", "half", ""}).Draw(t, "rel"), Drop: rapid.IntRange(0, 9).Draw(t, "drop") == 0,
					Len: rapid.OneOf(rapid.IntRange(1, 20), rapid.IntRange(200, 1500)).Draw(t, "len")}
				if rapid.IntRange(0, 2).Draw(t, "jit") == 0 {
					s.Jit = rapid.Int64Range(1, 50).Draw(t, "jitv")
				}
				c.Segs = append(c.Segs, s)
			}
			return c
		},
		Run: runC15U,
	})
}
