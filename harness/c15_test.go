package harness

// C15 — no-load RTT baseline is a recent true minimum and is refreshed by probing.

import (
	"testing"

	"pgregory.net/rapid"

	"verifharness/kit"
)

type c15Seg struct {
	RTT  int64  `json:"rtt"`
	Len  int    `json:"len"`
	Rel  string `json:"rel"`
	Drop bool   `json:"drop,omitempty"`
	Jit  int64  `json:"jit,omitempty"` // rtt varies in [RTT, RTT+Jit] deterministically (i*7919 mod)
}

type c15Case struct {
	Cfg  LimitCfg `json:"cfg"`
	Segs []c15Seg `json:"segs"`
}

func genC15(t *rapid.T) c15Case {
	var c c15Case
	c.Cfg.Algo = rapid.SampledFrom([]string{"vegas", "gradient"}).Draw(t, "algo")
	c.Cfg.JitterSeed = rapid.Int64Range(1, 1<<40).Draw(t, "jitter")
	c.Cfg.Smoothing = genSmoothing().Draw(t, "smoothing")
	bound := 0
	switch c.Cfg.Algo {
	case "vegas":
		c.Cfg.Max = rapid.IntRange(1, 20).Draw(t, "max")
		c.Cfg.Initial = rapid.IntRange(1, c.Cfg.Max).Draw(t, "initial")
		c.Cfg.ProbeMult = rapid.IntRange(1, 50).Draw(t, "pm") // explicit: the staleness bound must not depend on what the library's default happens to be
		m := c.Cfg.ProbeMult
		if m <= 0 {
			m = 30
		}
		bound = m*(c.Cfg.Max+1) + 1
	case "gradient":
		c.Cfg.Max = rapid.IntRange(4, 200).Draw(t, "max")
		c.Cfg.Min = rapid.IntRange(1, 4).Draw(t, "min")
		c.Cfg.Initial = rapid.IntRange(c.Cfg.Min, c.Cfg.Max).Draw(t, "initial")
		c.Cfg.RTTTol = rapid.SampledFrom([]float64{2, 1, 1.5}).Draw(t, "tol")
		c.Cfg.ProbeInterval = rapid.OneOf(rapid.IntRange(1, 200), rapid.IntRange(1, 200), rapid.Just(-1)).Draw(t, "pi")
		c.Cfg.Queue = "fixed:1"
		pi := c.Cfg.ProbeInterval
		if pi == 0 {
			pi = 1000
		}
		if pi > 0 {
			bound = 2 * pi
		} else {
			bound = 300
		}
	}
	nseg := rapid.IntRange(1, 6).Draw(t, "nseg")
	for i := 0; i < nseg; i++ {
		s := c15Seg{
			RTT:  rapid.OneOf(rapid.Int64Range(1, 100), rapid.Int64Range(1, 10_000_000), rapid.SampledFrom([]int64{0, 1})).Draw(t, "rtt"),
			Rel:  rapid.SampledFrom([]string{"eq", "dbl", "half", ""}).Draw(t, "rel"),
			Drop: rapid.IntRange(0, 9).Draw(t, "drop") == 0,
		}
		if rapid.Bool().Draw(t, "long") {
			s.Len = rapid.IntRange(bound, bound*3/2+2).Draw(t, "len")
		} else {
			s.Len = rapid.IntRange(1, 20).Draw(t, "len")
		}
		if rapid.IntRange(0, 2).Draw(t, "jit") == 0 {
			s.Jit = rapid.Int64Range(1, 50).Draw(t, "jitv")
		}
		c.Segs = append(c.Segs, s)
	}
	return c
}

func runC15(_ *testing.T, c c15Case) kit.Outcome {
	b := buildLimit(c.Cfg, nil)
	algo := c.Cfg.Algo
	mult := c.Cfg.ProbeMult
	if mult <= 0 {
		mult = 30
	}
	interval := c.Cfg.ProbeInterval
	if interval == 0 {
		interval = 1000
	}
	prevBase, _ := b.noLoad()
	if prevBase != 0 {
		return kit.Viol(algo+":initial-baseline", "baseline %d before any sample", prevBase)
	}
	// staleness tracking: b0 = baseline value, since = samples seen since it took that value, all with rtt > b0
	var staleBase int64
	staleRun, staleMaxEst := 0, 0
	var stepUp, longRun bool
	lowSeen := false
	n := 0
	for _, sg := range c.Segs {
		for i := 0; i < sg.Len; i++ {
			rtt := sg.RTT
			if sg.Jit > 0 {
				rtt += int64(i*7919) % (sg.Jit + 1)
			}
			est := b.Outer.EstimatedLimit()
			b.Outer.OnSample(0, rtt, Sample{Rel: sg.Rel, Inf: 3}.inflight(est), sg.Drop)
			n++
			base, _ := b.noLoad()
			if base != 0 && base > rtt {
				return kit.Viol(algo+":baseline-above-sample", "sample %d rtt=%d: baseline reads %d (> the sample just processed)", n, rtt, base)
			}
			if base != 0 && base != prevBase && base != rtt {
				return kit.Viol(algo+":baseline-not-observed", "sample %d rtt=%d: baseline changed %d -> %d, a value that is neither this sample nor the previous baseline", n, rtt, prevBase, base)
			}
			if prevBase != 0 && rtt > prevBase {
				if lowSeen {
					stepUp = true
				}
			}
			if rtt <= 100 && rtt > 0 {
				lowSeen = true
			}
			// staleness
			if base != 0 && base == staleBase && rtt > base {
				staleRun++
				if e := b.Outer.EstimatedLimit(); e > staleMaxEst {
					staleMaxEst = e
				}
				if est > staleMaxEst {
					staleMaxEst = est
				}
				allowed := -1
				switch algo {
				case "vegas":
					allowed = mult*(staleMaxEst+1) + 1
				case "gradient":
					if interval > 0 {
						allowed = 2 * interval
					}
				}
				if allowed >= 0 && staleRun > allowed {
					return kit.Viol(algo+":stale-baseline", "baseline %d survived %d consecutive samples that were all slower (allowed %d: no probe/reset happened)", base, staleRun, allowed)
				}
				if allowed >= 0 && staleRun*2 > allowed {
					longRun = true
				}
			} else {
				staleBase, staleRun, staleMaxEst = base, 0, 0
			}
			prevBase = base
		}
	}
	out := kit.Outcome{NonTrivial: stepUp && longRun, Labels: []string{"algo:" + algo}}
	if stepUp {
		out.Labels = append(out.Labels, "step-up")
	}
	if longRun {
		out.Labels = append(out.Labels, "stale-run>half-bound")
	}
	return out
}

func TestC15_baseline(t *testing.T) {
	kit.RequireMode(t, "std")
	kit.Check(t, kit.Prop[c15Case]{
		ID: "C15", Quick: 1500, Thor: 200_000,
		Rule: "RTT plateaus/steps (with jitter) on Vegas/Gradient; non-trivial = a step up after a low sample and a run of slower samples longer than half the staleness bound",
		Gen:  genC15, Run: runC15,
	})
}
