package harness

// C15 — no-load RTT baseline is a recent true minimum and is refreshed by probing.

import (
	"fmt"
	"math"
	"math/rand"
	"testing"

	"github.com/platinummonkey/go-concurrency-limits/limit"
	"pgregory.net/rapid"

	"verifharness/kit"
)

type c15Seg struct {
	RTT  int64  `json:"rtt"`
	Len  int    `json:"len"`
	Rel  string `json:"rel"`
	Drop bool   `json:"drop,omitempty"`
	Jit  int64  `json:"jit,omitempty"` // rtt varies in [RTT, RTT+Jit] deterministically (i*7919 mod)
	// start time of sample i of the segment: 0 (StartK == 0), increasing (1), decreasing (-1), or scattered
	// (|StartK| > 1: (i*StartK*7919) mod 10^9): completions arrive in any order relative to when the requests started
	StartK int64 `json:"start_k,omitempty"`
}

func (sg c15Seg) start(n, i int) int64 {
	switch {
	case sg.StartK == 0:
		return 0
	case sg.StartK == 1:
		return int64(n) * 1000
	case sg.StartK == -1:
		return 1_000_000_000_000 - int64(n)*1000
	}
	v := (int64(i) * sg.StartK * 7919) % 1_000_000_000
	if v < 0 {
		v = -v
	}
	return v
}

type c15Case struct {
	Cfg  LimitCfg `json:"cfg"`
	Segs []c15Seg `json:"segs"`
}

func genC15(t *rapid.T) c15Case {
	var c c15Case
	c.Cfg.Algo = rapid.SampledFrom([]string{"vegas", "gradient"}).Draw(t, "algo")
	c.Cfg.JitterSeed = rapid.Int64Range(1, 1<<40).Draw(t, "jitter")
	c.Cfg.Smoothing = genSmoothing().Draw(t, "smoothing")
	bound := 0
	switch c.Cfg.Algo {
	case "vegas":
		c.Cfg.Max = rapid.IntRange(1, 20).Draw(t, "max")
		c.Cfg.Initial = rapid.IntRange(1, c.Cfg.Max).Draw(t, "initial")
		c.Cfg.NoLoad = rapid.SampledFrom([]string{"", "", "minimum", "minimum-wrapped"}).Draw(t, "noload") // the caller may hand in the minimum measurement itself: same promise
		c.Cfg.ProbeMult = rapid.IntRange(1, 50).Draw(t, "pm")                                              // explicit: the staleness bound must not depend on what the library's default happens to be
		m := c.Cfg.ProbeMult
		if m <= 0 {
			m = 30
		}
		bound = m*(c.Cfg.Max+1) + 1
	case "gradient":
		c.Cfg.Max = rapid.IntRange(4, 200).Draw(t, "max")
		c.Cfg.Min = rapid.IntRange(1, 4).Draw(t, "min")
		c.Cfg.Initial = rapid.IntRange(c.Cfg.Min, c.Cfg.Max).Draw(t, "initial")
		c.Cfg.RTTTol = rapid.SampledFrom([]float64{2, 1, 1.5}).Draw(t, "tol")
		c.Cfg.ProbeInterval = rapid.OneOf(rapid.IntRange(1, 200), rapid.IntRange(1, 200), rapid.Just(-1), rapid.Just(0)).Draw(t, "pi") // 0 = the library's default interval (its value is not assumed by the oracle, only used to size the run)
		c.Cfg.Queue = "fixed:1"
		pi := c.Cfg.ProbeInterval
		if pi == 0 {
			pi = 1000
		}
		if pi > 0 {
			bound = 2 * pi
		} else {
			bound = 300
		}
	}
	nseg := rapid.IntRange(1, 6).Draw(t, "nseg")
	for i := 0; i < nseg; i++ {
		s := c15Seg{
			RTT: rapid.OneOf(rapid.Int64Range(1, 100), rapid.Int64Range(1, 10_000_000), rapid.SampledFrom([]int64{0, 1}),
				// whole seconds and more, a few nanoseconds apart from one segment to the next (relative differences of 1e-9 and less)
				rapid.Map(rapid.Int64Range(0, 4), func(i int64) int64 { return 4_000_000_000 - i }),
				rapid.Map(rapid.Int64Range(0, 4), func(i int64) int64 { return 1_000_000_004 - i }),
				rapid.Map(rapid.Int64Range(0, 4), func(i int64) int64 { return 3_600_000_000_000 - i })).Draw(t, "rtt"),
			Rel:  rapid.SampledFrom([]string{"eq", "dbl", "half", ""}).Draw(t, "rel"),
			Drop: rapid.IntRange(0, 9).Draw(t, "drop") == 0,
		}
		if rapid.Bool().Draw(t, "long") {
			s.Len = rapid.IntRange(bound, bound*3/2+2).Draw(t, "len")
		} else {
			s.Len = rapid.IntRange(1, 20).Draw(t, "len")
		}
		if rapid.IntRange(0, 2).Draw(t, "jit") == 0 {
			s.Jit = rapid.Int64Range(1, 50).Draw(t, "jitv")
		}
		s.StartK = rapid.OneOf(rapid.SampledFrom([]int64{0, 1, -1}), rapid.Int64Range(-1000, 1000)).Draw(t, "startk")
		c.Segs = append(c.Segs, s)
	}
	return c
}

func runC15(_ *testing.T, c c15Case) kit.Outcome {
	b := buildLimit(c.Cfg, nil)
	algo := c.Cfg.Algo
	mult := c.Cfg.ProbeMult
	if mult <= 0 {
		mult = 30
	}
	interval := c.Cfg.ProbeInterval
	// interval == 0: the library's default. Its value is not assumed: the countdown to a reset is interval + rand(interval),
	// so the first reset comes no earlier than one interval after the start, and every later gap must stay within
	// twice that first observed distance.
	defaultInterval := interval == 0
	firstReset := 0
	prevBase, _ := b.noLoad()
	if prevBase != 0 {
		return kit.Viol(algo+":initial-baseline", "baseline %d before any sample", prevBase)
	}
	// staleness tracking: b0 = baseline value, since = samples seen since it took that value, all with rtt > b0
	var staleBase int64
	staleRun, staleMaxEst := 0, 0
	var stepUp, longRun bool
	lowSeen := false
	sinceReset := 0
	n := 0
	for _, sg := range c.Segs {
		for i := 0; i < sg.Len; i++ {
			rtt := sg.RTT
			if sg.Jit > 0 {
				rtt += int64(i*7919) % (sg.Jit + 1)
			}
			est := b.Outer.EstimatedLimit()
			b.Outer.OnSample(sg.start(n, i), rtt, Sample{Rel: sg.Rel, Inf: 3}.inflight(est), sg.Drop)
			n++
			base, _ := b.noLoad()
			// Gradient shows every reset: the baseline reads unset right after the probing sample. Resets must recur
			// within twice the probe interval, whatever the samples in between were.
			if algo == "gradient" && defaultInterval {
				if base == 0 {
					if firstReset == 0 && prevBase != 0 && rtt != 0 {
						firstReset = n // a set baseline that reads unset after a non-zero sample: a reset, no earlier than one interval after the start
					}
					sinceReset = 0
				} else if sinceReset++; firstReset > 0 && sinceReset > 2*firstReset {
					return kit.Viol("gradient:reset-overdue", "sample %d: %d samples since the baseline was last reset; with the default probe interval the first reset came after %d samples (at least one interval), so resets recur within %d", n, sinceReset, firstReset, 2*firstReset)
				} else if firstReset > 0 && sinceReset > firstReset {
					longRun = true
				}
			}
			if algo == "gradient" && interval > 0 {
				if base == 0 {
					sinceReset = 0
				} else if sinceReset++; sinceReset > 2*interval {
					return kit.Viol("gradient:reset-overdue", "sample %d: %d samples since the baseline was last reset (probe interval %d: resets recur within twice the interval)", n, sinceReset, interval)
				} else if sinceReset > interval {
					longRun = true
				}
			}
			if base != 0 && base > rtt {
				return kit.Viol(algo+":baseline-above-sample", "sample %d rtt=%d: baseline reads %d (> the sample just processed)", n, rtt, base)
			}
			if base != 0 && base != prevBase && base != rtt {
				return kit.Viol(algo+":baseline-not-observed", "sample %d rtt=%d: baseline changed %d -> %d, a value that is neither this sample nor the previous baseline", n, rtt, prevBase, base)
			}
			if prevBase != 0 && rtt > prevBase {
				if lowSeen {
					stepUp = true
				}
			}
			if rtt <= 100 && rtt > 0 {
				lowSeen = true
			}
			// staleness
			if base != 0 && base == staleBase && rtt > base {
				staleRun++
				if e := b.Outer.EstimatedLimit(); e > staleMaxEst {
					staleMaxEst = e
				}
				if est > staleMaxEst {
					staleMaxEst = est
				}
				allowed := -1
				switch algo {
				case "vegas":
					allowed = mult*(staleMaxEst+1) + 1
				case "gradient":
					if interval > 0 {
						allowed = 2 * interval
					}
				}
				if allowed >= 0 && staleRun > allowed {
					return kit.Viol(algo+":stale-baseline", "baseline %d survived %d consecutive samples that were all slower (allowed %d: no probe/reset happened)", base, staleRun, allowed)
				}
				if allowed >= 0 && staleRun*2 > allowed {
					longRun = true
				}
			} else {
				staleBase, staleRun, staleMaxEst = base, 0, 0
			}
			prevBase = base
		}
	}
	out := kit.Outcome{NonTrivial: stepUp && longRun, Labels: []string{"algo:" + algo}}
	if stepUp {
		out.Labels = append(out.Labels, "step-up")
	}
	if longRun {
		out.Labels = append(out.Labels, "stale-run>half-bound")
	}
	return out
}

func TestC15_baseline(t *testing.T) {
	kit.RequireMode(t, "std")
	kit.Check(t, kit.Prop[c15Case]{
		ID: "C15", Quick: 5000, Thor: 200_000,
		Rule: "RTT plateaus/steps (with jitter) on Vegas/Gradient; non-trivial = a step up after a low sample and a run of slower samples longer than half the staleness bound",
		Gen:  genC15, Run: runC15,
	})
}

// ---- "unset" probe multipliers ---------------------------------------------------------------------
//
// The staleness bound is stated for every probe multiplier. A non-positive multiplier means "not set" (the
// library's own default constructors pass -1) and selects the library's default multiplier. Its value is not
// assumed here; only that it is a multiplier at all: after an RTT step up the obsolete low baseline must be reset
// within 1000 x (limit + 1) further samples (the shipped default is 30; nothing is asserted about it). No random
// source needs to be reproducible for this.

type c15uCase struct {
	Cfg   LimitCfg `json:"cfg"`
	Neg   int      `json:"neg"`  // the non-positive multiplier
	Ctor  int      `json:"ctor"` // 0 long constructor, 1 NewDefaultVegasLimitWithLimit, 2 NewDefaultVegasLimit (initial 20)
	LowN  int      `json:"low_n"`
	Low   int64    `json:"low"`
	High  int64    `json:"high"`
	Steps int      `json:"steps"` // further step-ups after the first reset
}

const c15uSanityMultiplier = 1000

func runC15U(_ *testing.T, c c15uCase) kit.Outcome {
	var l *limit.VegasLimit
	rand.Seed(c.Cfg.JitterSeed)
	switch c.Ctor {
	case 1:
		l = limit.NewDefaultVegasLimitWithLimit("t", c.Cfg.Initial, nil, nil)
	case 2:
		l = limit.NewDefaultVegasLimit("t", nil, nil)
	default:
		cfg := c.Cfg
		cfg.ProbeMult = c.Neg
		l = buildLimit(cfg, nil).Inner.(*limit.VegasLimit)
	}
	// app-limited, drop-free samples only: the estimate does not move, the probe counter does
	for i := 0; i < c.LowN; i++ {
		l.OnSample(0, c.Low, 0, false)
	}
	if b := l.RTTNoLoad(); b != c.Low {
		return kit.Viol("vegas:baseline", "after %d samples of rtt=%d the baseline reads %d", c.LowN, c.Low, b)
	}
	resets := 0
	rtt := c.High
	for step := 0; step <= c.Steps; step++ {
		est := l.EstimatedLimit()
		bound := c15uSanityMultiplier*(est+1) + 1
		before := l.RTTNoLoad()
		reset := false
		for i := 0; i < bound; i++ {
			l.OnSample(0, rtt, 0, false)
			if l.RTTNoLoad() > before {
				reset = true
				break
			}
		}
		if !reset {
			return kit.Viol("vegas:unset-multiplier", "Vegas built with the \"not set\" probe multiplier %d (constructor variant %d), estimate %d: after the RTT rose from %d to %d the obsolete baseline %d survived %d samples - no multiplier, however large its default, allows that (the sanity bound is %d x (limit+1))",
				c.Neg, c.Ctor, est, before, rtt, before, bound, c15uSanityMultiplier)
		}
		resets++
		rtt = rtt*2 + 1
	}
	return kit.Outcome{NonTrivial: resets >= 1, Labels: []string{fmt.Sprintf("ctor:%d", c.Ctor), fmt.Sprintf("neg:%d", c.Neg)}}
}

func TestC15_unset_multiplier(t *testing.T) {
	kit.RequireMode(t, "std")
	kit.Check(t, kit.Prop[c15uCase]{
		ID: "C15", Quick: 600, Thor: 60_000,
		Rule: "Vegas built with a non-positive (\"not set\") probe multiplier (0, -1, other negatives, or through the library's default constructors, which pass -1), fed app-limited drop-free samples: after each RTT step up the obsolete baseline is reset within 1000 x (limit+1) samples (a sanity bound far above any plausible default); non-trivial = every case (at least one reset observed)",
		Gen: func(t *rapid.T) c15uCase {
			c := c15uCase{Neg: rapid.SampledFrom([]int{-1, -1, 0, -2, -30, math.MinInt32}).Draw(t, "neg"), Ctor: rapid.SampledFrom([]int{0, 0, 1, 2}).Draw(t, "ctor")}
			c.Cfg = LimitCfg{Algo: "vegas", JitterSeed: rapid.Int64Range(1, 1<<40).Draw(t, "jitter"), Initial: rapid.IntRange(1, 12).Draw(t, "initial")}
			c.Cfg.Max = rapid.IntRange(c.Cfg.Initial, 20).Draw(t, "max")
			c.Cfg.Smoothing = genSmoothing().Draw(t, "smoothing")
			c.LowN = rapid.IntRange(1, 5).Draw(t, "lowN")
			c.Low = rapid.Int64Range(1, 1_000_000).Draw(t, "low")
			c.High = c.Low + rapid.Int64Range(1, 1_000_000).Draw(t, "dhigh")
			c.Steps = rapid.IntRange(0, 2).Draw(t, "steps")
			return c
		},
		Run: runC15U,
	})
}

// ---- the "default" probe interval of Gradient ---------------------------------------------------------
//
// A probe interval of 0 selects the library's default. Its value is not assumed; only that it is an interval at
// all: after an RTT step up the obsolete low baseline must be reset within 2 x 50000 further samples (the shipped
// default is 1000; nothing is asserted about it). Probing disabled (-1) is outside the claim.

type c15gCase struct {
	Cfg   LimitCfg `json:"cfg"`
	LowN  int      `json:"low_n"`
	Low   int64    `json:"low"`
	High  int64    `json:"high"`
	Steps int      `json:"steps"`
}

const c15gSanityInterval = 50_000

func runC15G(_ *testing.T, c c15gCase) kit.Outcome {
	rand.Seed(c.Cfg.JitterSeed)
	l := buildLimit(c.Cfg, nil).Inner.(*limit.GradientLimit)
	for i := 0; i < c.LowN; i++ {
		l.OnSample(0, c.Low, 0, false)
	}
	if b := l.RTTNoLoad(); b != c.Low {
		return kit.Viol("gradient:baseline", "after %d samples of rtt=%d the baseline reads %d", c.LowN, c.Low, b)
	}
	resets := 0
	rtt := c.High
	for step := 0; step <= c.Steps; step++ {
		before := l.RTTNoLoad()
		reset := false
		for i := 0; i < 2*c15gSanityInterval; i++ {
			l.OnSample(0, rtt, 0, false)
			if nl := l.RTTNoLoad(); nl > before || nl == 0 {
				reset = true
				break
			}
		}
		if !reset {
			return kit.Viol("gradient:default-interval", "Gradient built with probe interval 0 (the library's default): after the RTT rose from %d to %d the obsolete baseline %d survived %d samples - no interval, however large its default, allows that (the sanity bound is 2 x %d)",
				before, rtt, before, 2*c15gSanityInterval, c15gSanityInterval)
		}
		resets++
		rtt = rtt*2 + 1
	}
	return kit.Outcome{NonTrivial: resets >= 1, Labels: []string{"gradient-default-interval"}}
}

func TestC15_default_interval(t *testing.T) {
	kit.RequireMode(t, "std")
	kit.Check(t, kit.Prop[c15gCase]{
		ID: "C15", Quick: 60, Thor: 3000,
		Rule: "Gradient built with probe interval 0 (the library's default interval, whose value is not assumed), fed app-limited drop-free samples: after each RTT step up the obsolete baseline is reset within 2 x 50000 samples (a sanity bound far above any plausible default); non-trivial = every case (at least one reset observed)",
		Gen: func(t *rapid.T) c15gCase {
			var c c15gCase
			c.Cfg = LimitCfg{Algo: "gradient", JitterSeed: rapid.Int64Range(1, 1<<40).Draw(t, "jitter"), Queue: "fixed:1", RTTTol: 2, ProbeInterval: 0}
			c.Cfg.Max = rapid.IntRange(4, 200).Draw(t, "max")
			c.Cfg.Min = rapid.IntRange(1, 4).Draw(t, "min")
			c.Cfg.Initial = rapid.IntRange(c.Cfg.Min, c.Cfg.Max).Draw(t, "initial")
			c.Cfg.Smoothing = genSmoothing().Draw(t, "smoothing")
			c.LowN = rapid.IntRange(1, 5).Draw(t, "lowN")
			c.Low = rapid.Int64Range(1, 1_000_000).Draw(t, "low")
			c.High = c.Low + rapid.Int64Range(1, 1_000_000).Draw(t, "dhigh")
			c.Steps = rapid.IntRange(0, 1).Draw(t, "steps")
			return c
		},
		Run: runC15G,
	})
}
