package harness

// C16 — change notifications are complete and agree with the reported estimate.

import (
	"fmt"
	"math"
	"testing"

	"github.com/platinummonkey/go-concurrency-limits/limit"
	"pgregory.net/rapid"

	"verifharness/kit"
)

type c16Op struct {
	K string `json:"k"` // reg | sample | set
	S Sample `json:"s,omitempty"`
	N int    `json:"n,omitempty"`
}

type c16Case struct {
	Cfg LimitCfg `json:"cfg"`
	Ops []c16Op  `json:"ops"`
	// PollEvery: how often the harness itself asks the outermost wrapper for its estimate: 0 = around every operation,
	// k = after every k-th operation only, 1000 = at the very end only. (Reading is not neutral for a wrapper that
	// caches what it last reported; the estimate used to judge notifications is always the algorithm's own.)
	PollEvery int `json:"poll_every,omitempty"`
	// Times (no windowed wrapper): the sample / set operations are gone through that many times (the listeners stay):
	// long histories in which the estimate sits at a bound, creeps towards it or keeps crossing the same values
	Times int `json:"times,omitempty"`
}

func genC16(t *rapid.T) c16Case {
	c := c16Case{Cfg: genLimitCfg(t, []string{"aimd", "vegas", "gradient", "gradient2", "settable", "fixed"}, true)}
	c.Cfg.WithRegistry = rapid.IntRange(0, 2).Draw(t, "withRegistry") == 0
	genUnsetSafe(t, &c.Cfg)
	if c.Cfg.Algo == "aimd" && c.Cfg.Ctor == "" && rapid.IntRange(0, 7).Draw(t, "aimdAtInt32") == 0 {
		c.Cfg.Initial = math.MaxInt32 - rapid.IntRange(0, 20).Draw(t, "belowMaxInt32") // AIMD has no ceiling: the steps across 2^31-1
		c.Cfg.IncreaseBy = rapid.SampledFrom([]int{1, 2, 7}).Draw(t, "incrAtInt32")
	}
	if c.Cfg.Algo == "gradient" && c.Cfg.Ctor == "" && len(c.Cfg.Unset) == 0 && rapid.IntRange(0, 5).Draw(t, "tinyGradient") == 0 {
		// a tiny ceiling under the default queue function (whose allowance never drops below 4) and frequent probes: the
		// probe's restart value lies beyond the ceiling. Nothing is claimed here about where the estimate goes, only that
		// listeners are told what EstimatedLimit() reports afterwards
		c.Cfg.Max = rapid.IntRange(1, 3).Draw(t, "tinyMax")
		c.Cfg.Min, c.Cfg.Initial, c.Cfg.Queue = 1, rapid.IntRange(1, c.Cfg.Max).Draw(t, "tinyInitial"), ""
		c.Cfg.ProbeInterval = rapid.IntRange(1, 4).Draw(t, "tinyProbe")
	}
	c.PollEvery = rapid.SampledFrom([]int{0, 0, 1, 3, 7, 1000}).Draw(t, "pollEvery")
	if !c.Cfg.Windowed && c.Cfg.Outer2 != "windowed" {
		c.Times = rapid.SampledFrom([]int{1, 1, 1, 1, 3, 10}).Draw(t, "times")
	}
	n := rapid.IntRange(1, 120).Draw(t, "nops")
	regs := 0
	for i := 0; i < n; i++ {
		k := rapid.IntRange(0, 19).Draw(t, "k")
		switch {
		case k == 0 && regs < 5:
			regs++
			c.Ops = append(c.Ops, c16Op{K: "reg"})
		case k <= 3 && c.Cfg.Algo == "settable":
			c.Ops = append(c.Ops, c16Op{K: "set", N: rapid.OneOf(rapid.IntRange(-3, 500), rapid.IntRange(-3, 500),
				rapid.SampledFrom([]int{32767, 32768, 65535, 65536, 1 << 24, math.MaxInt32 - 1, math.MaxInt32, math.MinInt32})).Draw(t, "setn")})
		default:
			c.Ops = append(c.Ops, c16Op{K: "sample"})
		}
	}
	// samples (monotone start times for the windowed wrapper)
	ns := 0
	for _, o := range c.Ops {
		if o.K == "sample" {
			ns++
		}
	}
	if ns > 0 {
		var ss []Sample
		for len(ss) < ns {
			more := genSamples(t, c.Cfg, ns)
			if len(ss) > 0 && (c.Cfg.Windowed || c.Cfg.Outer2 == "windowed") {
				off := ss[len(ss)-1].Start
				for i := range more {
					more[i].Start += off
				}
			}
			ss = append(ss, more...)
		}
		j := 0
		for i := range c.Ops {
			if c.Ops[i].K == "sample" {
				c.Ops[i].S = ss[j]
				j++
			}
		}
	}
	return c
}

type c16Listener struct {
	calls int
	last  int
}

func runC16(_ *testing.T, c c16Case) kit.Outcome {
	b := buildLimit(c.Cfg, nil)
	// reference models of the windowed layers, outermost first: what the recording pass-through below the wrappers
	// must have received is the composition of their folds ("aggregated per C09")
	var folds []*winFold
	if c.Cfg.Outer2 == "windowed" {
		folds = append(folds, newWinFold(c.Cfg.Win2Size, c.Cfg.Win2Min, c.Cfg.Win2Max, c.Cfg.Win2Threshold))
	}
	if c.Cfg.Windowed {
		folds = append(folds, newWinFold(c.Cfg.WinSize, c.Cfg.WinMin, c.Cfg.WinMax, c.Cfg.WinThreshold))
	}
	var wantTap []Sample
	foldsAmbiguous := false
	var ls []*c16Listener
	changes, ups, downs := 0, 0, 0
	lateReg := false
	ops := c.Ops
	for r := 1; r < c.Times; r++ {
		for _, op := range c.Ops {
			if op.K != "reg" {
				ops = append(ops, op)
			}
		}
	}
	for i, op := range ops {
		before := b.Inner.EstimatedLimit()
		if c.PollEvery == 0 {
			before = b.Outer.EstimatedLimit()
		}
		marks := make([]int, len(ls))
		for j, l := range ls {
			marks[j] = l.calls
		}
		tapBefore := 0
		if b.Tap != nil {
			tapBefore = len(b.Tap.Got)
		}
		var inf int
		switch op.K {
		case "reg":
			l := &c16Listener{}
			b.Outer.NotifyOnChange(func(n int) { l.calls++; l.last = n })
			ls = append(ls, l)
			if changes > 0 {
				lateReg = true
			}
			continue
		case "set":
			sl, ok := b.Inner.(*limit.SettableLimit)
			if !ok {
				continue
			}
			sl.SetLimit(op.N)
		case "sample":
			inf = op.S.inflight(before)
			b.Outer.OnSample(op.S.Start, op.S.RTT, inf, op.S.Drop)
		}
		after := b.Inner.EstimatedLimit()
		if c.PollEvery == 0 || (c.PollEvery < 1000 && (i+1)%c.PollEvery == 0) || i == len(ops)-1 {
			if out := b.Outer.EstimatedLimit(); out != after {
				return kit.Viol("wrapper:estimate", "op %d: wrapper reports %d but its delegate %d", i, out, after)
			}
		}
		if op.K == "sample" && len(folds) > 0 && b.Tap != nil && !foldsAmbiguous {
			cur := &Sample{Start: op.S.Start, RTT: op.S.RTT, Inf: inf, Drop: op.S.Drop}
			for _, f := range folds {
				if cur = f.feed(*cur); cur == nil {
					break
				}
			}
			for _, f := range folds {
				foldsAmbiguous = foldsAmbiguous || f.Ambiguous
			}
			if cur != nil {
				wantTap = append(wantTap, *cur)
			}
			if foldsAmbiguous {
				continue // from here on the window rules leave the outcome open: nothing further is compared for this case
			}
			if len(b.Tap.Got) != len(wantTap) {
				return kit.Viol("windowed:forward", "op %d %+v (in-flight %d): the algorithm behind the window(s) has received %d updates, the window rules give %d", i, op.S, inf, len(b.Tap.Got), len(wantTap))
			}
			if n := len(wantTap); n > 0 && b.Tap.Got[n-1] != wantTap[n-1] {
				return kit.Viol("windowed:forward", "op %d: window #%d reached the algorithm as %+v, the exact fold is %+v", i, n, b.Tap.Got[n-1], wantTap[n-1])
			}
		}
		if op.K == "sample" && c.Cfg.Traced && !c.Cfg.Windowed && c.Cfg.Outer2 != "windowed" {
			if len(b.Tap.Got) != tapBefore+1 {
				return kit.Viol("traced:forward", "op %d: traced limit forwarded %d samples for one OnSample", i, len(b.Tap.Got)-tapBefore)
			}
			want := Sample{Start: op.S.Start, RTT: op.S.RTT, Inf: inf, Drop: op.S.Drop}
			if got := b.Tap.Got[len(b.Tap.Got)-1]; got != want {
				return kit.Viol("traced:forward", "op %d: traced limit forwarded %+v, was given %+v", i, got, want)
			}
		}
		if after != before {
			changes++
			if after > before {
				ups++
			} else {
				downs++
			}
		}
		for j, l := range ls {
			called := l.calls > marks[j]
			if after != before && !called {
				return kit.Viol(c.Cfg.Algo+":missed-notification", "op %d %+v changed the estimate %d -> %d but listener #%d (of %d) was not called", i, op, before, after, j, len(ls))
			}
			if called && l.last != after {
				return kit.Viol(c.Cfg.Algo+":stale-notification", "op %d %+v: listener #%d was last told %d but EstimatedLimit() reports %d", i, op, j, l.last, after)
			}
		}
	}
	out := kit.Outcome{NonTrivial: lateReg && len(ls) >= 2 && ups > 0 && downs > 0}
	out.Labels = []string{"algo:" + c.Cfg.Algo, fmt.Sprintf("wrapped:%v", c.Cfg.Windowed || c.Cfg.Traced)}
	if changes > 0 && len(ls) > 0 {
		out.Labels = append(out.Labels, "changes-with-listeners")
	}
	if len(folds) > 0 && b.Tap != nil && len(b.Tap.Got) > 0 {
		out.Labels = append(out.Labels, "window-closed")
	}
	if c.Cfg.Outer2 != "" {
		out.Labels = append(out.Labels, "stacked:"+c.Cfg.Outer2)
		if len(folds) == 2 && b.Tap != nil && len(b.Tap.Got) > 0 {
			out.Labels = append(out.Labels, "stacked-windows-both-closed")
		}
	}
	return out
}

func TestC16_notify(t *testing.T) {
	kit.RequireMode(t, "std")
	kit.Check(t, kit.Prop[c16Case]{
		ID: "C16", Quick: 4000, Thor: 500_000,
		Rule: "limit (optionally behind windowed/traced wrappers) x sequences of NotifyOnChange/OnSample/SetLimit; non-trivial = a listener registered after a change, >=2 listeners, estimate moved both up and down",
		Gen:  genC16, Run: runC16,
	})
}
