package harness

// C16 — listeners registered by several goroutines at the same moment are all registered: after the
// next change every one of them has been told the new estimate.

import (
	"fmt"
	"runtime"
	"sync"
	"sync/atomic"
	"testing"

	"pgregory.net/rapid"

	"verifharness/kit"
)

type c16pCase struct {
	Cfg     LimitCfg `json:"cfg"`
	Workers int      `json:"workers"`
	Each    int      `json:"each"`
	Trials  int      `json:"trials"`
}

func TestC16_register_parallel(t *testing.T) {
	kit.RequireMode(t, "std")
	kit.Check(t, kit.Prop[c16pCase]{
		ID: "C16", Quick: 200, Thor: 10_000,
		Rule: "2-8 real threads register listeners on one limit at the same moment (spin barrier, repeated on fresh instances), then a sample changes the estimate: every registered listener must have been called with the new value; non-trivial = at least 4 registrations raced",
		Gen: func(t *rapid.T) c16pCase {
			c := c16pCase{Cfg: genLimitCfg(t, []string{"aimd", "vegas", "gradient", "gradient2", "settable"}, true), Workers: rapid.IntRange(2, 8).Draw(t, "workers"),
				Each: rapid.IntRange(1, 4).Draw(t, "each"), Trials: rapid.SampledFrom([]int{20, 100, 300}).Draw(t, "trials")}
			c.Cfg.Windowed = false
			return c
		},
		Run: func(_ *testing.T, c c16pCase) (out kit.Outcome) {
			defer func() {
				if r := recover(); r != nil {
					out = kit.Viol(c.Cfg.Algo+":panic-after-concurrent-registration", "panic: %v", r)
				}
			}()
			for trial := 0; trial < c.Trials; trial++ {
				b := buildLimit(c.Cfg, nil)
				n := c.Workers * c.Each
				calls := make([]atomic.Int64, n)
				last := make([]atomic.Int64, n)
				var ready, wg sync.WaitGroup
				var gate atomic.Bool
				for g := 0; g < c.Workers; g++ {
					wg.Add(1)
					ready.Add(1)
					go func(g int) {
						defer wg.Done()
						ready.Done()
						for !gate.Load() {
							runtime.Gosched()
						}
						for k := 0; k < c.Each; k++ {
							i := g*c.Each + k
							b.Outer.NotifyOnChange(func(v int) { calls[i].Add(1); last[i].Store(int64(v)) })
						}
					}(g)
				}
				ready.Wait()
				gate.Store(true)
				wg.Wait()
				// change the estimate
				before := b.Outer.EstimatedLimit()
				if sl, ok := b.Inner.(interface{ SetLimit(int) }); ok {
					sl.SetLimit(before + 3)
				} else {
					for i := 0; i < 50 && b.Outer.EstimatedLimit() == before; i++ {
						b.Outer.OnSample(0, 1000, 100000, i%2 == 0)
					}
				}
				after := b.Outer.EstimatedLimit()
				if after == before {
					continue
				}
				for i := 0; i < n; i++ {
					if calls[i].Load() == 0 || int(last[i].Load()) != after {
						return kit.Viol(c.Cfg.Algo+":registration-lost", "trial %d: %d listeners registered by %d threads at once; the estimate then moved %d -> %d but listener #%d was called %d times (last value %d)", trial, n, c.Workers, before, after, i, calls[i].Load(), last[i].Load())
					}
				}
			}
			return kit.Outcome{NonTrivial: c.Workers*c.Each >= 4, Labels: []string{"algo:" + c.Cfg.Algo, fmt.Sprintf("workers:%d", c.Workers)}}
		},
		NoShrink: true,
	})
}
