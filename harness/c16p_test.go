package harness

// C16 — listeners registered by several goroutines at the same moment are all registered: after the
// next change every one of them has been told the new estimate.

import (
	"fmt"
	"runtime"
	"sync"
	"sync/atomic"
	"testing"

	"pgregory.net/rapid"

	"verifharness/kit"
)

type c16pCase struct {
	Cfg     LimitCfg `json:"cfg"`
	Workers int      `json:"workers"`
	Each    int      `json:"each"`
	Trials  int      `json:"trials"`
}

func TestC16_register_parallel(t *testing.T) {
	kit.RequireMode(t, "std")
	kit.Check(t, kit.Prop[c16pCase]{
		ID: "C16", Quick: 200, Thor: 10_000,
		Rule: "2-8 real threads register listeners on one limit at the same moment (spin barrier, repeated on fresh instances), then a sample changes the estimate: every registered listener must have been called with the new value; non-trivial = at least 4 registrations raced",
		Gen: func(t *rapid.T) c16pCase {
			c := c16pCase{Cfg: genLimitCfg(t, []string{"aimd", "vegas", "gradient", "gradient2", "settable"}, true), Workers: rapid.IntRange(2, 8).Draw(t, "workers"),
				Each: rapid.IntRange(1, 4).Draw(t, "each"), Trials: rapid.SampledFrom([]int{20, 100, 300}).Draw(t, "trials")}
			c.Cfg.Windowed = false
			return c
		},
		Run: func(_ *testing.T, c c16pCase) (out kit.Outcome) {
			defer func() {
				if r := recover(); r != nil {
					out = kit.Viol(c.Cfg.Algo+":panic-after-concurrent-registration", "panic: %v", r)
				}
			}()
			for trial := 0; trial < c.Trials; trial++ {
				b := buildLimit(c.Cfg, nil)
				n := c.Workers * c.Each
				calls := make([]atomic.Int64, n)
				last := make([]atomic.Int64, n)
				var ready, wg sync.WaitGroup
				var gate atomic.Bool
				for g := 0; g < c.Workers; g++ {
					wg.Add(1)
					ready.Add(1)
					go func(g int) {
						defer wg.Done()
						ready.Done()
						for !gate.Load() {
							runtime.Gosched()
						}
						for k := 0; k < c.Each; k++ {
							i := g*c.Each + k
							b.Outer.NotifyOnChange(func(v int) { calls[i].Add(1); last[i].Store(int64(v)) })
						}
					}(g)
				}
				ready.Wait()
				gate.Store(true)
				wg.Wait()
				// change the estimate
				before := b.Outer.EstimatedLimit()
				if sl, ok := b.Inner.(interface{ SetLimit(int) }); ok {
					sl.SetLimit(before + 3)
				} else {
					for i := 0; i < 50 && b.Outer.EstimatedLimit() == before; i++ {
						b.Outer.OnSample(0, 1000, 100000, i%2 == 0)
					}
				}
				after := b.Outer.EstimatedLimit()
				if after == before {
					continue
				}
				for i := 0; i < n; i++ {
					if calls[i].Load() == 0 || int(last[i].Load()) != after {
						return kit.Viol(c.Cfg.Algo+":registration-lost", "trial %d: %d listeners registered by %d threads at once; the estimate then moved %d -> %d but listener #%d was called %d times (last value %d)", trial, n, c.Workers, before, after, i, calls[i].Load(), last[i].Load())
					}
				}
			}
			return kit.Outcome{NonTrivial: c.Workers*c.Each >= 4, Labels: []string{"algo:" + c.Cfg.Algo, fmt.Sprintf("workers:%d", c.Workers)}}
		},
		NoShrink: true,
	})
}

// C16 — explicit sets from several goroutines at once: when all have returned, the value every listener was told
// last is the limit in force (a set that stores the value and announces it in two separate steps lets a slower
// setter announce a value that has already been replaced).

type c16sCase struct {
	Traced    bool `json:"traced,omitempty"`
	Workers   int  `json:"workers"`
	Each      int  `json:"each"`
	Listeners int  `json:"listeners"`
	Slow      int  `json:"slow"` // yields inside the callback (it runs under the limit's lock: setters pile up behind it)
	Trials    int  `json:"trials"`
}

func TestC16_set_parallel(t *testing.T) {
	kit.RequireMode(t, "std")
	kit.Check(t, kit.Prop[c16sCase]{
		ID: "C16", Quick: 150, Thor: 8_000,
		Rule: "2-8 real threads call SetLimit with distinct values on one settable limit (plain or traced) at the same moment while 1-3 listeners take their time, repeated on fresh instances: after all calls returned every listener's last value equals EstimatedLimit(); non-trivial = at least 3 setters",
		Gen: func(t *rapid.T) c16sCase {
			return c16sCase{Traced: rapid.Bool().Draw(t, "traced"), Workers: rapid.IntRange(2, 8).Draw(t, "workers"), Each: rapid.IntRange(1, 20).Draw(t, "each"),
				Listeners: rapid.IntRange(1, 3).Draw(t, "listeners"), Slow: rapid.SampledFrom([]int{0, 1, 5, 50}).Draw(t, "slow"),
				Trials: rapid.SampledFrom([]int{50, 200, 500}).Draw(t, "trials")}
		},
		Run: func(_ *testing.T, c c16sCase) kit.Outcome {
			for trial := 0; trial < c.Trials; trial++ {
				b := buildLimit(LimitCfg{Algo: "settable", Initial: 1, Traced: c.Traced}, nil)
				sl := b.Inner.(interface{ SetLimit(int) })
				last := make([]atomic.Int64, c.Listeners)
				for i := range last {
					last[i].Store(-1)
					b.Outer.NotifyOnChange(func(v int) {
						for k := 0; k < c.Slow; k++ {
							runtime.Gosched()
						}
						last[i].Store(int64(v))
					})
				}
				var ready, wg sync.WaitGroup
				var gate atomic.Bool
				for g := 0; g < c.Workers; g++ {
					wg.Add(1)
					ready.Add(1)
					go func(g int) {
						defer wg.Done()
						ready.Done()
						for !gate.Load() {
							runtime.Gosched()
						}
						for k := 0; k < c.Each; k++ {
							sl.SetLimit(2 + g*1000 + k) // distinct, never the initial value
						}
					}(g)
				}
				ready.Wait()
				gate.Store(true)
				wg.Wait()
				est := b.Outer.EstimatedLimit()
				for i := range last {
					if got := int(last[i].Load()); got != est {
						return kit.Viol("settable:stale-notification-after-concurrent-sets", "trial %d: %d threads x %d SetLimit calls returned; EstimatedLimit() reports %d but listener #%d was last told %d", trial, c.Workers, c.Each, est, i, got)
					}
				}
			}
			return kit.Outcome{NonTrivial: c.Workers >= 3, Labels: []string{fmt.Sprintf("workers:%d", c.Workers), fmt.Sprintf("slow:%d", c.Slow)}}
		},
		NoShrink: true,
	})
}
