package harness

// C14 — gRPC interceptors: gate on the right limiter, complete the token exactly once.

import (
	"context"
	"errors"
	"fmt"
	"io"
	"strings"
	"testing"
	"time"

	"github.com/platinummonkey/go-concurrency-limits/core"
	gcl "github.com/platinummonkey/go-concurrency-limits/grpc"
	"google.golang.org/grpc"
	"google.golang.org/grpc/codes"
	"google.golang.org/grpc/metadata"
	"google.golang.org/grpc/status"
	"pgregory.net/rapid"

	"verifharness/kit"
)

type c14Call struct {
	Dir      string `json:"dir,omitempty"` // stream: recv | send
	Grant    bool   `json:"grant"`
	Err      int    `json:"err"`                // error the wrapped call returns: 0 nil, 1 generic, 2 io.EOF, 3 context.Canceled, 4 gRPC status, 5 context.DeadlineExceeded, 6 io.ErrUnexpectedEOF
	Resp     int    `json:"resp"`               // which response object the wrapped call returns (0 = nil)
	Classify int    `json:"classify"`           // custom classifier's answer: 0 success, 1 ignore, 2 dropped
	Code     int    `json:"code"`               // custom limit-exceeded classifier's status code
	CtxDone  int    `json:"ctx_done,omitempty"` // the caller's context: 0 live, 1 already cancelled, 2 deadline already expired (the limiter double ignores it; the classifier's choice must stand)
	Same     bool   `json:"same,omitempty"`     // stream: this operation runs on the same wrapped stream (same handler invocation) as the previous one
	Nested   int    `json:"nested,omitempty"`   // unary: the wrapped call itself makes a call through another unary client interceptor of the package, with the context it was handed: 0 no, 1 that inner limiter grants, 2 it refuses, 3 the wrapped call goes through the very same interceptor once more. Whatever happens in there, the outer token's outcome is the outer classifier's choice
	ExcErr   int    `json:"exc_err,omitempty"`  // error the custom limit-exceeded classifier returns next to the code: 0 plain, 1 a gRPC status error carrying another code, 2 such a status error wrapped with %w
}

type c14Case struct {
	Kind           string    `json:"kind"` // server | client | stream
	CustomLimiter  bool      `json:"custom_limiter"`
	StreamKind     int       `json:"stream_kind,omitempty"`   // stream: the RPC's kind as declared in grpc.StreamServerInfo: 0 none set, 1 server streaming, 2 client streaming, 3 bidirectional (every message operation is gated whatever the kind)
	Chained        bool      `json:"chained,omitempty"`       // stream: the interceptor under test runs inside another (all-default) stream interceptor of the package, i.e. it is handed an already wrapped stream
	StreamCustom   string    `json:"stream_custom,omitempty"` // stream + custom_limiter: "" both limiters configured | recv | send: only that one (the other stays the default)
	CustomClass    bool      `json:"custom_classifier"`
	CustomExceeded bool      `json:"custom_exceeded"`
	ExcOnly        string    `json:"exc_only,omitempty"` // stream: "" = both directions get their own limit-exceeded classifier, recv | send = only that direction (the other keeps the default)
	Named          bool      `json:"named,omitempty"`
	OptOrder       []int     `json:"opt_order,omitempty"` // permutation applied to the option list (options must commute)
	Calls          []c14Call `json:"calls"`
	// Times: the whole call list is gone through that many times on the same interceptor (long-lived interceptors:
	// hundreds of calls, long runs of refusals or of grants without anything else in between)
	Times int `json:"times,omitempty"`
	// StreamTimes: a group of operations that runs on one wrapped stream is repeated that many times inside the same
	// handler invocation (a long-lived stream: hundreds of messages through one wrapper)
	StreamTimes int `json:"stream_times,omitempty"`
}

func genC14(t *rapid.T) c14Case {
	c := c14Case{
		Kind:           rapid.SampledFrom([]string{"server", "client", "stream"}).Draw(t, "kind"),
		CustomLimiter:  rapid.IntRange(0, 5).Draw(t, "cl") > 0,
		CustomClass:    rapid.Bool().Draw(t, "cc"),
		CustomExceeded: rapid.Bool().Draw(t, "ce"),
		ExcOnly:        rapid.SampledFrom([]string{"", "", "recv", "send"}).Draw(t, "excOnly"),
		Named:          rapid.Bool().Draw(t, "named"),
	}
	if c.Kind == "stream" {
		c.Chained = rapid.IntRange(0, 3).Draw(t, "chained") == 0
		c.StreamKind = rapid.IntRange(0, 3).Draw(t, "streamKind")
	}
	if c.Kind == "stream" && c.CustomLimiter {
		c.StreamCustom = rapid.SampledFrom([]string{"", "", "recv", "send"}).Draw(t, "streamCustom")
	}
	call := rapid.Custom(func(t *rapid.T) c14Call {
		return c14Call{
			Dir:      rapid.SampledFrom([]string{"recv", "send"}).Draw(t, "dir"),
			Grant:    rapid.IntRange(0, 3).Draw(t, "grant") > 0,
			Err:      rapid.SampledFrom([]int{0, 0, 0, 1, 1, 2, 3, 4, 5, 6}).Draw(t, "err"),
			Resp:     rapid.IntRange(0, 3).Draw(t, "resp"),
			Classify: rapid.IntRange(0, 2).Draw(t, "classify"),
			Code:     rapid.IntRange(1, 16).Draw(t, "code"),
			Nested:   rapid.SampledFrom([]int{0, 0, 0, 1, 2, 3}).Draw(t, "nested"),
			ExcErr:   rapid.SampledFrom([]int{0, 0, 1, 2}).Draw(t, "excErr"),
			Same:     rapid.Bool().Draw(t, "same"),
			CtxDone:  rapid.SampledFrom([]int{0, 0, 0, 1, 2}).Draw(t, "ctxDone"),
		}
	})
	c.Calls = rapid.SliceOfN(call, 1, 20).Draw(t, "calls")
	c.Times = rapid.SampledFrom([]int{1, 1, 1, 1, 1, 1, 2, 10, 150, 400}).Draw(t, "times")
	if c.Kind == "stream" {
		c.StreamTimes = rapid.SampledFrom([]int{1, 1, 1, 1, 2, 30, 129, 257, 600}).Draw(t, "streamTimes")
		if c.StreamTimes > 30 && c.Times > 10 {
			c.Times = 2
		}
	}
	if c.Times >= 150 && rapid.Bool().Draw(t, "storm") {
		// a storm: every call is refused (or every call granted); what varies from call to call is the rest
		g := rapid.Bool().Draw(t, "stormGrant")
		for i := range c.Calls {
			c.Calls[i].Grant = g
		}
	}
	c.OptOrder = rapid.Permutation(seq(8)).Draw(t, "optOrder")
	return c
}

type c14Log struct{ ev []string }

func (l *c14Log) add(f string, a ...any) { l.ev = append(l.ev, fmt.Sprintf(f, a...)) }

type c14Limiter struct {
	name  string
	log   *c14Log
	grant *bool
	n     int
}

type c14Token struct {
	lim *c14Limiter
	id  int
}

func (l *c14Limiter) Acquire(ctx context.Context) (core.Listener, bool) {
	if !*l.grant {
		l.log.add("acquire(%s)=refused", l.name)
		return nil, false
	}
	l.n++
	l.log.add("acquire(%s)=token%d", l.name, l.n)
	return &c14Token{l, l.n}, true
}
func (l *c14Limiter) String() string { return "limiter-" + l.name }
func (k *c14Token) OnSuccess()       { k.lim.log.add("success(%s.token%d)", k.lim.name, k.id) }
func (k *c14Token) OnIgnore()        { k.lim.log.add("ignore(%s.token%d)", k.lim.name, k.id) }
func (k *c14Token) OnDropped()       { k.lim.log.add("dropped(%s.token%d)", k.lim.name, k.id) }

type c14Stream struct {
	log *c14Log
	err error
	ctx context.Context
}

func (s *c14Stream) SetHeader(metadata.MD) error  { return nil }
func (s *c14Stream) SendHeader(metadata.MD) error { return nil }
func (s *c14Stream) SetTrailer(metadata.MD)       {}
func (s *c14Stream) Context() context.Context {
	if s.ctx != nil {
		return s.ctx
	}
	return context.Background()
}
func (s *c14Stream) SendMsg(m any) error { s.log.add("call(send)"); return s.err }
func (s *c14Stream) RecvMsg(m any) error { s.log.add("call(recv)"); return s.err }

var c14Outcome = []string{"success", "ignore", "dropped"}

func runC14(_ *testing.T, c c14Case) (out kit.Outcome) {
	defer func() {
		if r := recover(); r != nil {
			out = kit.Viol(c.Kind+":panic", "panic: %v", r)
		}
	}()
	log := &c14Log{}
	grant := true
	var cur c14Call
	unary := &c14Limiter{name: "unary", log: log, grant: &grant}
	recvL := &c14Limiter{name: "recv", log: log, grant: &grant}
	sendL := &c14Limiter{name: "send", log: log, grant: &grant}
	exceededResp := &struct{ x int }{42}
	// each direction of a stream gets a classifier of its own: it says who it is and chooses its own code
	excCode := func(dir string, code int) codes.Code {
		if dir == "send" {
			return codes.Code((code + 5) % 17)
		}
		return codes.Code(code)
	}
	var exceededDir string
	exceeded := func(ctx context.Context, method string, req interface{}, l core.Limiter) (interface{}, codes.Code, error) {
		dir := exceededDir
		tag := ""
		if dir != "" {
			tag = "-" + dir
		}
		log.add("exceeded-classifier%s(%v)", tag, l)
		var err error = errors.New("over the limit")
		other := codes.Code(cur.Code%16 + 1) // a code different from the chosen one
		if dir != "" {
			other = codes.Code(1 + (int(excCode(dir, cur.Code))+3)%16) // never OK: status.Error(OK) would be a nil error, and the classifier must return a non-nil one
		}
		switch cur.ExcErr {
		case 1:
			err = status.Error(other, "downstream said no")
		case 2:
			err = fmt.Errorf("shedding: %w", status.Error(other, "downstream said no"))
		}
		return exceededResp, excCode(dir, cur.Code), err
	}
	exceededFor := func(d string) gcl.LimitExceededResponseClassifier {
		return func(ctx context.Context, method string, req interface{}, l core.Limiter) (interface{}, codes.Code, error) {
			exceededDir = d
			defer func() { exceededDir = "" }()
			return exceeded(ctx, method, req, l)
		}
	}
	// a second, independent client interceptor used from inside wrapped calls (its events go to a log of their own)
	reentryViolation := ""
	nestedGrant := true
	nestedL := &c14Limiter{name: "nested", log: &c14Log{}, grant: &nestedGrant}
	nestedI := gcl.UnaryClientInterceptor(gcl.WithLimiter(nestedL), gcl.WithName("nested"))
	// reenter: the wrapped call goes through the *same* interceptor once more, with the context it was handed (an
	// interceptor installed twice on a chain, a handler that dispatches back through it). The inner passage is a call
	// like any other: it acquires from the configured limiter and completes what it acquired. Its events are recorded
	// apart from those of the outer call.
	var reenter func(ctx context.Context) string
	nest := func(ctx context.Context) {
		if cur.Nested == 3 {
			if msg := reenter(ctx); msg != "" && reentryViolation == "" {
				reentryViolation = msg
			}
			return
		}
		if cur.Nested == 0 {
			return
		}
		nestedGrant = cur.Nested == 1
		_ = nestedI(ctx, "/svc/N", "req", "reply", nil, func(ctx context.Context, method string, req, reply interface{}, cc *grpc.ClientConn, opts ...grpc.CallOption) error {
			return nil
		})
	}
	resps := []any{nil, &struct{ a int }{1}, "text", 7}
	callErrs := []error{nil, errors.New("wrapped call failed"), io.EOF, context.Canceled, status.Error(codes.Unavailable, "down"), context.DeadlineExceeded, io.ErrUnexpectedEOF}

	var (
		serverI grpc.UnaryServerInterceptor
		clientI grpc.UnaryClientInterceptor
		streamI grpc.StreamServerInterceptor
		outerI  grpc.StreamServerInterceptor
	)
	switch c.Kind {
	case "server", "client":
		var opts []gcl.InterceptorOption
		if c.Named {
			opts = append(opts, gcl.WithName("n"), gcl.WithTags([]string{"a:b"}), gcl.WithStreamTags([]string{"c:d"}))
		}
		if c.CustomLimiter {
			opts = append(opts, gcl.WithLimiter(unary))
		}
		if c.CustomExceeded {
			opts = append(opts, gcl.WithLimitExceededResponseClassifier(exceeded))
		}
		if c.CustomClass {
			opts = append(opts,
				gcl.WithServerResponseTypeClassifier(func(ctx context.Context, req interface{}, info *grpc.UnaryServerInfo, resp interface{}, err error) gcl.ResponseType {
					log.add("classify")
					return gcl.ResponseType(cur.Classify)
				}),
				gcl.WithClientResponseTypeClassifier(func(ctx context.Context, method string, req, reply interface{}, err error) gcl.ResponseType {
					log.add("classify")
					return gcl.ResponseType(cur.Classify)
				}))
		}
		opts = permuteOpts(opts, c.OptOrder)
		serverI = gcl.UnaryServerInterceptor(opts...)
		clientI = gcl.UnaryClientInterceptor(opts...)
	case "stream":
		var opts []gcl.StreamInterceptorOption
		if c.Named {
			opts = append(opts, gcl.WithStreamRecvName("r"), gcl.WithStreamSendName("s"))
		}
		if c.CustomLimiter && c.StreamCustom != "send" {
			opts = append(opts, gcl.WithStreamRecvLimiter(recvL))
		}
		if c.CustomLimiter && c.StreamCustom != "recv" {
			opts = append(opts, gcl.WithStreamSendLimiter(sendL))
		}
		if c.CustomExceeded && c.ExcOnly != "send" {
			opts = append(opts, gcl.WithStreamRecvLimitExceededResponseClassifier(exceededFor("recv")))
		}
		if c.CustomExceeded && c.ExcOnly != "recv" {
			opts = append(opts, gcl.WithStreamSendLimitExceededResponseClassifier(exceededFor("send")))
		}
		if c.CustomClass {
			cl := func(ctx context.Context, req interface{}, info *grpc.StreamServerInfo, err error) gcl.ResponseType {
				log.add("classify")
				return gcl.ResponseType(cur.Classify)
			}
			opts = append(opts, gcl.WithStreamServerResponseTypeClassifier(cl), gcl.WithStreamClientResponseTypeClassifier(cl))
		}
		opts = permuteOpts(opts, c.OptOrder)
		streamI = gcl.StreamServerInterceptor(opts...)
		outerI = gcl.StreamServerInterceptor()
	}

	reenter = func(ctx context.Context) string {
		if !c.CustomLimiter || (c.Kind != "server" && c.Kind != "client") {
			return "" // only a recording limiter shows what the inner passage did
		}
		outerLog, saved := log, *log
		scratch := &c14Log{}
		*log = *scratch // every closure that records (limiter, classifiers) writes into the same object: empty it for the inner passage
		ran := false
		switch c.Kind {
		case "server":
			_, _ = serverI(ctx, "req2", &grpc.UnaryServerInfo{FullMethod: "/svc/M"}, func(context.Context, interface{}) (interface{}, error) { ran = true; return nil, nil })
		case "client":
			_ = clientI(ctx, "/svc/M", "req2", "reply2", nil, func(context.Context, string, interface{}, interface{}, *grpc.ClientConn, ...grpc.CallOption) error {
				ran = true
				return nil
			})
		}
		inner := append([]string(nil), outerLog.ev...)
		*log = saved
		acq, done := 0, 0
		for _, e := range inner {
			switch {
			case strings.HasPrefix(e, "acquire(unary)=token"):
				acq++
			case strings.HasPrefix(e, "success(unary.") || strings.HasPrefix(e, "ignore(unary.") || strings.HasPrefix(e, "dropped(unary."):
				done++
			}
		}
		if ran && (acq != 1 || done != 1) {
			return fmt.Sprintf("the wrapped call went through the same interceptor again with the context it had been handed: the inner call ran, having acquired %d token(s) from the configured limiter and completed %d (events of the inner passage: %v)", acq, done, inner)
		}
		return ""
	}
	var sawRefusal, sawGrant, sawNonSuccess, sawRecv, sawSend, sawSameStream bool
	var (
		liveSS    grpc.ServerStream // the wrapped stream of the handler invocation in progress (several operations on one stream)
		liveInner *c14Stream
	)
	info := &grpc.StreamServerInfo{FullMethod: "/svc/S", IsServerStream: c.StreamKind&1 != 0, IsClientStream: c.StreamKind&2 != 0}
	// runStream invokes the interceptor under test - directly, or (chained) from inside the handler of an outer,
	// all-default stream interceptor of the same package, which hands it an already wrapped stream.
	runStream := func(inner *c14Stream, h grpc.StreamHandler) error {
		if !c.Chained {
			return streamI(nil, inner, info, h)
		}
		return outerI(nil, inner, info, func(srv interface{}, ss grpc.ServerStream) error { return streamI(srv, ss, info, h) })
	}
	check := func(i int) *kit.Outcome {
		call := c.Calls[i]
		cur = call
		custom := c.CustomLimiter && (c.Kind != "stream" || c.StreamCustom == "" || c.StreamCustom == call.Dir)
		grant = call.Grant || !custom // the default limiter (limit 1000) always grants here
		mark := len(log.ev)
		wantErr := callErrs[call.Err%len(callErrs)]
		wantResp := resps[call.Resp]
		var gotResp any
		var gotErr error
		callCtx := context.Background()
		switch call.CtxDone {
		case 1:
			cctx, cancel := context.WithCancel(callCtx)
			cancel()
			callCtx = cctx
		case 2:
			cctx, cancel := context.WithDeadline(callCtx, time.Unix(1, 0))
			defer cancel()
			callCtx = cctx
		}
		limName := "unary"
		switch c.Kind {
		case "server":
			gotResp, gotErr = serverI(callCtx, "req", &grpc.UnaryServerInfo{FullMethod: "/svc/M"}, func(ctx context.Context, req interface{}) (interface{}, error) {
				log.add("call")
				nest(ctx)
				return wantResp, wantErr
			})
		case "client":
			gotErr = clientI(callCtx, "/svc/M", "req", "reply", nil, func(ctx context.Context, method string, req, reply interface{}, cc *grpc.ClientConn, opts ...grpc.CallOption) error {
				log.add("call")
				nest(ctx)
				return wantErr
			})
		case "stream":
			limName = call.Dir
			op := func(ss grpc.ServerStream) error {
				if call.Dir == "recv" {
					return ss.RecvMsg("m")
				}
				return ss.SendMsg("m")
			}
			if liveSS != nil {
				// inside a handler that performs several operations on one wrapped stream
				liveInner.err, liveInner.ctx = wantErr, callCtx
				gotErr = op(liveSS)
				break
			}
			inner := &c14Stream{log: log, err: wantErr, ctx: callCtx}
			handlerRan := false
			herr := runStream(inner, func(srv interface{}, ss grpc.ServerStream) error {
				handlerRan = true
				gotErr = op(ss)
				return gotErr
			})
			if !handlerRan {
				o := kit.Viol("stream:handler", "stream handler not invoked")
				return &o
			}
			if herr != gotErr {
				o := kit.Viol("stream:result", "interceptor changed the handler's result")
				return &o
			}
		}
		ev := log.ev[mark:]
		desc := strings.Join(ev, " ")
		if !grant {
			sawRefusal = true
			want := []string{fmt.Sprintf("acquire(%s)=refused", limName)}
			customExc := c.CustomExceeded && (c.Kind != "stream" || c.ExcOnly == "" || c.ExcOnly == call.Dir)
			if customExc && c.Kind == "stream" {
				want = append(want, "exceeded-classifier-"+call.Dir+"(limiter-"+limName+")")
			} else if customExc {
				want = append(want, "exceeded-classifier(limiter-"+limName+")")
			}
			for _, e := range ev {
				if strings.HasPrefix(e, "exceeded-classifier") && (len(want) < 2 || e != want[1]) {
					o := kit.Viol(c.Kind+":refused-classifier", "call %d %+v refused by limiter %s: events [%s]: the limit-exceeded classifier consulted is not the one configured for this call (%v)", i, call, limName, desc, want[1:])
					return &o
				}
			}
			ok := len(ev) >= 1 && ev[0] == want[0]
			for _, e := range ev {
				if strings.HasPrefix(e, "call") || strings.Contains(e, "token") {
					ok = false
				}
				if strings.HasPrefix(e, "acquire(") && e != want[0] {
					ok = false
				}
			}
			if !ok {
				o := kit.Viol(c.Kind+":refused-events", "call %d %+v refused by limiter %s: events [%s], expected only %v (wrapped call not invoked, no token touched)", i, call, limName, desc, want)
				return &o
			}
			wantCode := codes.ResourceExhausted
			if customExc && c.Kind == "stream" {
				wantCode = excCode(call.Dir, call.Code)
			} else if customExc {
				wantCode = codes.Code(call.Code)
			}
			if status.Code(gotErr) != wantCode {
				o := kit.Viol(c.Kind+":refused-code", "call %d refused: returned status %v, limit-exceeded classifier chose %v", i, status.Code(gotErr), wantCode)
				return &o
			}
			if c.Kind == "server" && customExc && gotResp != any(exceededResp) {
				o := kit.Viol("server:refused-resp", "call %d refused: response is not the limit-exceeded classifier's", i)
				return &o
			}
			return nil
		}
		// granted path
		sawGrant = true
		if gotErr != wantErr || (c.Kind == "server" && gotResp != wantResp) {
			o := kit.Viol(c.Kind+":result-changed", "call %d %+v: wrapped call returned (%v,%v), interceptor returned (%v,%v)", i, call, wantResp, wantErr, gotResp, gotErr)
			return &o
		}
		outcome := "success"
		classified := false
		if c.CustomClass {
			if c.Kind != "stream" || call.Err != 0 {
				outcome = c14Outcome[call.Classify]
				classified = true
			}
		} else if call.Err != 0 {
			outcome = "dropped"
		}
		if outcome != "success" {
			sawNonSuccess = true
		}
		if c.Kind == "stream" {
			sawRecv = sawRecv || call.Dir == "recv"
			sawSend = sawSend || call.Dir == "send"
		}
		if !custom {
			// default limiter: only the wrapped call and the classifier are observable
			want := "call"
			if c.Kind == "stream" {
				want = "call(" + call.Dir + ")"
			}
			n := 0
			for _, e := range ev {
				if e == want {
					n++
				}
				if strings.HasPrefix(e, "acquire(") {
					o := kit.Viol(c.Kind+":wrong-limiter", "call %d %+v runs on the default %s limiter, yet a configured limiter was asked: [%s]", i, call, limName, desc)
					return &o
				}
			}
			if n != 1 {
				o := kit.Viol(c.Kind+":call-count", "call %d: wrapped call ran %d times: [%s]", i, n, desc)
				return &o
			}
			return nil
		}
		var want []string
		tok := 0
		for _, e := range ev {
			if strings.HasPrefix(e, "acquire(") {
				fmt.Sscanf(e[strings.Index(e, "=token")+6:], "%d", &tok)
				break
			}
		}
		want = append(want, fmt.Sprintf("acquire(%s)=token%d", limName, tok))
		if c.Kind == "stream" {
			want = append(want, "call("+call.Dir+")")
		} else {
			want = append(want, "call")
		}
		if classified {
			want = append(want, "classify")
		}
		want = append(want, fmt.Sprintf("%s(%s.token%d)", outcome, limName, tok))
		if desc != strings.Join(want, " ") {
			sig := c.Kind + ":granted-events"
			if len(ev) > 0 && strings.HasPrefix(ev[0], "acquire(") && !strings.HasPrefix(ev[0], "acquire("+limName+")") {
				sig = c.Kind + ":wrong-limiter"
			}
			o := kit.Viol(sig, "call %d %+v: events [%s], expected [%s]", i, call, desc, strings.Join(want, " "))
			return &o
		}
		return nil
	}
	times := c.Times
	if times < 1 {
		times = 1
	}
	for round := 0; round < times; round++ {
		for i := 0; i < len(c.Calls); {
			j := i + 1
			for c.Kind == "stream" && j < len(c.Calls) && c.Calls[j].Same {
				j++
			}
			if j == i+1 {
				if o := check(i); o != nil {
					return *o
				}
				if reentryViolation != "" {
					return kit.Viol(c.Kind+":reentry", "call %d %+v: %s", i, c.Calls[i], reentryViolation)
				}
				i = j
				continue
			}
			// operations i..j-1 run on one wrapped stream, inside one handler invocation
			sawSameStream = true
			var viol *kit.Outcome
			var last error
			liveInner = &c14Stream{log: log}
			herr := runStream(liveInner, func(srv interface{}, ss grpc.ServerStream) error {
				liveSS = ss
				defer func() { liveSS = nil }()
				reps := c.StreamTimes
				if reps < 1 {
					reps = 1
				}
				for rep := 0; rep < reps && viol == nil; rep++ {
					for k := i; k < j && viol == nil; k++ {
						viol = check(k)
					}
				}
				last = errors.New("handler result")
				return last
			})
			if viol != nil {
				return *viol
			}
			if herr != last {
				return kit.Viol("stream:result", "interceptor changed the handler's result")
			}
			i = j
		}
	}
	if sawSameStream {
		out.Labels = append(out.Labels, "several-ops-on-one-stream")
	}
	if c.Chained {
		out.Labels = append(out.Labels, "chained-interceptors")
	}
	out.NonTrivial = sawRefusal && sawGrant && sawNonSuccess && (c.Kind != "stream" || (sawRecv && sawSend))
	out.Labels = append(out.Labels, "kind:"+c.Kind, fmt.Sprintf("custom-limiter:%v", c.CustomLimiter))
	if c.StreamCustom != "" {
		out.Labels = append(out.Labels, "stream-one-limiter-configured")
	}
	return out
}

func TestC14_interceptors(t *testing.T) {
	kit.RequireMode(t, "std")
	kit.Check(t, kit.Prop[c14Case]{
		ID: "C14", Quick: 4000, Thor: 400_000,
		Rule: "option sets x call sequences (grant/refuse, result, classifier answer, status code, stream direction) on recording doubles, wrapped unary calls that themselves go through another client interceptor with the context they were handed; event grammar per call; non-trivial = a refusal, a grant and a non-success classification (streams: both directions)",
		Gen:  genC14, Run: runC14,
	})
}

// permuteOpts reorders an option list by the generated permutation (stable for missing entries).
func permuteOpts[T any](opts []T, order []int) []T {
	if len(order) == 0 {
		return opts
	}
	type kv struct {
		k int
		v T
	}
	tmp := make([]kv, len(opts))
	for i, o := range opts {
		k := i
		if i < len(order) {
			k = order[i]
		}
		tmp[i] = kv{k, o}
	}
	for i := 1; i < len(tmp); i++ {
		for j := i; j > 0 && tmp[j].k < tmp[j-1].k; j-- {
			tmp[j], tmp[j-1] = tmp[j-1], tmp[j]
		}
	}
	out := make([]T, len(tmp))
	for i, x := range tmp {
		out[i] = x.v
	}
	return out
}
