package harness

// C06 — loss response: a drop never raises the limit and sustained drops reach the floor.

import (
	"math"
	"testing"

	"pgregory.net/rapid"

	"verifharness/kit"
)

type c06Case struct {
	PrefixTimes int      `json:"prefix_times,omitempty"` // the prefix history is fed that many times over (thousands of samples before the judged part)
	Cfg         LimitCfg `json:"cfg"`
	Prefix      []Sample `json:"prefix"`
	Drop        Sample   `json:"drop"`  // (a) the single drop sample
	Run         []Sample `json:"run"`   // (b) drop samples, cycled for as long as the bound allows
	Const       bool     `json:"const"` // (b) use Run[0].RTT for the whole run
}

// genLossCfg: configurations for which the loss/recovery claims are stated (DESIGN 4/C06).
func genLossCfg(t *rapid.T, algos []string) LimitCfg {
	c := genLimitCfg(t, algos, false)
	if c.Smoothing != 0 && c.Smoothing < 0.05 {
		c.Smoothing = 0.05
	}
	switch c.Algo {
	case "vegas":
		if c.ProbeMult >= 1 && c.ProbeMult < 4 {
			c.ProbeMult = 4 // multipliers <= 3 at an estimate < 2 make every sample a probe (documented, DESIGN 6)
		}
	case "gradient", "gradient2":
		// a state below the queue allowance is below the floor: start at or above it
		q := c.effectiveQueue()
		for i := 0; i < 8 && c.Initial < q(c.Initial); i++ {
			c.Initial = q(c.Initial)
		}
		if c.Initial < c.Min {
			c.Initial = c.Min
		}
	}
	return c
}

func genC06(t *rapid.T) c06Case {
	c := c06Case{Cfg: genLossCfg(t, []string{"aimd", "vegas", "gradient"})}
	c.Cfg.Listener = rapid.IntRange(0, 2).Draw(t, "withListener") == 0
	if rapid.IntRange(0, 3).Draw(t, "behindTraced") == 0 {
		// the algorithm behind the traced wrapper (a pass-through: every sample must reach it unchanged)
		c.Cfg.Traced, c.Cfg.TraceDebug = true, rapid.Bool().Draw(t, "traceDebug")
	}
	if c.Cfg.Algo == "vegas" && rapid.IntRange(0, 4).Draw(t, "customNoLoad") == 0 {
		c.Cfg.NoLoad = "single" // a caller-supplied baseline measurement (latest value): drops must still bring the limit down
	}
	if c.Cfg.Algo == "gradient" && rapid.IntRange(0, 4).Draw(t, "defaultMax") == 0 {
		c.Cfg.Max = rapid.SampledFrom([]int{0, -1, -1000}).Draw(t, "unsetMax") // "use the default maximum"; the configured minimum stays what it is
	}
	if c.Cfg.NoLoad == "" && c.Cfg.known("max") {
		genUnsetSafe(t, &c.Cfg) // short constructors / parameters left to the library's defaults (no default value is assumed)
	}
	if rapid.Bool().Draw(t, "hasPrefix") {
		c.Prefix = genSamples(t, c.Cfg, 150)
		c.PrefixTimes = rapid.SampledFrom([]int{1, 1, 1, 1, 1, 1, 3, 10, 30}).Draw(t, "prefixTimes")
	}
	d := genSamples(t, c.Cfg, 1)[0]
	d.Drop = true
	c.Drop = d
	c.Const = rapid.Bool().Draw(t, "const")
	n := 1
	if !c.Const {
		n = rapid.IntRange(1, 12).Draw(t, "runlen")
	}
	for i := 0; i < n; i++ {
		s := genSamples(t, c.Cfg, 1)[0]
		s.Drop = true
		if c.Const && s.RTT == 0 {
			s.RTT = 1
		}
		c.Run = append(c.Run, s)
	}
	return c
}

func aimdAfterDrop(limit int, ratio float64) int {
	return int(math.Max(1, math.Min(float64(limit-1), math.Floor(float64(limit)*ratio))))
}

func runC06(_ *testing.T, c c06Case) kit.Outcome {
	b := buildLimit(c.Cfg, nil)
	algo := c.Cfg.Algo
	changed := false
	defaults := c.Cfg.Ctor != "" || len(c.Cfg.Unset) > 0
	if defaults && b.Outer.EstimatedLimit() < c.Cfg.floorOf() {
		return kit.Outcome{Labels: []string{"discard:default-initial-below-min"}}
	}
	aimdFormula := algo == "aimd" && c.Cfg.Ctor == ""
	prefix := c.Prefix
	for r := 1; r < c.PrefixTimes; r++ {
		prefix = append(prefix, c.Prefix...)
	}
	for _, s := range prefix {
		before := b.Outer.EstimatedLimit()
		b.Outer.OnSample(s.Start, s.RTT, s.inflight(before), s.Drop)
		after := b.Outer.EstimatedLimit()
		changed = changed || after != before
		if s.Drop {
			if after > before {
				return kit.Viol(algo+":drop-raised", "prefix drop sample %+v raised the estimate %d -> %d", s, before, after)
			}
			if aimdFormula && after != aimdAfterDrop(before, c.Cfg.Backoff) {
				return kit.Viol("aimd:formula", "drop at limit %d ratio %v: got %d want %d", before, c.Cfg.Backoff, after, aimdAfterDrop(before, c.Cfg.Backoff))
			}
		}
	}
	// (a) one drop sample from this reachable state
	before := b.Outer.EstimatedLimit()
	b.Outer.OnSample(0, c.Drop.RTT, c.Drop.inflight(before), true)
	after := b.Outer.EstimatedLimit()
	if after > before {
		return kit.Viol(algo+":drop-raised", "drop sample %+v raised the estimate %d -> %d", c.Drop, before, after)
	}
	if aimdFormula {
		if want := aimdAfterDrop(before, c.Cfg.Backoff); after != want {
			return kit.Viol("aimd:formula", "drop at limit %d ratio %v: got %d want max(1,min(limit-1,floor(limit*ratio)))=%d", before, c.Cfg.Backoff, after, want)
		}
	}
	if defaults && algo != "aimd" {
		// (b) with the library's own defaults in play: no bound can be derived without assuming their values; the
		// run must still never move up, and it must keep moving down: the run goes on until 1000 further drops change nothing (the floor),
		// and that floor must not lie above the one a fresh instance of the same configuration settles at.
		return runC06Defaults(c, b, changed)
	}
	// (b) sustained drops
	start := b.Outer.EstimatedLimit()
	q := c.Cfg.effectiveQueue()
	atFloor := func(r int) bool {
		switch algo {
		case "gradient":
			return r == maxInt(c.Cfg.Min, q(r))
		}
		return r == 1
	}
	var bound float64
	switch algo {
	case "aimd":
		bound = float64(start)
	case "vegas":
		bound = 2*(math.Ceil(float64(start)/c.Cfg.Smoothing)+1) + 2
	case "gradient":
		bound = math.Ceil(math.Log(float64(maxInt(start, 2)))/-math.Log(1-c.Cfg.Smoothing/2)) + 10 // +10: integer plateaus of the allowance clamp
	}
	absorbed := 0
	steps := 0
	reached := atFloor(start)
	const hardCap = 400_000
	for !reached && steps < hardCap {
		s := c.Run[steps%len(c.Run)]
		if c.Const {
			s = c.Run[0]
		}
		prev := b.Outer.EstimatedLimit()
		nlBefore, _ := b.noLoad()
		b.Outer.OnSample(0, s.RTT, s.inflight(prev), true)
		if algo == "vegas" {
			// baseline maintenance sample: by design not a limit update (DESIGN 4/C06) - provided the maintenance really
			// took place: a faster sample that is swallowed *without* becoming the baseline is an ordinary sample
			if nlAfter, _ := b.noLoad(); nlBefore == 0 || (s.RTT < nlBefore && nlAfter == s.RTT) {
				absorbed++
			}
		}
		steps++
		cur := b.Outer.EstimatedLimit()
		if cur > prev {
			return kit.Viol(algo+":drop-raised", "drop %d of a sustained run (%+v) raised the estimate %d -> %d", steps, s, prev, cur)
		}
		if aimdFormula && cur != aimdAfterDrop(prev, c.Cfg.Backoff) {
			return kit.Viol("aimd:formula", "drop at limit %d ratio %v: got %d", prev, c.Cfg.Backoff, cur)
		}
		reached = atFloor(cur)
		allowed := bound
		if algo == "vegas" {
			allowed = bound + 2*float64(absorbed)
		}
		if !reached && float64(steps) > allowed {
			return kit.Viol(algo+":floor-not-reached", "after %d sustained drops (bound %.0f from the configuration, %d baseline-maintenance samples) the estimate is %d, started at %d, floor not reached",
				steps, allowed, absorbed, cur, start)
		}
	}
	out := kit.Outcome{Labels: []string{"algo:" + algo}}
	if !reached {
		out.Labels = append(out.Labels, "run-all-absorbed")
		return out
	}
	// at the floor further drops change nothing
	fl := b.Outer.EstimatedLimit()
	for i := 0; i < 3; i++ {
		s := c.Run[i%len(c.Run)]
		b.Outer.OnSample(0, s.RTT, s.inflight(fl), true)
		if cur := b.Outer.EstimatedLimit(); cur > fl {
			return kit.Viol(algo+":drop-raised", "drop at the floor raised the estimate %d -> %d", fl, cur)
		}
	}
	gap := start - b.Outer.EstimatedLimit()
	out.NonTrivial = changed && gap >= 3
	if gap >= 3 {
		out.Labels = append(out.Labels, "run>=3-above-floor")
	}
	if bound > 0 {
		use := float64(steps) / (bound + 2*float64(absorbed))
		switch {
		case use > 0.75:
			out.Labels = append(out.Labels, "bound-use>0.75:"+algo)
		case use > 0.5:
			out.Labels = append(out.Labels, "bound-use>0.5:"+algo)
		}
	}
	return out
}

func runC06Defaults(c c06Case, b built, changed bool) kit.Outcome {
	algo := c.Cfg.Algo
	out := kit.Outcome{Labels: []string{"algo:" + algo, "defaults-in-play"}}
	// runs blocks of 1000 drops until a whole block leaves the estimate where it was (settled) or the cap is hit
	const block, maxBlocks = 1000, 300
	run := func(x built) (val int, settled bool, v *kit.Outcome) {
		i := 0
		for blk := 0; blk < maxBlocks; blk++ {
			at := x.Outer.EstimatedLimit()
			for j := 0; j < block; j++ {
				s := c.Run[i%len(c.Run)]
				if c.Const {
					s = c.Run[0]
				}
				i++
				prev := x.Outer.EstimatedLimit()
				x.Outer.OnSample(0, s.RTT, s.inflight(prev), true)
				if cur := x.Outer.EstimatedLimit(); cur > prev {
					w := kit.Viol(algo+":drop-raised", "drop %d of a sustained run (%+v) raised the estimate %d -> %d (defaults in play: ctor=%q unset=%v)", i, s, prev, cur, c.Cfg.Ctor, c.Cfg.Unset)
					return 0, false, &w
				}
			}
			if x.Outer.EstimatedLimit() == at {
				return at, true, nil
			}
		}
		return x.Outer.EstimatedLimit(), false, nil
	}
	start := b.Outer.EstimatedLimit()
	got, gotSettled, v := run(b)
	if v != nil {
		return *v
	}
	fresh, err := tryBuildLimit(c.Cfg, nil)
	if err != nil {
		return out
	}
	want, wantSettled, v := run(fresh)
	if v != nil {
		return *v
	}
	if algo == "gradient" && c.Cfg.ProbeInterval != -1 {
		out.Labels = append(out.Labels, "defaults:gradient-probing-not-compared")
		return out
	}
	if algo == "vegas" && !c.Const {
		// arbitrary RTTs: Vegas may consume any number of the samples as baseline maintenance (DESIGN 4/C06); only a
		// constant positive RTT makes all but the first sample and the probes effective
		out.Labels = append(out.Labels, "defaults:vegas-arbitrary-rtts-not-compared")
		return out
	}
	if !gotSettled || !wantSettled {
		out.Labels = append(out.Labels, "defaults:run-not-settled-within-cap")
		return out
	}
	if got > want {
		return kit.Viol(algo+":floor-not-reached", "defaults in play (ctor=%q unset=%v): sustained drops settle a fresh instance at %d, the instance that lived through the prefix (estimate %d) settles at %d and further drops no longer move it", c.Cfg.Ctor, c.Cfg.Unset, want, start, got)
	}
	out.NonTrivial = changed && start-got >= 3
	return out
}

func TestC06_loss(t *testing.T) {
	kit.RequireMode(t, "std")
	kit.Check(t, kit.Prop[c06Case]{
		ID: "C06", Quick: 3000, Thor: 500_000,
		Rule: "configuration x arbitrary prefix history x one drop sample x sustained drop run (constant or arbitrary rtts); non-trivial = the prefix changed the estimate and the run started >=3 above the floor",
		Gen:  genC06, Run: runC06,
	})
}
