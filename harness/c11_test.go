package harness

// C11 — queue limiter serves waiters in the configured order (FIFO / LIFO).

import (
	"fmt"
	"math"
	"sort"
	"testing"
	"testing/synctest"
	"time"

	"github.com/platinummonkey/go-concurrency-limits/core"
	"github.com/platinummonkey/go-concurrency-limits/limit"
	"pgregory.net/rapid"

	"verifharness/kit"
)

type c11Op struct {
	K       string `json:"k"` // arrive | release | sleep | cancel | setlimit | churn
	N       int    `json:"n,omitempty"`
	Idx     int    `json:"idx,omitempty"`
	Outcome int    `json:"outcome,omitempty"`
	D       int    `json:"d,omitempty"` // sleep ms
}

type c11Case struct {
	Stack StackCfg `json:"stack"`
	Ops   []c11Op  `json:"ops"`
}

func (c StackCfg) wantLIFO() bool {
	switch c.Kind {
	case "queue":
		return c.Defaults || c.Ordering == "lifo" || c.Ordering == ""
	case "lifo-dep":
		return true
	case "pool", "fixedpool":
		return c.Ordering == "lifo"
	}
	return false
}

func genC11(t *rapid.T) c11Case {
	var c c11Case
	c.Stack.Kind = rapid.SampledFrom([]string{"queue", "queue", "queue", "fifo-dep", "lifo-dep", "pool", "fixedpool"}).Draw(t, "kind")
	c.Stack.Limit = rapid.IntRange(1, 2).Draw(t, "limit")
	c.Stack.Strategy = rapid.SampledFrom([]string{"simple", "precise"}).Draw(t, "strategy")
	c.Stack.Backlog = rapid.IntRange(2, 6).Draw(t, "backlog")
	c.Stack.TimeoutMs = rapid.SampledFrom([]int{10, 10, 20, 20, 40, 100, 1000}).Draw(t, "timeout")
	if rapid.IntRange(0, 5).Draw(t, "forever") == 0 {
		// "wait for as long as it takes": the largest durations there are; only releases (and evicting cancellations) end a wait
		c.Stack.TimeoutMs = 0
		c.Stack.TimeoutNs = rapid.SampledFrom([]int64{math.MaxInt64, math.MaxInt64 - 1, math.MaxInt64 / 2, int64(250 * 365 * 24 * time.Hour)}).Draw(t, "foreverNs")
	}
	if c.Stack.TimeoutNs != 0 && c.Stack.Kind != "pool" && c.Stack.Kind != "fixedpool" && rapid.IntRange(0, 2).Draw(t, "negForever") == 0 {
		c.Stack.TimeoutNs = rapid.SampledFrom([]int64{-1, -1_000_000_000}).Draw(t, "negNs") // the queue limiter's other spelling of "no time-out"
	}
	switch c.Stack.Kind {
	case "queue":
		c.Stack.Ordering = rapid.SampledFrom([]string{"fifo", "lifo", ""}).Draw(t, "ordering")
		c.Stack.Evict = rapid.Bool().Draw(t, "evict")
		c.Stack.Defaults = rapid.IntRange(0, 5).Draw(t, "defaults") == 0
		if c.Stack.Defaults {
			c.Stack.Ordering, c.Stack.Evict = "", false
		}
	case "fifo-dep", "lifo-dep":
		c.Stack.Defaults = rapid.IntRange(0, 3).Draw(t, "defaults") == 0
	case "pool", "fixedpool":
		c.Stack.Ordering = rapid.SampledFrom([]string{"fifo", "lifo"}).Draw(t, "ordering")
		if c.Stack.Kind == "fixedpool" {
			c.Stack.Strategy = ""
		}
	}
	op := rapid.Custom(func(t *rapid.T) c11Op {
		switch k := rapid.IntRange(0, 12).Draw(t, "k"); {
		case k < 1:
			return c11Op{K: "arrive-cancelled"}
		case k < 4:
			return c11Op{K: "arrive"}
		case k < 7:
			return c11Op{K: "release", Idx: rapid.IntRange(0, 50).Draw(t, "idx"), Outcome: rapid.IntRange(0, 2).Draw(t, "outcome")}
		case k < 10:
			if rapid.IntRange(0, 11).Draw(t, "churn") == 0 {
				return c11Op{K: "churn", N: rapid.SampledFrom([]int{10, 60, 127, 128, 129, 130, 200, 300}).Draw(t, "churnN"), Outcome: rapid.IntRange(0, 2).Draw(t, "churnOutcome")}
			}
			return c11Op{K: "sleep", D: rapid.SampledFrom([]int{1, 3, 5, 8, 8, 15, 30}).Draw(t, "d")}
		case k < 11:
			return c11Op{K: "cancel", Idx: rapid.IntRange(0, 50).Draw(t, "idx")}
		default:
			return c11Op{K: "setlimit", N: rapid.IntRange(1, 3).Draw(t, "n")}
		}
	})
	// a burst of arrivals first so that a backlog exists, then the generated mix
	n := rapid.IntRange(2, 6).Draw(t, "arrivals")
	collapse := c.Stack.Kind != "fixedpool" && rapid.IntRange(0, 11).Draw(t, "collapse") == 0
	if collapse {
		// a limit that collapses far below the number of tokens out: release after release frees nothing usable, the
		// head of the line is looked at (and refused by the delegate) again and again, and must still be the one served
		// when capacity finally returns
		c.Stack.Limit = rapid.IntRange(17, 24).Draw(t, "bigLimit")
		n = c.Stack.Limit + rapid.IntRange(2, minInt(3, c.Stack.Backlog)).Draw(t, "waiting")
	}
	for i := 0; i < n; i++ {
		c.Ops = append(c.Ops, c11Op{K: "arrive"})
	}
	if collapse {
		c.Ops = append(c.Ops, c11Op{K: "setlimit", N: rapid.IntRange(1, 2).Draw(t, "collapsedTo")}, c11Op{K: "drain", N: c.Stack.Limit + 1})
	}
	c.Ops = append(c.Ops, rapid.SliceOfN(op, 1, 25).Draw(t, "ops")...)
	return c
}

func runC11(t *testing.T, c c11Case) kit.Outcome {
	return bubble(t, func() kit.Outcome { return runC11InBubble(c) })
}

func runC11InBubble(c c11Case) (out kit.Outcome) {
	t0 := time.Now()
	// the limit algorithm is a settable one: a "setlimit" op moves the algorithm's estimate and the strategy together, as a
	// window update does, so that sample windows closing later on (long histories) re-apply the same value
	settable := limit.NewSettableLimit("c11", c.Stack.Limit, nil)
	var lim core.Limit
	if c.Stack.Kind != "fixedpool" {
		lim = settable
	}
	st, err := buildStack(c.Stack, lim, nil, t0)
	if err != nil {
		return kit.Outcome{Harness: "stack: " + err.Error()}
	}
	w := newWorld(st, t0)
	lifo := c.Stack.wantLIFO()
	kind := c.Stack.Kind
	if c.Stack.Defaults {
		kind += "-defaults"
	} else if c.Stack.Kind == "queue" && c.Stack.Ordering == "" {
		kind += "-noordering"
	}
	limit := c.Stack.Limit
	timeout := c.Stack.effTimeout()
	unwindFor := timeout + 2*time.Second
	if timeout > 100*365*24*time.Hour {
		// a wait that no clock outlasts: nobody expires within the case (the model's expiry instant is simply far away,
		// kept small enough not to overflow), and the case is unwound by releases and cancellations
		timeout = 100 * 365 * 24 * time.Hour
		unwindFor = 2 * time.Second
	}
	maxBacklog := c.Stack.effBacklog()
	evict := c.Stack.Evict && !c.Stack.Defaults

	// model
	type mw struct {
		cl     *vtCaller
		expiry time.Duration
	}
	var backlog []mw           // arrival order (oldest first)
	var held []*vtCaller       // granted, token not completed
	expected := map[int]bool{} // caller id -> expected ok, for callers expected to have returned
	var sawChoice, sawGoneAhead, sawSetLimit bool
	goneAhead := false // some caller that was ahead in line left by timeout/cancel

	finish := func(reason string) kit.Outcome {
		msg := w.unwind(unwindFor)
		w.flush()
		_ = msg
		return kit.Viol(kind+":order", "%s", reason)
	}
	verify := func(when string) string {
		synctest.Wait()
		snap := w.snapshot()
		for _, cl := range snap {
			want, ok := expected[cl.ID]
			if cl.Done != ok {
				if cl.Done {
					return fmt.Sprintf("%s: caller %d returned ok=%v at +%v, the %s order expects it to be still waiting (backlog by arrival: %s)", when, cl.ID, cl.OK, cl.RetAt, ordName(lifo), fmtBacklog(backlogIDs(len(backlog), func(i int) int { return backlog[i].cl.ID })))
				}
				return fmt.Sprintf("%s: caller %d should have returned ok=%v (%s order) but is still blocked", when, cl.ID, want, ordName(lifo))
			}
			if cl.Done && cl.OK != want {
				return fmt.Sprintf("%s: caller %d returned ok=%v, expected %v", when, cl.ID, cl.OK, want)
			}
		}
		return ""
	}
	expire := func(now time.Duration) {
		kept := backlog[:0:0]
		for i, b := range backlog {
			if b.expiry <= now {
				expected[b.cl.ID] = false
				if (lifo && i < len(backlog)-1) || (!lifo && i > 0) || len(backlog) > 1 {
					goneAhead = true
				}
			} else {
				kept = append(kept, b)
			}
		}
		backlog = kept
	}

	// churn(N) stands for N rounds of "a new caller arrives, the longest-held token is released": the backlog keeps
	// its length while hand-off follows hand-off (a long-lived, permanently saturated limiter)
	var ops []c11Op
	for _, op := range c.Ops {
		if op.K != "churn" {
			ops = append(ops, op)
			continue
		}
		for r := 0; r < op.N; r++ {
			ops = append(ops, c11Op{K: "arrive"}, c11Op{K: "release", Idx: 0, Outcome: (op.Outcome + r) % 3})
		}
	}
	// drain(N) stands for N releases in a row
	for i := 0; i < len(ops); i++ {
		if ops[i].K == "drain" {
			var rel []c11Op
			for r := 0; r < ops[i].N; r++ {
				rel = append(rel, c11Op{K: "release", Idx: 0, Outcome: r % 3})
			}
			ops = append(ops[:i:i], append(rel, ops[i+1:]...)...)
			i += len(rel) - 1
		}
	}
	for i, op := range ops {
		switch op.K {
		case "arrive-cancelled":
			// a caller whose context is already done: with eviction it must not stay in line
			time.Sleep(time.Millisecond)
			synctest.Wait()
			expire(w.now())
			cl := w.newCaller("a", 0, 0)
			cl.cancel()
			w.start(cl)
			switch {
			case len(held) < limit:
				held = append(held, cl)
				expected[cl.ID] = true
			case len(backlog) >= maxBacklog:
				expected[cl.ID] = false
			case evict:
				expected[cl.ID] = false // evicted at once
			default:
				backlog = append(backlog, mw{cl, w.now() + timeout}) // cancellation is not observed
			}
		case "arrive":
			time.Sleep(time.Millisecond) // distinct arrival (hence expiry) instants
			synctest.Wait()              // timers due at this very instant fire before the arrival (no tie)
			expire(w.now())
			cl := w.newCaller("a", 0, 0)
			w.start(cl)
			switch {
			case len(held) < limit:
				held = append(held, cl)
				expected[cl.ID] = true
			case len(backlog) >= maxBacklog:
				expected[cl.ID] = false
			default:
				backlog = append(backlog, mw{cl, w.now() + timeout})
			}
		case "release":
			if len(held) == 0 {
				continue
			}
			k := op.Idx % len(held)
			h := held[k]
			held = append(held[:k], held[k+1:]...)
			room := limit - len(held)
			if len(backlog) > 0 && room > 0 {
				if len(backlog) >= 3 {
					sawChoice = true
				}
				if goneAhead {
					sawGoneAhead = true
				}
			}
			w.release(h, op.Outcome)
			synctest.Wait()
			// One release hands capacity to the caller first in line - and, where the enforced limit has grown in
			// the meantime, possibly to further callers, always in the configured order: the callers served form a
			// prefix of the line, at least one of them if there is room, never more than there is room for.
			served := 0
			for len(backlog) > 0 {
				j := 0
				if lifo {
					j = len(backlog) - 1
				}
				next := backlog[j]
				w.mu.Lock()
				done, ok := next.cl.Done, next.cl.OK
				w.mu.Unlock()
				if !done || !ok {
					break
				}
				backlog = append(backlog[:j], backlog[j+1:]...)
				held = append(held, next.cl)
				expected[next.cl.ID] = true
				served++
			}
			switch {
			case served > maxInt(room, 0):
				return finish(fmt.Sprintf("op %d (release): %d waiting callers were served by one release although only %d unit(s) were free (limit %d)", i, served, maxInt(room, 0), limit))
			case served == 0 && room > 0 && len(backlog) > 0:
				first := backlog[0]
				if lifo {
					first = backlog[len(backlog)-1]
				}
				expected[first.cl.ID] = true // reported by verify below as "should have returned"
			}
		case "sleep":
			time.Sleep(time.Duration(op.D) * time.Millisecond)
			synctest.Wait()
			expire(w.now())
		case "setlimit":
			// the enforced limit changes while tokens are out and callers wait (a release that frees no
			// usable capacity must leave the line untouched)
			switch {
			case st.simple != nil:
				settable.SetLimit(op.N)
				st.simple.SetLimit(op.N)
			case st.precise != nil:
				settable.SetLimit(op.N)
				st.precise.SetLimit(op.N)
			default:
				continue
			}
			limit = op.N
			sawSetLimit = true
		case "cancel":
			if len(backlog) == 0 {
				continue
			}
			k := op.Idx % len(backlog)
			b := backlog[k]
			if evict {
				backlog = append(backlog[:k], backlog[k+1:]...)
				expected[b.cl.ID] = false
				goneAhead = true
			}
			b.cl.cancel()
		}
		if msg := verify(fmt.Sprintf("op %d (%s)", i, op.K)); msg != "" {
			return finish(msg)
		}
	}
	if msg := w.unwind(unwindFor); msg != "" {
		w.flush()
		return kit.Viol(kind+":stuck", "%s", msg)
	}
	w.flush()
	out.NonTrivial = sawChoice && sawGoneAhead
	out.Labels = []string{"kind:" + kind, "order:" + ordName(lifo)}
	if sawChoice {
		out.Labels = append(out.Labels, "release-with>=3-waiting")
	}
	if sawGoneAhead {
		out.Labels = append(out.Labels, "left-ahead-in-line")
	}
	if sawSetLimit {
		out.Labels = append(out.Labels, "limit-changed")
	}
	return out
}

func ordName(lifo bool) string {
	if lifo {
		return "LIFO"
	}
	return "FIFO"
}

func backlogIDs(n int, f func(int) int) []int {
	out := make([]int, n)
	for i := range out {
		out[i] = f(i)
	}
	return out
}

func fmtBacklog(ids []int) string {
	s := append([]int(nil), ids...)
	_ = sort.IntsAreSorted(s)
	return fmt.Sprint(s)
}

func TestC11_order(t *testing.T) {
	kit.RequireMode(t, "std")
	kit.Check(t, kit.Prop[c11Case]{
		ID: "C11", Quick: 4000, Thor: 400_000,
		Rule: "every way of constructing a queue limiter/pool x arrivals at distinct virtual instants, releases, time-outs and cancellations; each op's returning callers compared with a reference backlog in the documented order; non-trivial = a release with >=3 waiting and a caller that left (time-out/cancel) while others kept waiting",
		Gen:  genC11, Run: runC11, Timeout: 30 * time.Second,
	})
}
