package harness

// C08 — more latency never means more limit (update is monotone in the observed RTT).

import (
	"testing"

	"pgregory.net/rapid"

	"verifharness/kit"
)

type c08Case struct {
	Cfg        LimitCfg `json:"cfg"`
	Prefix     []Sample `json:"prefix"`
	Final      Sample   `json:"final"`                 // in-flight / drop flag of the final sample (RTT field unused)
	DLow       int64    `json:"d_low"`                 // rtt_low  = baseline + DLow
	Mul        int      `json:"mul"`                   // rtt_high = rtt_low * Mul/100 + DHigh  (Mul >= 100)
	DHigh      int64    `json:"d_high"`                // >= 1 when Mul == 100
	AfterProbe int64    `json:"after_probe,omitempty"` // gradient, >0: the prefix is cut right after its first baseline probe and one saturated sample with this RTT sets the new baseline
	FromPrev   bool     `json:"from_prev,omitempty"`   // rtt_low = current baseline, rtt_high relative to the baseline in force before its latest change (when that was higher)
	ZeroLow    bool     `json:"zero_low,omitempty"`    // gradient2 with d_low == 0: rtt_low = 0
	Pm         int      `json:"pm,omitempty"`          // further rtt_low * Pm/1000 added to rtt_high (ratios just above 1)
	// Ref / RefPct: rtt_low is placed relative to the RTTs the history has seen - RefPct percent of the last / mean /
	// smallest RTT of the prefix - so that pairs only a few permille apart straddle whatever internal threshold is a
	// multiple of a remembered RTT (it is still raised to the baseline where the algorithm has one)
	Ref    string `json:"ref,omitempty"`
	RefPct int    `json:"ref_pct,omitempty"`
	// EveryPrefix: the pair is tried not only after the whole history but after every one of its prefixes (the history
	// is cut at every length): whatever internal counter or threshold a particular number of samples trips is met
	EveryPrefix bool `json:"every_prefix,omitempty"`
}

func genC08(t *rapid.T) c08Case {
	c := c08Case{Cfg: genLimitCfg(t, []string{"vegas", "gradient", "gradient2"}, false)}
	c.Cfg.Listener = rapid.IntRange(0, 2).Draw(t, "withListener") == 0
	if rapid.IntRange(0, 3).Draw(t, "behindTraced") == 0 {
		// the algorithm behind the traced wrapper (a pass-through: every sample must reach it unchanged)
		c.Cfg.Traced, c.Cfg.TraceDebug = true, rapid.Bool().Draw(t, "traceDebug")
	}
	if c.Cfg.Algo == "vegas" && c.Cfg.Initial > c.Cfg.Max {
		// Vegas only: with the estimate above the ceiling its "no change" branch keeps the estimate
		// while the "grow" branch clamps it down to the maximum. Domain decision (DESIGN 6). Gradient
		// and Gradient2 cap every path, so they are checked above the ceiling as well.
		c.Cfg.Initial = c.Cfg.Max
	}
	if c.Cfg.Algo == "vegas" && rapid.IntRange(0, 3).Draw(t, "customNoLoad") == 0 {
		// a caller-supplied baseline measurement with the meaning of the default one (the caller's own minimum, or a
		// minimum behind a type of the caller's). Other measurements (latest value, averages, percentiles) are outside
		// the claim: Vegas adopts a sample as the new baseline when it lies below the *reported* baseline, and with a
		// baseline that is not a minimum the pair can straddle that value in ways the reported integer does not show
		c.Cfg.NoLoad = rapid.SampledFrom([]string{"minimum", "minimum-wrapped"}).Draw(t, "noload")
	}
	if c.Cfg.Algo == "gradient2" && c.Cfg.LongWindow < 1 {
		c.Cfg.LongWindow = 1
	}
	if c.Cfg.Algo == "gradient" && rapid.IntRange(0, 2).Draw(t, "probing") == 0 {
		// histories with several baseline probes behind them (a final sample that is itself a probe moves both twins alike)
		c.Cfg.ProbeInterval = rapid.IntRange(1, 40).Draw(t, "pi2")
		if rapid.Bool().Draw(t, "cutAfterProbe") {
			c.AfterProbe = rapid.Int64Range(1, 1_000_000).Draw(t, "settleRTT")
		}
	}
	if rapid.IntRange(0, 5).Draw(t, "defaults") == 0 {
		// short constructors / parameters left to the library defaults (monotonicity needs no knowledge of their values)
		switch c.Cfg.Algo {
		case "vegas":
			c.Cfg.Ctor = "default"
		case "gradient2":
			if rapid.Bool().Draw(t, "g2default") {
				c.Cfg.Ctor = "default"
			} else {
				c.Cfg.Unset = rapid.SampledFrom([][]string{{"smoothing"}, {"max"}, {"min", "max"}, {"initial", "min", "max"}, {"smoothing", "max"}}).Draw(t, "g2unset")
			}
		case "gradient":
			c.Cfg.Unset = rapid.SampledFrom([][]string{{"smoothing"}, {"tol"}, {"max"}, {"min"}, {"initial"}, {"smoothing", "tol", "max"}}).Draw(t, "gunset")
		}
	}
	if rapid.IntRange(0, 4).Draw(t, "hasPrefix") > 0 {
		c.Prefix = genSamples(t, c.Cfg, 120)
	}
	c.Final = genSamples(t, c.Cfg, 1)[0]
	switch rapid.IntRange(0, 4).Draw(t, "saturate") {
	case 0:
	case 1: // app-limited: well below half the estimate
		c.Final.Rel, c.Final.Inf = rapid.SampledFrom([]string{"third", "", ""}).Draw(t, "idlerel"), rapid.IntRange(0, 1).Draw(t, "idleinf")
	default:
		c.Final.Rel = rapid.SampledFrom([]string{"eq", "dbl"}).Draw(t, "satrel")
	}
	c.DLow = rapid.OneOf(rapid.Just(int64(0)), rapid.Int64Range(0, 1000), rapid.Int64Range(0, 1_000_000_000)).Draw(t, "dlow")
	c.Mul = rapid.SampledFrom([]int{100, 100, 101, 110, 150, 200, 400, 1000}).Draw(t, "mul")
	c.FromPrev = rapid.IntRange(0, 3).Draw(t, "fromPrev") == 0
	c.ZeroLow = c.Cfg.Algo == "gradient2" && c.DLow == 0 && rapid.Bool().Draw(t, "zeroLow")
	if c.Cfg.Algo == "vegas" && rapid.IntRange(0, 2).Draw(t, "vegasProbing") == 0 {
		// frequent probes; optionally stop the history right after the baseline dropped
		c.Cfg.ProbeMult = rapid.IntRange(1, 3).Draw(t, "pm3")
		if rapid.Bool().Draw(t, "cutAfterDrop") {
			c.AfterProbe = 1
			c.FromPrev = c.FromPrev || rapid.Bool().Draw(t, "fromPrev2") // straddle the baseline that was in force before the drop
		}
	}
	c.FromPrev = rapid.IntRange(0, 3).Draw(t, "fromPrev") == 0
	c.ZeroLow = c.Cfg.Algo == "gradient2" && c.DLow == 0 && rapid.Bool().Draw(t, "zeroLow")
	if c.Cfg.Algo == "vegas" && rapid.IntRange(0, 2).Draw(t, "vegasProbing") == 0 {
		// frequent probes; optionally stop the history right after the baseline dropped
		c.Cfg.ProbeMult = rapid.IntRange(1, 3).Draw(t, "pm3")
		if rapid.Bool().Draw(t, "cutAfterDrop") {
			c.AfterProbe = 1
			c.FromPrev = c.FromPrev || rapid.Bool().Draw(t, "fromPrev2") // straddle the baseline that was in force before the drop
		}
	}
	if len(c.Prefix) > 0 && rapid.IntRange(0, 2).Draw(t, "relToHistory") == 0 {
		c.Ref = rapid.SampledFrom([]string{"last", "last", "mean", "min"}).Draw(t, "ref")
		c.RefPct = rapid.SampledFrom([]int{25, 50, 90, 100, 110, 150, 199, 200, 201, 300, 400}).Draw(t, "refPct")
		if rapid.Bool().Draw(t, "steady") {
			// a steady history: every remembered RTT (latest, averages, minimum) is the same value
			r := rapid.OneOf(rapid.Int64Range(100, 100_000), rapid.Int64Range(1_000_000, 50_000_000)).Draw(t, "steadyRTT")
			// ... optionally idle (app-limited: the estimate stands still while the history goes on), and optionally
			// after one faster sample at the very start (a baseline below the steady level that only a probe replaces)
			idle := rapid.IntRange(0, 2).Draw(t, "steadyIdle") == 0
			for i := range c.Prefix {
				c.Prefix[i].RTT, c.Prefix[i].Drop = r, false
				if idle {
					c.Prefix[i].Rel, c.Prefix[i].Inf = "third", 0
				} else if c.Prefix[i].Rel == "" || c.Prefix[i].Rel == "third" {
					c.Prefix[i].Rel = "eq"
				}
			}
			if rapid.Bool().Draw(t, "steadyDip") {
				c.Prefix[0].RTT = maxI64(1, r*int64(rapid.SampledFrom([]int{10, 33, 50, 90}).Draw(t, "dipPct"))/100)
			}
		}
	}
	if rapid.IntRange(0, 39).Draw(t, "climb") == 0 {
		// a long history of ever slower samples (a dependency degrading for minutes): each RTT a fixed factor above the
		// one before, for hundreds of samples, so that every average lags behind by more than any fixed ratio; the final
		// pair is placed relative to the last RTT of that history
		n := rapid.IntRange(90, 420).Draw(t, "climbLen")
		g := rapid.SampledFrom([]float64{1.01, 1.02, 1.05, 1.1, 1.3}).Draw(t, "climbFactor")
		r := float64(rapid.Int64Range(1000, 10_000_000).Draw(t, "climbBase"))
		idle := rapid.IntRange(0, 2).Draw(t, "climbIdle") == 0
		c.Prefix = c.Prefix[:0]
		for i := 0; i < n; i++ {
			sm := Sample{RTT: int64(r), Rel: "eq"}
			if idle {
				sm.Rel, sm.Inf = "third", 0
			}
			c.Prefix = append(c.Prefix, sm)
			if r < 1e15 {
				r *= g
			}
		}
		c.Ref = "last"
		c.RefPct = rapid.SampledFrom([]int{10, 25, 50, 90, 100, 110, 150, 199, 200, 201, 300}).Draw(t, "climbRefPct")
		c.AfterProbe = 0
		c.EveryPrefix = true
	}
	c.Pm = rapid.OneOf(rapid.Just(0), rapid.Just(0), rapid.IntRange(1, 999), rapid.IntRange(1, 150)).Draw(t, "pm")
	c.DHigh = rapid.OneOf(rapid.Just(int64(1)), rapid.Int64Range(1, 1000), rapid.Int64Range(1, 1_000_000_000)).Draw(t, "dhigh")
	return c
}

func runC08(_ *testing.T, c c08Case) kit.Outcome {
	type res struct {
		pre, post int
		base      int64
	}
	// One instance lives through the prefix; it is then copied, state for state (clone_test.go), and the two copies
	// get the final sample with the lower and the higher RTT. No random source has to be reproducible for that.
	probed := false
	b := buildLimit(c.Cfg, nil)
	var prevBase int64 // the baseline in force before the most recent change of the baseline
	// judge tries the pair(s) on copies of the instance as it stands after the samples seen so far
	judge := func(seen []Sample, full bool) (*kit.Outcome, res, res, int64) {
		var ref int64
		if c.Ref != "" && len(seen) > 0 {
			var sum, mn int64 = 0, seen[0].RTT
			for _, s := range seen {
				sum += s.RTT / int64(len(seen))
				if s.RTT < mn {
					mn = s.RTT
				}
			}
			switch c.Ref {
			case "last":
				ref = seen[len(seen)-1].RTT
			case "mean":
				ref = sum
			default:
				ref = mn
			}
			if ref > 1<<50 {
				ref = 0
			}
		}
		// pcts: the places (percent of the reference RTT) at which a pair is tried; one history serves all of them,
		// each pair on its own two copies of the instance
		pcts := []int{c.RefPct}
		if ref > 0 && full {
			pcts = []int{c.RefPct, 25, 50, 75, 100, 125, 150, 200, 250, 300, 400}
		} else if ref > 0 {
			pcts = []int{c.RefPct, []int{10, 25, 50, 100, 200}[len(seen)%5]}
		}
		run := func(high bool, pct int) res {
			x := deepClone(b.Inner)
			b := built{Outer: x, Inner: x}
			var r res
			r.pre = b.Outer.EstimatedLimit()
			r.base, _ = b.noLoad()
			low := r.base + c.DLow
			if ref > 0 {
				if v := ref/100*int64(pct) + ref%100*int64(pct)/100; v >= r.base {
					low = v
				}
			}
			if c.FromPrev && prevBase > low {
				low = r.base // rtt_low sits at the current baseline, rtt_high is taken relative to the previous one (below)
			}
			if low < 1 && !(c.Cfg.Algo == "gradient2" && c.ZeroLow) {
				low = 1 // (Gradient2 keeps no baseline: there the lower RTT may be 0, the smallest valid RTT)
			}
			rtt := low
			if high {
				if c.FromPrev && prevBase > low {
					low = prevBase
				}
				rtt = low/100*int64(c.Mul) + low%100*int64(c.Mul)/100 + c.DHigh
				if low < 1<<50 {
					rtt += low * int64(c.Pm) / 1000
				} else {
					rtt += low / 1000 * int64(c.Pm)
				}
				if rtt <= low { // overflow guard
					rtt = low + 1
				}
			}
			b.Outer.OnSample(0, rtt, c.Final.inflight(r.pre), c.Final.Drop)
			r.post = b.Outer.EstimatedLimit()
			return r
		}
		var a, bb res
		for i, pct := range pcts {
			x, y := run(false, pct), run(true, pct)
			if x.pre != y.pre || x.base != y.base {
				o := kit.Outcome{Harness: "twin instances diverged before the final sample (harness defect)"}
				return &o, a, bb, ref
			}
			if y.post > x.post {
				o := kit.Viol(c.Cfg.Algo+":rtt-monotone", "same history of %d samples (estimate %d, baseline %d), same in-flight/drop: the higher RTT gave estimate %d, the lower RTT %d (pair placed at %d%% of the %s RTT of the history)", len(seen), x.pre, x.base, y.post, x.post, pct, c.Ref)
				return &o, a, bb, ref
			}
			if i == 0 || x.post != y.post {
				a, bb = x, y
			}
		}
		return nil, a, bb, ref
	}
	fed := 0
	judgeEach := func(n int) *kit.Outcome {
		v, _, _, _ := judge(c.Prefix[:n], false)
		return v
	}
	for _, s := range c.Prefix {
		if c.EveryPrefix && fed >= 2 {
			if v := judgeEach(fed); v != nil {
				return *v
			}
		}
		had, _ := b.noLoad()
		b.Outer.OnSample(s.Start, s.RTT, s.inflight(b.Outer.EstimatedLimit()), s.Drop)
		fed++
		now, _ := b.noLoad()
		if now != had {
			prevBase = had
		}
		if c.AfterProbe > 0 && c.Cfg.Algo == "gradient" && had != 0 && now == 0 {
			b.Outer.OnSample(0, c.AfterProbe, b.Outer.EstimatedLimit(), false)
			probed = true
			break
		}
		if c.AfterProbe > 0 && c.Cfg.Algo == "vegas" && had != 0 && now < had {
			break // right after the baseline dropped (through a faster sample, or through a probe that landed on one)
		}
	}
	viol, a, bb, ref := judge(c.Prefix[:fed], true)
	if viol != nil {
		return *viol
	}
	out := kit.Outcome{Labels: []string{"algo:" + c.Cfg.Algo}}
	if probed {
		out.Labels = append(out.Labels, "final-right-after-probe")
	}
	if c.Cfg.Ctor != "" || len(c.Cfg.Unset) > 0 {
		out.Labels = append(out.Labels, "defaults-in-play")
	}
	if ref > 0 {
		out.Labels = append(out.Labels, "rtt-relative-to-history")
	}
	if !c.Final.Drop && 2*c.Final.inflight(a.pre) < a.pre {
		out.Labels = append(out.Labels, "final-app-limited")
	}
	if a.post != bb.post {
		out.NonTrivial = true
		out.Labels = append(out.Labels, "outcomes-differ")
	} else if a.post != a.pre {
		out.NonTrivial = true
		out.Labels = append(out.Labels, "both-moved-equally")
	}
	return out
}

func TestC08_monotone(t *testing.T) {
	kit.RequireMode(t, "std")
	kit.Check(t, kit.Prop[c08Case]{
		ID: "C08", Quick: 30000, Thor: 800_000,
		Rule: "twin instances (same jitter seed, same prefix history) fed a final sample differing only in RTT (low >= baseline, high > low); non-trivial = the two outcomes differ or both moved away from the pre-sample estimate",
		Gen:  genC08, Run: runC08,
	})
}
