package harness

// C01 / C02 — the counting gate over the lifetime of one instance. A server keeps a strategy for days; whatever running
// totals, tickets or sequence numbers the gate keeps internally pass 2^31 and 2^32 sooner or later. No compressed-history
// device applies here - every grant is a real call - so this is plain depth: in the thorough tier each strategy kind
// grants and releases a token 2^32 + 2^16 times (the kinds run side by side, a few minutes each), with 1-3 tokens
// outstanding from the start to the end; the quick tier stops at 2^20. Oracle: the counting gate. Every pair must be
// granted (held < limit at that moment); around 2^15, 2^16, 2^31 and 2^32 grants in total the busy count is read after
// every single grant and release, and every 2^24 pairs the instance is audited: busy == held, exactly limit - held
// further tokens are admitted, the next request is refused, busy returns to held when they are released.

import (
	"context"
	"fmt"
	"sync"
	"testing"
	"time"

	"github.com/platinummonkey/go-concurrency-limits/core"
	"github.com/platinummonkey/go-concurrency-limits/strategy"
	"github.com/platinummonkey/go-concurrency-limits/strategy/matchers"
	"pgregory.net/rapid"

	"verifharness/kit"
)

type c01lCase struct {
	Kinds []string `json:"kinds"`
	Log2  int      `json:"log2"`  // 2^Log2 + 2^16 grant/release pairs per kind
	Held  int      `json:"held"`  // tokens outstanding throughout
	Limit int      `json:"limit"` // total limit (partitioned kinds: key a owns half of it)
}

func runC01L(_ *testing.T, c c01lCase) kit.Outcome {
	total := uint64(1)<<uint(c.Log2) + 1<<16
	var mu sync.Mutex
	var first *kit.Outcome
	var wg sync.WaitGroup
	for _, kind := range c.Kinds {
		wg.Add(1)
		go func(kind string) {
			defer wg.Done()
			if o := c01lOne(kind, c, total); o != nil {
				mu.Lock()
				if first == nil {
					first = o
				}
				mu.Unlock()
			}
		}(kind)
	}
	wg.Wait()
	if first != nil {
		return *first
	}
	return kit.Outcome{NonTrivial: c.Log2 >= 20, Labels: []string{fmt.Sprintf("pairs:2^%d", c.Log2)}}
}

func c01lOne(kind string, c c01lCase, total uint64) *kit.Outcome {
	ctx := context.WithValue(context.WithValue(context.Background(), matchers.StringPredicateContextKey, "a"), matchers.LookupPartitionContextKey, "a")
	reg := core.EmptyMetricRegistryInstance
	var s core.Strategy
	var busy func() int
	room := c.Limit // what key a may hold at most while nobody else holds anything
	switch kind {
	case "simple":
		st := strategy.NewSimpleStrategy(c.Limit)
		s, busy = st, st.GetBusyCount
	case "precise":
		st := strategy.NewPreciseStrategy(c.Limit)
		s, busy = st, st.GetBusyCount
	case "lookup":
		st, err := strategy.NewLookupPartitionStrategyWithMetricRegistry(map[string]*strategy.LookupPartition{
			"a": strategy.NewLookupPartitionWithMetricRegistry("a", 0.5, 1, reg),
			"b": strategy.NewLookupPartitionWithMetricRegistry("b", 0.5, 1, reg),
		}, func(ctx context.Context) string {
			v, _ := ctx.Value(matchers.LookupPartitionContextKey).(string)
			return v
		}, int32(c.Limit), reg)
		if err != nil {
			return &kit.Outcome{Harness: err.Error()}
		}
		s, busy = st, st.BusyCount
	case "predicate":
		mk := func(name string) *strategy.PredicatePartition {
			return strategy.NewPredicatePartitionWithMetricRegistry(name, 0.5, func(ctx context.Context) bool {
				v, _ := ctx.Value(matchers.StringPredicateContextKey).(string)
				return v == name
			}, reg)
		}
		st, err := strategy.NewPredicatePartitionStrategyWithMetricRegistry([]*strategy.PredicatePartition{mk("a"), mk("b")}, int32(c.Limit), reg)
		if err != nil {
			return &kit.Outcome{Harness: err.Error()}
		}
		s, busy = st, st.BusyCount
	}
	// (partitioned kinds: below the total limit a request is granted whatever its partition's share, so key a alone
	// may fill the whole limit - C03 - and the gate seen through key a is the same counting gate)
	viol := func(n uint64, format string, args ...any) *kit.Outcome {
		o := kit.Viol(kind+":lifetime", "after %d grant/release pairs on one instance (limit %d, %d token(s) outstanding since the start): %s", n, c.Limit, c.Held, fmt.Sprintf(format, args...))
		return &o
	}
	var held []core.StrategyToken
	for i := 0; i < c.Held; i++ {
		tk, ok := s.TryAcquire(ctx)
		if !ok || tk == nil || !tk.IsAcquired() {
			return viol(0, "token %d of the standing ones was refused", i)
		}
		held = append(held, tk)
	}
	audit := func(n uint64) *kit.Outcome {
		if b := busy(); b != c.Held {
			return viol(n, "the strategy counts %d token(s) outstanding", b)
		}
		var extra []core.StrategyToken
		for i := 0; i < room-c.Held; i++ {
			tk, ok := s.TryAcquire(ctx)
			if !ok || tk == nil || !tk.IsAcquired() {
				for _, e := range extra {
					e.Release()
				}
				return viol(n, "request %d of the %d that fit under the limit was refused", i+1, room-c.Held)
			}
			extra = append(extra, tk)
		}
		tk, ok := s.TryAcquire(ctx)
		over := ok && tk != nil && tk.IsAcquired()
		if over {
			tk.Release()
		}
		for _, e := range extra {
			e.Release()
		}
		if over {
			return viol(n, "a request was granted with %d tokens outstanding", room)
		}
		if b := busy(); b != c.Held {
			return viol(n, "after releasing the audit's tokens the strategy counts %d outstanding", b)
		}
		return nil
	}
	// total grants made on the instance so far (standing tokens, pairs and the audits' own): what an internal running
	// total would count. Within 2^16 grants of 2^15, 2^16, 2^31 and 2^32 the count is read after every single grant and
	// after every single release - a counter that is wrong for the width of one outstanding token shows there - and
	// every 2^24 pairs the instance goes through the full audit.
	grants := uint64(c.Held)
	inZone := func() bool {
		for _, edge := range []uint64{1 << 15, 1 << 16, 1 << 31, 1 << 32} {
			if grants+1<<16 >= edge && grants <= edge+1<<16 {
				return true
			}
		}
		return false
	}
	for n := uint64(1); n <= total; n++ {
		tk, ok := s.TryAcquire(ctx)
		if !ok || tk == nil || !tk.IsAcquired() {
			return viol(n, "the request was refused although only the %d standing token(s) are out", c.Held)
		}
		grants++
		zone := inZone()
		if zone {
			if b := busy(); b != c.Held+1 {
				return viol(n, "(%d grants in total) with the standing tokens and one more out the strategy counts %d outstanding", grants, b)
			}
		}
		tk.Release()
		if zone {
			if b := busy(); b != c.Held {
				return viol(n, "(%d grants in total) with only the standing tokens out the strategy counts %d outstanding", grants, b)
			}
		}
		if n&(1<<24-1) == 0 || (zone && n&1023 == 0) {
			if o := audit(n); o != nil {
				return o
			}
			grants += uint64(room - c.Held)
		}
	}
	if o := audit(total); o != nil {
		return o
	}
	for _, h := range held {
		h.Release()
	}
	if b := busy(); b != 0 {
		return viol(total, "after the standing tokens were released the strategy counts %d outstanding", b)
	}
	return nil
}

func TestC01_lifetime(t *testing.T) {
	kit.RequireMode(t, "std")
	kit.Check(t, kit.Prop[c01lCase]{
		ID: "C01", Quick: 2, Thor: 1,
		Rule: "one instance of every strategy kind (simple, precise, lookup, predicate; kinds side by side) grants and releases a token 2^20 (quick) / 2^32 (thorough) + 2^16 times with 1-3 tokens outstanding throughout; every pair is granted; within 2^16 grants of 2^15, 2^16, 2^31 and 2^32 (total grants made on the instance) the busy count is read after every single grant and release, and every 2^24 pairs (every 1024 inside those zones) the instance is audited against the counting gate (busy == held, exactly the rest of the limit admitted, the next refused); non-trivial = at least 2^20 pairs",
		Gen: func(t *rapid.T) c01lCase {
			c := c01lCase{Kinds: []string{"simple", "precise", "lookup", "predicate"}, Log2: 20, Held: rapid.IntRange(1, 3).Draw(t, "held")}
			c.Limit = c.Held + rapid.IntRange(1, 3).Draw(t, "room")
			if kit.Thorough() {
				c.Log2 = 32
			}
			return c
		},
		Run: runC01L, NoShrink: true, Timeout: 90 * time.Minute, OneShard: true,
	})
}
