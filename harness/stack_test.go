package harness

// Limiter stacks, recording metric registry and the virtual-time world shared by
// C02, C05, C09(a), C10, C11, C12, C13, C19, C20.

import (
	"context"
	"encoding/json"
	"fmt"
	"math"
	"runtime"
	"runtime/debug"
	"sort"
	"strings"
	"sync"
	"sync/atomic"
	"testing"
	"testing/synctest"
	"time"

	"github.com/platinummonkey/go-concurrency-limits/core"
	"github.com/platinummonkey/go-concurrency-limits/limit"
	"github.com/platinummonkey/go-concurrency-limits/limiter"
	"github.com/platinummonkey/go-concurrency-limits/patterns/pool"
	"github.com/platinummonkey/go-concurrency-limits/strategy"
	"github.com/platinummonkey/go-concurrency-limits/strategy/matchers"

	"verifharness/kit"
)

// ---------------------------------------------------------------------------------------------
// recording metric registry

type recSample struct {
	ID    string
	Tags  string
	Value float64
	Seq   int64
}

type recGauge struct {
	ID       string
	Tags     string
	Supplier core.MetricSupplier
}

type recRegistry struct {
	sleepOnce atomic.Int64 // when non-zero: after sleepSkip further AddSample calls, the next one sleeps that many nanoseconds (once)
	sleepSkip atomic.Int64
	sc        *sched // when set, every AddSample of a listener is a schedule point (a real registry locks, formats and writes there)
	mu        sync.Mutex
	Samples   []recSample
	Gauges    []recGauge
	Kinds     map[string]string // id|tags -> distribution/timing/count
	seq       int64
}

type recListener struct {
	r    *recRegistry
	id   string
	tags string
}

func (l *recListener) AddSample(v float64, tags ...string) {
	if l.r.sleepOnce.Load() > 0 && l.r.sleepSkip.Add(-1) < 0 {
		if d := l.r.sleepOnce.Swap(0); d > 0 {
			time.Sleep(time.Duration(d))
		}
	}
	if l.r.sc != nil {
		l.r.sc.Point("metric.addsample")
	}
	l.r.mu.Lock()
	l.r.seq++
	l.r.Samples = append(l.r.Samples, recSample{l.id, l.tags, v, l.r.seq})
	l.r.mu.Unlock()
}

func newRecRegistry() *recRegistry { return &recRegistry{Kinds: map[string]string{}} }

func (r *recRegistry) reg(kind, id string, tags []string) core.MetricSampleListener {
	r.mu.Lock()
	defer r.mu.Unlock()
	tg := strings.Join(tags, ",")
	r.Kinds[id+"|"+tg] = kind
	return &recListener{r, id, tg}
}
func (r *recRegistry) RegisterDistribution(id string, tags ...string) core.MetricSampleListener {
	return r.reg("distribution", id, tags)
}
func (r *recRegistry) RegisterTiming(id string, tags ...string) core.MetricSampleListener {
	return r.reg("timing", id, tags)
}
func (r *recRegistry) RegisterCount(id string, tags ...string) core.MetricSampleListener {
	return r.reg("count", id, tags)
}
func (r *recRegistry) RegisterGauge(id string, s core.MetricSupplier, tags ...string) {
	r.mu.Lock()
	defer r.mu.Unlock()
	r.Gauges = append(r.Gauges, recGauge{id, strings.Join(tags, ","), s})
}
func (r *recRegistry) Start() {}
func (r *recRegistry) Stop()  {}

// gauge returns the value of the (last registered) gauge with that id whose tags contain tagPart.
func (r *recRegistry) gauge(id, tagPart string) (float64, bool) {
	r.mu.Lock()
	var s core.MetricSupplier
	for _, g := range r.Gauges {
		if g.ID == id && strings.Contains(g.Tags, tagPart) {
			s = g.Supplier
		}
	}
	r.mu.Unlock()
	if s == nil {
		return 0, false
	}
	return s()
}

// pollAll calls every registered gauge supplier once (what a polling registry does from its own goroutine).
func (r *recRegistry) pollAll() {
	r.mu.Lock()
	gs := append([]recGauge(nil), r.Gauges...)
	r.mu.Unlock()
	for _, g := range gs {
		_, _ = g.Supplier()
	}
}

// take returns and clears the recorded samples.
func (r *recRegistry) take() []recSample {
	r.mu.Lock()
	defer r.mu.Unlock()
	s := r.Samples
	r.Samples = nil
	return s
}

// ---------------------------------------------------------------------------------------------
// schedule points

// sched is a generated cooperative schedule: at the i-th schedule point hit (in global order)
// the running goroutine yields Yields[i] times. It never blocks.
type sched struct {
	mu     sync.Mutex
	yields yieldList
	next   int
	Trace  []string
	delays []uint16 // virtual milliseconds a slow delegate spends inside successive Acquire calls (0 = none)
	nextD  int
	spin   bool // real-parallel mode: spin instead of yielding
	off    bool // disarmed: points are ignored (prefill / unwinding phases)
}

func (s *sched) arm(on bool) {
	if s == nil {
		return
	}
	s.mu.Lock()
	s.off = !on
	s.mu.Unlock()
}

func newSched(yields yieldList) *sched { return &sched{yields: yields} }

// yieldList is a generated schedule (yield counts); it is written as a JSON array of numbers
// (plain []uint8 would be base64) and still reads the older base64 form of saved cases.
type yieldList []uint8

func (y yieldList) MarshalJSON() ([]byte, error) {
	out := make([]int, len(y))
	for i, v := range y {
		out[i] = int(v)
	}
	return json.Marshal(out)
}

func (y *yieldList) UnmarshalJSON(b []byte) error {
	if len(b) > 0 && b[0] == '"' {
		var raw []byte
		if err := json.Unmarshal(b, &raw); err != nil {
			return err
		}
		*y = raw
		return nil
	}
	var ints []int
	if err := json.Unmarshal(b, &ints); err != nil {
		return err
	}
	out := make(yieldList, len(ints))
	for i, v := range ints {
		out[i] = uint8(v)
	}
	*y = out
	return nil
}

func (s *sched) Point(name string) {
	if s == nil {
		return
	}
	s.mu.Lock()
	if s.off {
		s.mu.Unlock()
		return
	}
	n := 0
	if s.next < len(s.yields) {
		n = int(s.yields[s.next])
	}
	s.next++
	if len(s.Trace) < 200 {
		s.Trace = append(s.Trace, name)
	}
	s.mu.Unlock()
	if s.spin {
		for i := 0; i < n*50; i++ {
			spinSink.Add(1)
		}
		return
	}
	for i := 0; i < n; i++ {
		runtime.Gosched()
	}
}

var spinSink atomic.Int64

// install routes the library's verif hooks to this schedule (nil removes them).
func (s *sched) install() {
	if s == nil {
		limiter.VerifSetHook(nil)
		strategy.VerifSetHook(nil)
		return
	}
	limiter.VerifSetHook(s.Point)
	strategy.VerifSetHook(s.Point)
}

// schedLogger is an injected limit.Logger: every Debugf of the blocking/deadline limiters (one of them
// sits between the failed attempt and the wait) is a schedule point.
type schedLogger struct {
	s     *sched
	debug bool // reports debug output as enabled (code that only logs then - and what it does around the log call - runs)
}

func (l schedLogger) Debugf(msg string, params ...interface{}) {
	n := len(msg)
	if n > 14 {
		n = 14
	}
	l.s.Point("log:" + msg[:n])
}
func (l schedLogger) IsDebugEnabled() bool { return l.debug }

// slowLimiter is an injected delegate for real-clock runs: a delegate may be slow.
type slowLimiter struct {
	inner core.Limiter
	d     time.Duration
	n     atomic.Int64
}

func (s *slowLimiter) Acquire(ctx context.Context) (core.Listener, bool) {
	l, ok := s.inner.Acquire(ctx)
	if s.n.Add(1)%3 == 0 {
		time.Sleep(s.d)
	}
	return l, ok
}

// yieldLimiter is an injected delegate: schedule points after every delegate attempt and after
// every inner completion (i.e. before the wrapper's broadcast / unblock).
type yieldLimiter struct {
	inner core.Limiter
	s     *sched
}

type yieldListener struct {
	inner core.Listener
	s     *sched
}

// delay consumes the next generated delay: a delegate may be slow (time passes inside its Acquire).
func (s *sched) delay() {
	if s == nil {
		return
	}
	s.mu.Lock()
	d := 0
	if !s.off && s.nextD < len(s.delays) {
		d = int(s.delays[s.nextD])
	}
	if !s.off {
		s.nextD++
	}
	s.mu.Unlock()
	if d > 0 {
		time.Sleep(time.Duration(d) * time.Millisecond)
	}
}

func (y *yieldLimiter) Acquire(ctx context.Context) (core.Listener, bool) {
	l, ok := y.inner.Acquire(ctx)
	if !ok || l == nil {
		y.s.Point("delegate.failed")
		return nil, false
	}
	y.s.Point("delegate.granted")
	return &yieldListener{l, y.s}, true
}
func (y *yieldLimiter) String() string { return "yieldLimiter" }
func (l *yieldListener) OnSuccess() {
	l.s.Point("inner.completing")
	l.inner.OnSuccess()
	l.s.Point("inner.completed")
}
func (l *yieldListener) OnIgnore() {
	l.s.Point("inner.completing")
	l.inner.OnIgnore()
	l.s.Point("inner.completed")
}
func (l *yieldListener) OnDropped() {
	l.s.Point("inner.completing")
	l.inner.OnDropped()
	l.s.Point("inner.completed")
}

// ---------------------------------------------------------------------------------------------
// stacks

// StackCfg describes a limiter stack (JSON-serialisable).
type StackCfg struct {
	Kind        string `json:"kind"`               // default | blocking | deadline | queue | fifo-dep | lifo-dep | pool | fixedpool
	Strategy    string `json:"strategy,omitempty"` // simple | precise | lookup | predicate
	Limit       int    `json:"limit"`
	Ordering    string `json:"ordering,omitempty"` // queue: fifo | lifo | "" ; pools: random | fifo | lifo
	Backlog     int    `json:"backlog,omitempty"`
	TimeoutMs   int    `json:"timeout_ms,omitempty"`
	Evict       bool   `json:"evict,omitempty"`
	DeadlineMs  int    `json:"deadline_ms,omitempty"`
	SlowMetrics bool   `json:"slow_metrics,omitempty"` // cooperative schedules: the registry's sample listeners are schedule points
	FmtLog      bool   `json:"fmt_log,omitempty"`      // every component of the stack is handed a logger with debug output enabled that really formats its arguments (and discards the text)
	TimeoutNs   int64  `json:"timeout_ns,omitempty"`   // overrides TimeoutMs when non-zero
	DeadlineNs  int64  `json:"deadline_ns,omitempty"`  // overrides DeadlineMs when non-zero
	DeadlineFar int    `json:"deadline_far,omitempty"` // deadline limiter: a deadline far in the future: 1 = t0 + MaxInt64 ns, 2 = year 2500, 3 = year 9999; 4 = the zero time.Time, i.e. long past (overrides the others)
	WinNs       int64  `json:"win_ns,omitempty"`       // DefaultLimiter window time (min=max); default 1 ms
	SlowUs      int    `json:"slow_us,omitempty"`      // real-clock runs only: the delegate sleeps that long in every third Acquire
	StratInit   int    `json:"strat_init,omitempty"`   // simple / precise: the limit the strategy object itself is constructed with when it differs from Limit (the limiter must bring it in line)
	Inject      bool   `json:"inject,omitempty"`       // wrap the delegate with schedule points
	Defaults    bool   `json:"defaults,omitempty"`     // use the ...WithDefaults constructor (queue kinds)
}

type stack struct {
	cfg      StackCfg
	lim      core.Limiter
	def      *limiter.DefaultLimiter
	queue    *limiter.QueueBlockingLimiter
	reg      *recRegistry
	simple   *strategy.SimpleStrategy
	precise  *strategy.PreciseStrategy
	lookup   *strategy.LookupPartitionStrategy
	pred     *strategy.PredicatePartitionStrategy
	binNames []string // partitioned strategies: bins in index order
}

var stackBinFracs = map[string]float64{"a": 0.5, "b": 0.25, "c": 0}

func stackKeyCtx(parent context.Context, key string) context.Context {
	ctx := context.WithValue(parent, matchers.LookupPartitionContextKey, key)
	return context.WithValue(ctx, matchers.StringPredicateContextKey, key)
}

func (s *stack) busy() int {
	switch {
	case s.simple != nil:
		return s.simple.GetBusyCount()
	case s.precise != nil:
		return s.precise.GetBusyCount()
	case s.lookup != nil:
		return s.lookup.BusyCount()
	case s.pred != nil:
		return s.pred.BusyCount()
	}
	return -1
}

func (s *stack) limit() int {
	switch {
	case s.simple != nil:
		return s.simple.GetLimit()
	case s.precise != nil:
		return s.precise.GetLimit()
	case s.lookup != nil:
		return s.lookup.Limit()
	case s.pred != nil:
		return s.pred.Limit()
	}
	return s.cfg.Limit
}

func (s *stack) binBusy(i int) int {
	if s.lookup != nil {
		n, _ := s.lookup.BinBusyCount(s.binNames[i])
		return n
	}
	n, _ := s.pred.BinBusyCount(i)
	return n
}

func (s *stack) partitioned() bool { return s.lookup != nil || s.pred != nil }

// binOf: the index of the bin a key is charged to (-1 = unknown bin of the lookup strategy, -2 = refused).
func (s *stack) binOf(key string) int {
	for i, n := range s.binNames {
		if n == key {
			return i
		}
	}
	if s.lookup != nil {
		return -1
	}
	return -2
}

// buildStack constructs the stack. lim (core.Limit) may be nil (FixedLimit of cfg.Limit).
func buildStack(cfg StackCfg, lim core.Limit, sc *sched, t0 time.Time) (*stack, error) {
	s := &stack{cfg: cfg, reg: newRecRegistry()}
	if cfg.SlowMetrics {
		s.reg.sc = sc
	}
	if cfg.Kind == "fixedpool" {
		ord := map[string]pool.Ordering{"random": pool.OrderingRandom, "fifo": pool.OrderingFIFO, "lifo": pool.OrderingLIFO}[cfg.Ordering]
		timeout := time.Duration(cfg.TimeoutMs) * time.Millisecond
		if cfg.TimeoutNs != 0 {
			timeout = time.Duration(cfg.TimeoutNs)
		}
		var flog limit.Logger
		if cfg.FmtLog {
			flog = debugDiscardLogger{}
		}
		p, err := pool.NewFixedPool("p", ord, cfg.Limit, 10, time.Millisecond, time.Millisecond, 0, cfg.Backlog, timeout, flog, s.reg)
		if err != nil {
			return nil, err
		}
		s.lim = p
		return s, nil
	}
	var st core.Strategy
	switch cfg.Strategy {
	case "", "simple":
		s.simple = strategy.NewSimpleStrategyWithMetricRegistry(cfg.stratInit(), s.reg)
		st = s.simple
	case "precise":
		s.precise = strategy.NewPreciseStrategyWithMetricRegistry(cfg.stratInit(), s.reg)
		st = s.precise
	case "lookup":
		s.binNames = []string{"a", "b"}
		m := map[string]*strategy.LookupPartition{}
		for _, n := range s.binNames {
			m[n] = strategy.NewLookupPartitionWithMetricRegistry(n, stackBinFracs[n], 1, s.reg)
		}
		l, err := strategy.NewLookupPartitionStrategyWithMetricRegistry(m, nil, int32(cfg.Limit), s.reg)
		if err != nil {
			return nil, err
		}
		s.lookup = l
		st = l
	case "predicate":
		s.binNames = []string{"a", "b"}
		var ps []*strategy.PredicatePartition
		for _, n := range s.binNames {
			ps = append(ps, strategy.NewPredicatePartitionWithMetricRegistry(n, stackBinFracs[n], matchers.StringPredicateMatcher(n, false), s.reg))
		}
		p, err := strategy.NewPredicatePartitionStrategyWithMetricRegistry(ps, int32(cfg.Limit), s.reg)
		if err != nil {
			return nil, err
		}
		s.pred = p
		st = p
	default:
		return nil, fmt.Errorf("strategy %q", cfg.Strategy)
	}
	if lim == nil {
		lim = limit.NewFixedLimit("fixed", cfg.Limit, nil)
	}
	win := int64(1e6)
	if cfg.WinNs > 0 {
		win = cfg.WinNs
	}
	var dlog limit.Logger
	if cfg.FmtLog {
		dlog = debugDiscardLogger{}
	}
	def, err := limiter.NewDefaultLimiter(lim, win, win, 1, 10, st, dlog, s.reg)
	if err != nil {
		return nil, err
	}
	s.def = def
	var delegate core.Limiter = def
	var logger limit.Logger
	if cfg.FmtLog {
		logger = debugDiscardLogger{}
	}
	if cfg.Inject && sc != nil {
		delegate = &yieldLimiter{def, sc}
		logger = schedLogger{sc, cfg.FmtLog}
	}
	if cfg.SlowUs > 0 {
		delegate = &slowLimiter{inner: delegate, d: time.Duration(cfg.SlowUs) * time.Microsecond}
	}
	timeout := time.Duration(cfg.TimeoutMs) * time.Millisecond
	if cfg.TimeoutNs != 0 {
		timeout = time.Duration(cfg.TimeoutNs)
	}
	deadline := t0.Add(time.Duration(cfg.DeadlineMs) * time.Millisecond)
	if cfg.DeadlineNs != 0 {
		deadline = t0.Add(time.Duration(cfg.DeadlineNs))
	}
	switch cfg.DeadlineFar {
	case 1:
		deadline = t0.Add(time.Duration(math.MaxInt64))
	case 2:
		deadline = time.Date(2500, 1, 1, 0, 0, 0, 0, time.UTC)
	case 3:
		deadline = time.Date(9999, 12, 31, 23, 59, 59, 0, time.UTC)
	case 4:
		deadline = time.Time{} // the zero instant (year 1): long past
	}
	qcfg := func(o limiter.QueueOrdering) limiter.QueueLimiterConfig {
		return limiter.QueueLimiterConfig{Ordering: o, MaxBacklogSize: cfg.Backlog, MaxBacklogTimeout: timeout,
			BacklogEvictDoneCtx: cfg.Evict, MetricRegistry: s.reg}
	}
	switch cfg.Kind {
	case "default":
		s.lim = delegate
	case "blocking":
		s.lim = limiter.NewBlockingLimiter(delegate, timeout, logger)
	case "deadline":
		s.lim = limiter.NewDeadlineLimiter(delegate, deadline, logger)
	case "queue":
		if cfg.Defaults {
			s.queue = limiter.NewQueueBlockingLimiterWithDefaults(delegate)
		} else {
			s.queue = limiter.NewQueueBlockingLimiterFromConfig(delegate, qcfg(limiter.QueueOrdering(cfg.Ordering)))
		}
		s.lim = s.queue
	case "fifo-dep":
		var f *limiter.FifoBlockingLimiter
		if cfg.Defaults {
			f = limiter.NewFifoBlockingLimiterWithDefaults(delegate)
		} else {
			f = limiter.NewFifoBlockingLimiter(delegate, cfg.Backlog, timeout)
		}
		s.queue = f.QueueBlockingLimiter
		s.lim = f
	case "lifo-dep":
		var f *limiter.LifoBlockingLimiter
		if cfg.Defaults {
			f = limiter.NewLifoBlockingLimiterWithDefaults(delegate)
		} else {
			f = limiter.NewLifoBlockingLimiter(delegate, cfg.Backlog, timeout, s.reg)
		}
		s.queue = f.QueueBlockingLimiter
		s.lim = f
	case "pool":
		ord := map[string]pool.Ordering{"random": pool.OrderingRandom, "fifo": pool.OrderingFIFO, "lifo": pool.OrderingLIFO}[cfg.Ordering]
		p, err := pool.NewPool(delegate, ord, cfg.Backlog, timeout, logger, s.reg)
		if err != nil {
			return nil, err
		}
		s.lim = p
	default:
		return nil, fmt.Errorf("kind %q", cfg.Kind)
	}
	return s, nil
}

func (c StackCfg) stratInit() int {
	if c.StratInit != 0 {
		return c.StratInit
	}
	return c.Limit
}

// isQueue reports whether the stack's outer limiter is a queue limiter (backlog semantics).
func (c StackCfg) isQueue() bool {
	switch c.Kind {
	case "queue", "fifo-dep", "lifo-dep":
		return true
	case "pool", "fixedpool":
		return c.Ordering == "fifo" || c.Ordering == "lifo"
	}
	return false
}

// effBacklog / effTimeout: configured values with the library defaults applied.
func (c StackCfg) effBacklog() int {
	if c.Defaults && c.Kind != "lifo-dep" {
		return 100
	}
	if c.Defaults || c.Backlog <= 0 {
		return 100
	}
	return c.Backlog
}

func (c StackCfg) effTimeout() time.Duration {
	if c.isQueue() {
		if c.Defaults || (c.TimeoutMs == 0 && c.TimeoutNs == 0) {
			return time.Second
		}
	}
	if c.TimeoutNs < 0 || c.TimeoutMs < 0 {
		if c.isQueue() {
			return time.Duration(math.MaxInt64) // the queue limiter arms no timer for a negative time-out: wait until served
		}
		return time.Second // pools: "use the default"; only used to size waits
	}
	if c.TimeoutNs != 0 {
		return time.Duration(c.TimeoutNs)
	}
	return time.Duration(c.TimeoutMs) * time.Millisecond
}

// unwindWait: how far the clock is advanced per unwinding round so that every configured timeout has fired. A
// timeout beyond an hour ("wait for ever", e.g. time.Duration(math.MaxInt64)) cannot be waited out; there only
// releases and cancellations unwind a case.
func (c StackCfg) unwindWait() time.Duration {
	if t := c.effTimeout(); t > 0 && t < time.Hour {
		return t + 2*time.Second
	}
	return 2 * time.Second
}

// ---------------------------------------------------------------------------------------------
// virtual-time world

type vtCaller struct {
	ID       int
	Key      string
	ctx      context.Context
	cancel   context.CancelFunc
	Arrived  time.Duration
	Started  bool
	Done     bool
	OK       bool
	L        core.Listener
	RetAt    time.Duration
	Released bool // its token has been completed
	Canceled bool
	CancelAt time.Duration
	HoldMs   int  // >0: completes by itself that long after the grant
	Relay    bool // completes its token by itself immediately after the grant (no time passes)
	Outcome  int
	Order    int64 // logical order of return
}

type vtWorld struct {
	t0      time.Time
	st      *stack
	mu      sync.Mutex
	callers []*vtCaller
	retSeq  int64
	wg      sync.WaitGroup
	holders atomic.Int64 // tokens held right now as the callers themselves see it
	maxHeld atomic.Int64

	baseGoroutines int // runtime.NumGoroutine() when the world was created (inside the bubble)

	// atReturn, when set, runs in the caller's own goroutine the moment its Acquire has returned (before the
	// harness records the result). Cooperative mode only: nothing else runs until it yields.
	atReturn func(c *vtCaller, ok bool)
}

func newWorld(st *stack, t0 time.Time) *vtWorld {
	return &vtWorld{t0: t0, st: st, baseGoroutines: runtime.NumGoroutine()}
}

func (w *vtWorld) now() time.Duration { return time.Since(w.t0) }

func complete(l core.Listener, outcome int) {
	switch outcome % 3 {
	case 0:
		l.OnSuccess()
	case 1:
		l.OnIgnore()
	default:
		l.OnDropped()
	}
}

// newCaller registers a caller (not yet started).
func (w *vtWorld) newCaller(key string, holdMs, outcome int) *vtCaller {
	ctx, cancel := context.WithCancel(stackKeyCtx(context.Background(), key))
	c := &vtCaller{ID: len(w.callers), Key: key, ctx: ctx, cancel: cancel, HoldMs: holdMs, Outcome: outcome}
	w.mu.Lock()
	w.callers = append(w.callers, c)
	w.mu.Unlock()
	return c
}

// newCallerDeadline registers a caller whose context carries a deadline (context.WithDeadline) instead of
// being cancelled by hand: the context is done from that instant on.
func (w *vtWorld) newCallerDeadline(key string, at time.Time) *vtCaller {
	ctx, cancel := context.WithDeadline(stackKeyCtx(context.Background(), key), at)
	c := &vtCaller{ID: len(w.callers), Key: key, ctx: ctx, cancel: cancel}
	w.mu.Lock()
	w.callers = append(w.callers, c)
	w.mu.Unlock()
	return c
}

// start launches the caller's Acquire in its own goroutine.
func (w *vtWorld) start(c *vtCaller) {
	c.Arrived = w.now()
	c.Started = true
	w.wg.Add(1)
	go func() {
		defer w.wg.Done()
		defer notePanic()
		l, ok := w.st.lim.Acquire(c.ctx)
		if w.atReturn != nil {
			w.atReturn(c, ok)
		}
		w.mu.Lock()
		c.L, c.OK, c.RetAt, c.Done = l, ok, w.now(), true
		w.retSeq++
		c.Order = w.retSeq
		w.mu.Unlock()
		if ok && l != nil && c.Relay {
			w.mu.Lock()
			c.Released = true
			w.mu.Unlock()
			complete(l, c.Outcome)
			return
		}
		if ok && l != nil && c.HoldMs > 0 {
			n := w.holders.Add(1)
			for {
				m := w.maxHeld.Load()
				if n <= m || w.maxHeld.CompareAndSwap(m, n) {
					break
				}
			}
			time.Sleep(time.Duration(c.HoldMs) * time.Millisecond)
			w.holders.Add(-1)
			complete(l, c.Outcome)
			w.mu.Lock()
			c.Released = true
			w.mu.Unlock()
		}
	}()
}

func (w *vtWorld) snapshot() []vtCaller {
	w.mu.Lock()
	defer w.mu.Unlock()
	out := make([]vtCaller, len(w.callers))
	for i, c := range w.callers {
		out[i] = *c
	}
	return out
}

// heldByHarness: granted callers whose token the harness still has to complete (HoldMs == 0).
func (w *vtWorld) heldByHarness() []*vtCaller {
	w.mu.Lock()
	defer w.mu.Unlock()
	var out []*vtCaller
	for _, c := range w.callers {
		if c.Done && c.OK && c.L != nil && !c.Released && c.HoldMs == 0 {
			out = append(out, c)
		}
	}
	return out
}

// outstanding: tokens granted and not yet completed (all callers).
func (w *vtWorld) outstanding() (n int, perKey map[string]int) {
	w.mu.Lock()
	defer w.mu.Unlock()
	perKey = map[string]int{}
	for _, c := range w.callers {
		if c.Done && c.OK && !c.Released {
			n++
			perKey[c.Key]++
		}
	}
	return
}

func (w *vtWorld) blocked() []*vtCaller {
	w.mu.Lock()
	defer w.mu.Unlock()
	var out []*vtCaller
	for _, c := range w.callers {
		if c.Started && !c.Done {
			out = append(out, c)
		}
	}
	return out
}

func (w *vtWorld) release(c *vtCaller, outcome int) {
	w.mu.Lock()
	if c.Released || !c.Done || !c.OK {
		w.mu.Unlock()
		return
	}
	c.Released = true
	l := c.L
	w.mu.Unlock()
	complete(l, outcome)
}

// unwind completes everything, lets every blocked caller return (cancel + advance the clock),
// and leaves no goroutine behind. It returns a description when something cannot be unwound.
func (w *vtWorld) unwind(maxWait time.Duration) string {
	// Rounds go on for as long as they make progress (each release can serve one more waiter, who then holds a token
	// the next round completes); three rounds in a row that change nothing end the attempt.
	idle, lastBlocked := 0, -1
	for round := 0; round < 20000 && idle < 3; round++ {
		synctest.Wait()
		released := 0
		for _, c := range w.heldByHarness() {
			w.release(c, 1)
			released++
		}
		synctest.Wait()
		bl := w.blocked()
		selfHolding := false
		w.mu.Lock()
		for _, c := range w.callers {
			if c.Done && c.OK && !c.Released {
				selfHolding = true
			}
		}
		w.mu.Unlock()
		if len(bl) == 0 && !selfHolding {
			break
		}
		for _, c := range bl {
			c.cancel()
		}
		synctest.Wait()
		if len(w.blocked()) > 0 || selfHolding {
			time.Sleep(maxWait)
		}
		synctest.Wait()
		if n := len(w.blocked()); released == 0 && n == lastBlocked && !selfHolding {
			idle++
		} else {
			idle = 0
			lastBlocked = n
		}
	}
	synctest.Wait()
	if bl := w.blocked(); len(bl) > 0 {
		ids := []int{}
		for _, c := range bl {
			ids = append(ids, c.ID)
		}
		sort.Ints(ids)
		if len(ids) > 50 {
			ids = ids[:50]
		}
		// last resort so that the bubble can end: nothing more we can do from the outside
		return fmt.Sprintf("callers %v still blocked after completing every token, cancelling every context and advancing the clock by %v per round until nothing changed any more", ids, maxWait)
	}
	return ""
}

// flush pushes one extra acquire+complete through the outer limiter: this broadcasts to helper
// goroutines that blockUntilSignaled leaves parked on the condition after a time-out.
func (w *vtWorld) flush() {
	// repeat while goroutines other than the bubble's root remain (each round can release helpers
	// parked on the condition of a blocking limiter)
	for i := 0; i < 300; i++ {
		w.flushOnce()
		if runtime.NumGoroutine() <= w.baseGoroutines {
			return
		}
	}
}

func (w *vtWorld) flushOnce() {
	defer func() {
		if wk, ok := w.st.lim.(interface{ VerifWake() }); ok {
			wk.VerifWake()
			synctest.Wait()
		}
	}()
	ctx, cancel := context.WithCancel(stackKeyCtx(context.Background(), "a"))
	done := make(chan struct{})
	go func() {
		defer close(done)
		if l, ok := w.st.lim.Acquire(ctx); ok && l != nil {
			l.OnIgnore()
		}
	}()
	synctest.Wait()
	cancel()
	<-done
	synctest.Wait()
}

// bubble runs f inside a synctest bubble and returns its outcome. Harness panics are converted.
func bubble[T any](t *testing.T, f func() T) (out T) {
	defer func() {
		// "deadlock: main bubble goroutine has exited but blocked goroutines remain": goroutines the
		// case could not unwind. The outcome computed by f (if any) stands; with no outcome this is a
		// harness problem (inconclusive), never a violation by itself.
		if r := recover(); r != nil {
			if o, ok := any(&out).(*kit.Outcome); ok && o.Violation == "" && o.Harness == "" {
				o.Harness = fmt.Sprintf("bubble could not end: %v", r)
			}
		}
	}()
	synctest.Test(t, func(*testing.T) {
		// a panic raised by the library itself while the case runs (in this, the bubble's root goroutine) is a
		// result of the case, not a crash of the test binary: no listed property can hold on a history whose
		// calls do not return. A panic raised by harness code stays a harness problem.
		defer func() {
			if r := recover(); r != nil {
				o, ok := any(&out).(*kit.Outcome)
				if !ok {
					panic(r)
				}
				if where := panicOrigin(string(debug.Stack())); where != "" {
					*o = kit.Viol("library-panic", "the library panicked during the case: %v (in %s)", r, where)
				} else {
					*o = kit.Outcome{Harness: fmt.Sprintf("harness panic: %v", r)}
				}
			}
		}()
		libPanic.Store(nil)
		out = f()
		if msg := libPanic.Load(); msg != nil {
			if o, ok := any(&out).(*kit.Outcome); ok && o.Violation == "" {
				*o = kit.Viol("library-panic", "%s", *msg)
			}
		}
	})
	return out
}

// libPanic: a panic raised by the library in one of the case's own goroutines (callers started by the world);
// the goroutine ends, the case goes on and bubble() turns the note into the case's outcome.
var libPanic atomic.Pointer[string]

func notePanic() {
	if r := recover(); r != nil {
		where := panicOrigin(string(debug.Stack()))
		if where == "" {
			panic(r)
		}
		msg := fmt.Sprintf("the library panicked during the case: %v (in %s)", r, where)
		libPanic.CompareAndSwap(nil, &msg)
	}
}

// panicOrigin returns the library function in which the panic recorded in a debug.Stack() dump was raised, or ""
// when the innermost non-runtime frame below the panic belongs to the harness.
func panicOrigin(stack string) string {
	lines := strings.Split(stack, "\n")
	seenPanic := false
	for _, l := range lines {
		if strings.HasPrefix(l, "panic(") {
			seenPanic = true
			continue
		}
		if !seenPanic || strings.HasPrefix(l, "\t") || strings.HasPrefix(l, "runtime.") || strings.HasPrefix(l, "sync.") || strings.HasPrefix(l, "container/") {
			continue
		}
		if strings.HasPrefix(l, "github.com/platinummonkey/go-concurrency-limits/") {
			if i := strings.LastIndex(l, "("); i > 0 {
				return strings.TrimPrefix(l[:i], "github.com/platinummonkey/go-concurrency-limits/")
			}
			return l
		}
		return ""
	}
	return ""
}

// vtEpoch: instant at which a fresh bubble's clock starts.
func vtEpoch() time.Time { return time.Now() }

func t0ctx() context.Context { return context.Background() }
