// Package kit is the shared plumbing of the verification harness: case-as-data property runner on
// top of rapid, evidence statistics, replay files, regression corpus, tier/seed/shard handling.
//
// A property is a pair (Gen, Run): Gen draws a JSON-serialisable Case from rapid (all randomness is
// inside rapid), Run executes the case against the real code with an explicit oracle and returns an
// Outcome. Run never uses an RNG of its own or the wall clock as an oracle.
package kit

import (
	"encoding/json"
	"flag"
	"fmt"
	"hash/fnv"
	"math"
	"os"
	"path/filepath"
	"runtime"
	"runtime/debug"
	"sort"
	"strconv"
	"strings"
	"sync"
	"testing"
	"time"

	"pgregory.net/rapid"
)

// Outcome is what one execution of a case reports.
type Outcome struct {
	Violation  string   // "" = the property held on this case
	Sig        string   // stable signature of the violation (known-findings matching)
	NonTrivial bool     // the case met the property's stated non-triviality rule
	Labels     []string // classes this case belongs to (distribution of interesting shapes)
	Harness    string   // "" or a harness problem (inconclusive; never a violation)
}

// Viol builds a violating outcome.
func Viol(sig, format string, args ...any) Outcome {
	return Outcome{Violation: fmt.Sprintf(format, args...), Sig: sig}
}

// Prop is one generated check of one listed property.
type Prop[C any] struct {
	ID       string // property id, e.g. "C04"
	Quick    int    // cases in the quick tier
	Thor     int    // cases in the thorough tier (all shards together)
	OneShard bool   // the thorough tier runs this test in shard 0 only (cases that take many minutes each)
	Rule     string // the non-triviality rule, in words (goes to the evidence file)
	Gen      func(t *rapid.T) C
	Run      func(t *testing.T, c C) Outcome
	NoShrink bool          // schedule/real-thread dependent: do not let rapid spend time shrinking
	Timeout  time.Duration // per-case watchdog (default CaseTimeout); virtual-time cases finish in milliseconds
}

// ---------------------------------------------------------------------------------------------
// environment

var (
	Tier     = envStr("VERIF_TIER", "quick")
	Seed     = envInt("VERIF_SEED", 1)
	Shard    = envInt("VERIF_SHARD", 0)
	Shards   = envInt("VERIF_SHARDS", 1)
	OutDir   = envStr("VERIF_OUT", "")
	Replay   = envStr("VERIF_REPLAY", "")
	Mode     = envStr("VERIF_MODE", "std")
	Scale    = envFloat("VERIF_SCALE", 1.0) // multiplies case counts (used by sensitivity runs)
	FoundDir = envStr("VERIF_FOUND", "/verif/replays/found")
	// ThorScale multiplies every test's thorough case count (measured: the thorough tier at scale 1
	// finishes in seconds for most properties, so the default explores 5x deeper)
	ThorScale = envInt("VERIF_THOR_SCALE", 5)
)

func envStr(k, d string) string {
	if v, ok := os.LookupEnv(k); ok && v != "" {
		return v
	}
	return d
}
func envInt(k string, d int) int {
	if v, ok := os.LookupEnv(k); ok {
		if n, err := strconv.Atoi(v); err == nil {
			return n
		}
	}
	return d
}
func envFloat(k string, d float64) float64 {
	if v, ok := os.LookupEnv(k); ok {
		if n, err := strconv.ParseFloat(v, 64); err == nil {
			return n
		}
	}
	return d
}

// Thorough reports whether the thorough tier is running.
func Thorough() bool { return Tier == "thorough" }

func fnv64(s string) uint64 {
	h := fnv.New64a()
	h.Write([]byte(s))
	return h.Sum64()
}

// RapidSeed maps (VERIF_SEED, shard, test name) to a non-zero rapid seed.
func RapidSeed(name string) uint64 {
	s := uint64(Seed)*0x9E3779B97F4A7C15 ^ fnv64(name) ^ (uint64(Shard)+1)*0xD1B54A32D192ED03
	s |= 1
	return s
}

// ---------------------------------------------------------------------------------------------
// statistics

// SubStats are the measured numbers of one test function.
type SubStats struct {
	Test        string         `json:"test"`
	Property    string         `json:"property"`
	Requested   int            `json:"requested"`
	Evaluations int            `json:"evaluations"`
	Regress     int            `json:"regression_cases_replayed"`
	NonTrivial  int            `json:"nontrivial"`
	Hashes      []string       `json:"nontrivial_hashes"`
	Labels      map[string]int `json:"labels"`
	Samples     []any          `json:"samples"`
	Rule        string         `json:"rule"`
	Violations  []ViolRec      `json:"violations"`
	Harness     []string       `json:"harness_problems"`
	WallS       float64        `json:"wall_s"`
	Extra       map[string]any `json:"extra,omitempty"`
}

// ViolRec describes one violation found.
type ViolRec struct {
	Sig    string `json:"sig"`
	Msg    string `json:"msg"`
	Replay string `json:"replay"`
}

var (
	statsMu  sync.Mutex
	allStats = map[string]*SubStats{}
)

func getStats(test, id, rule string) *SubStats {
	statsMu.Lock()
	defer statsMu.Unlock()
	s, ok := allStats[test]
	if !ok {
		s = &SubStats{Test: test, Property: id, Labels: map[string]int{}, Rule: rule, Extra: map[string]any{}}
		allStats[test] = s
	}
	return s
}

// Flush writes the statistics of this process; call from TestMain after m.Run().
func Flush() {
	if OutDir == "" {
		return
	}
	statsMu.Lock()
	defer statsMu.Unlock()
	list := make([]*SubStats, 0, len(allStats))
	for _, s := range allStats {
		list = append(list, s)
	}
	sort.Slice(list, func(i, j int) bool { return list[i].Test < list[j].Test })
	b, _ := json.Marshal(list)
	_ = os.MkdirAll(OutDir, 0o755)
	name := fmt.Sprintf("stats-%s-%d-%d.json", Mode, Shard, os.Getpid())
	_ = os.WriteFile(filepath.Join(OutDir, name), b, 0o644)
}

// ---------------------------------------------------------------------------------------------
// replay files

// ReplayFile is the on-disk form of a (shrunk) failing case or of a regression case.
type ReplayFile struct {
	Property  string          `json:"property"`
	Test      string          `json:"test"`
	Mode      string          `json:"mode"`
	Sig       string          `json:"sig,omitempty"`
	Violation string          `json:"violation,omitempty"`
	Note      string          `json:"note,omitempty"`
	Case      json.RawMessage `json:"case"`
}

func canon(c any) []byte {
	b, err := json.Marshal(c)
	if err != nil {
		panic("kit: case is not JSON-serialisable: " + err.Error())
	}
	return b
}

func regressDir(id string) string { return filepath.Join("testdata", "regress", id) }

// Check runs one property: regression corpus first, then generated cases (or a single replay).
func Check[C any](t *testing.T, p Prop[C]) {
	propTimeout = p.Timeout
	if _, set := os.LookupEnv("VERIF_CASE_TIMEOUT_S"); set {
		propTimeout = 0
	}
	defer func() { propTimeout = 0 }()
	test := t.Name()
	st := getStats(test, p.ID, p.Rule)
	start := time.Now()
	defer func() { statsMu.Lock(); st.WallS += time.Since(start).Seconds(); statsMu.Unlock() }()

	seenNT := map[uint64]bool{}
	account := func(c C, out Outcome, generated bool) {
		statsMu.Lock()
		defer statsMu.Unlock()
		if generated {
			st.Evaluations++
		} else {
			st.Regress++
		}
		for _, l := range out.Labels {
			st.Labels[l]++
		}
		if out.Harness != "" && len(st.Harness) < 2000 {
			st.Harness = append(st.Harness, out.Harness)
		}
		if out.NonTrivial {
			b := canon(c)
			h := fnv64(string(b))
			if !seenNT[h] {
				seenNT[h] = true
				st.NonTrivial++
				st.Hashes = append(st.Hashes, strconv.FormatUint(h, 16))
				if len(st.Samples) < 3 && len(b) < 6000 {
					st.Samples = append(st.Samples, json.RawMessage(b))
				}
			}
		}
	}

	// single replay
	if Replay != "" {
		b, err := os.ReadFile(Replay)
		if err != nil {
			t.Fatalf("replay: %v", err)
		}
		var rf ReplayFile
		if err := json.Unmarshal(b, &rf); err != nil {
			t.Fatalf("replay: %v", err)
		}
		if rf.Test != test {
			t.Skipf("replay file is for %s", rf.Test)
		}
		var c C
		if err := json.Unmarshal(rf.Case, &c); err != nil {
			t.Fatalf("replay: bad case: %v", err)
		}
		out := watched(p.ID, test, c, func() Outcome { return p.Run(t, c) })
		account(c, out, true)
		if out.Violation != "" {
			recordViolation(st, p.ID, test, rf.Case, out, Replay)
			t.Errorf("replayed case violates %s: %s", p.ID, out.Violation)
		} else {
			t.Logf("replayed case holds")
		}
		return
	}

	// regression corpus (cases that once failed on some tree; they must hold on a correct tree)
	files, _ := filepath.Glob(filepath.Join(regressDir(p.ID), "*.json"))
	sort.Strings(files)
	for _, f := range files {
		b, err := os.ReadFile(f)
		if err != nil {
			continue
		}
		var rf ReplayFile
		if json.Unmarshal(b, &rf) != nil || rf.Test != test {
			continue
		}
		var c C
		if err := json.Unmarshal(rf.Case, &c); err != nil {
			t.Logf("regress %s: stale case format: %v", f, err)
			continue
		}
		out := watched(p.ID, test, c, func() Outcome { return p.Run(t, c) })
		account(c, out, false)
		if out.Violation != "" {
			abs, _ := filepath.Abs(f)
			recordViolation(st, p.ID, test, rf.Case, out, abs)
			t.Errorf("regression case %s violates %s: %s", f, p.ID, out.Violation)
			return
		}
	}

	n := p.Quick
	if Thorough() {
		n = p.Thor * ThorScale
	}
	if p.OneShard && Thorough() {
		// cases that take many minutes each: exactly p.Thor of them, in shard 0, whatever the scale
		if Shard != 0 {
			return
		}
		n = int(math.Ceil(float64(p.Thor*Shards) / Scale))
	}
	n = int(float64(n)*Scale) / Shards
	if n < 1 {
		n = 1
	}
	statsMu.Lock()
	st.Requested += n
	statsMu.Unlock()

	_ = flag.Set("rapid.checks", strconv.Itoa(n))
	_ = flag.Set("rapid.seed", strconv.FormatUint(RapidSeed(test), 10))
	_ = flag.Set("rapid.nofailfile", "true")
	if p.NoShrink {
		_ = flag.Set("rapid.shrinktime", "1s")
	} else {
		_ = flag.Set("rapid.shrinktime", "20s")
	}

	var best struct {
		set bool
		raw []byte
		out Outcome
	}
	defer func() {
		if best.set {
			path := saveFound(p.ID, test, best.raw, best.out)
			recordViolation(st, p.ID, test, best.raw, best.out, path)
		}
	}()
	var longFailed *Outcome // OneShard: the first violation (its case takes minutes: it is not run again for shrinking or replay)
	rapid.Check(t, func(rt *rapid.T) {
		c := p.Gen(rt)
		if p.OneShard && longFailed != nil {
			rt.Fatalf("%s violated [%s]: %s", p.ID, longFailed.Sig, longFailed.Violation)
		}
		out := watched(p.ID, test, c, func() Outcome { return p.Run(t, c) })
		if p.OneShard && out.Violation != "" {
			o := out
			longFailed = &o
		}
		if out.Violation != "" && Mode == "coop" {
			// a cooperative schedule is a function of the case - unless the Go runtime itself switches goroutines (a
			// goroutine that has been on the processor for more than 10 ms of wall time, e.g. because the machine is
			// busy, is asked to yield at its next function call, async pre-emption off or not). A violation that
			// such a switch produced does not come back; one that the case produces does. It has to come back twice.
			for again := 0; again < 2 && out.Violation != ""; again++ {
				if o2 := watched(p.ID, test, c, func() Outcome { return p.Run(t, c) }); o2.Violation == "" {
					out = Outcome{Labels: []string{"unconfirmed-under-replay"}, Harness: "a violation did not reproduce on an immediate re-run of the same case (runtime-induced schedule noise): " + oneLine(out.Violation)}
				}
			}
		}
		account(c, out, true)
		if out.Violation != "" {
			raw := canon(c)
			if !best.set || len(raw) <= len(best.raw) {
				best.set, best.raw, best.out = true, raw, out
			}
			rt.Fatalf("%s violated [%s]: %s", p.ID, out.Sig, out.Violation)
		}
	})
}

func saveFound(id, test string, raw []byte, out Outcome) string {
	dir := filepath.Join(FoundDir, id)
	_ = os.MkdirAll(dir, 0o755)
	name := fmt.Sprintf("%s-%016x.json", strings.ReplaceAll(test, "/", "_"), fnv64(string(raw)))
	path := filepath.Join(dir, name)
	rf := ReplayFile{Property: id, Test: test, Mode: Mode, Sig: out.Sig, Violation: out.Violation, Case: raw}
	b, _ := json.MarshalIndent(rf, "", " ")
	_ = os.WriteFile(path, b, 0o644)
	return path
}

func recordViolation(st *SubStats, id, test string, raw []byte, out Outcome, path string) {
	statsMu.Lock()
	st.Violations = append(st.Violations, ViolRec{Sig: out.Sig, Msg: out.Violation, Replay: path})
	statsMu.Unlock()
	// The driver turns this marker into the VIOLATION line (after known-findings matching).
	fmt.Printf("VERIF-VIOLATION property=%s sig=%s replay=%s :: %s\n", id, out.Sig, path, oneLine(out.Violation))
}

func oneLine(s string) string {
	s = strings.ReplaceAll(s, "\n", " | ")
	if len(s) > 600 {
		s = s[:600] + "…"
	}
	return s
}

// Direct accounts for a hand-enumerated (non-rapid) case, e.g. exhaustive schedule enumeration.
type Direct[C any] struct {
	ID, Rule string
	t        *testing.T
	st       *SubStats
	seen     map[uint64]bool
	start    time.Time
}

// NewDirect starts direct accounting under the running test's name.
func NewDirect[C any](t *testing.T, id, rule string) *Direct[C] {
	return &Direct[C]{ID: id, Rule: rule, t: t, st: getStats(t.Name(), id, rule), seen: map[uint64]bool{}, start: time.Now()}
}

// Account records one executed case; it returns false when the case violated the property.
func (d *Direct[C]) Account(c C, out Outcome) bool {
	statsMu.Lock()
	d.st.Evaluations++
	d.st.Requested++
	for _, l := range out.Labels {
		d.st.Labels[l]++
	}
	if out.Harness != "" && len(d.st.Harness) < 20 {
		d.st.Harness = append(d.st.Harness, out.Harness)
	}
	var raw []byte
	if out.NonTrivial || out.Violation != "" {
		raw = canon(c)
	}
	if out.NonTrivial {
		h := fnv64(string(raw))
		if !d.seen[h] {
			d.seen[h] = true
			d.st.NonTrivial++
			d.st.Hashes = append(d.st.Hashes, strconv.FormatUint(h, 16))
			if len(d.st.Samples) < 3 && len(raw) < 6000 {
				d.st.Samples = append(d.st.Samples, json.RawMessage(raw))
			}
		}
	}
	d.st.WallS = time.Since(d.start).Seconds()
	statsMu.Unlock()
	if out.Violation != "" {
		path := saveFound(d.ID, d.t.Name(), raw, out)
		recordViolation(d.st, d.ID, d.t.Name(), raw, out, path)
		d.t.Errorf("%s violated [%s]: %s", d.ID, out.Sig, out.Violation)
		return false
	}
	return true
}

// SetExtra stores an additional measured value in the evidence of the running test.
func SetExtra(t *testing.T, id, key string, v any) {
	st := getStats(t.Name(), id, "")
	statsMu.Lock()
	st.Extra[key] = v
	statsMu.Unlock()
}

// RequireMode skips the test unless the process runs in the given mode (std, coop, race).
func RequireMode(t *testing.T, mode string) {
	if Mode != mode {
		t.Skipf("mode %s only (running %s)", mode, Mode)
	}
}

// GoID returns the id of the calling goroutine (parsed from the runtime's stack header).
func GoID() int64 {
	var buf [64]byte
	n := runtime.Stack(buf[:], false)
	// "goroutine 123 [running]:"
	var id int64
	for _, ch := range buf[len("goroutine "):n] {
		if ch < '0' || ch > '9' {
			break
		}
		id = id*10 + int64(ch-'0')
	}
	return id
}

// CaseTimeout is the real-time watchdog for a single case. Its expiry alone is "inconclusive";
// the driver reports a violation only when the goroutine dump taken at expiry shows library
// goroutines parked on a mutex (a proven deadlock) for a property that promises termination.
var CaseTimeout = time.Duration(envInt("VERIF_CASE_TIMEOUT_S", 90)) * time.Second

// propTimeout: watchdog of the property being run (set by Check from Prop.Timeout; tests of one
// process run one after the other).
var propTimeout time.Duration

func watched[C any](id, test string, c C, run func() Outcome) Outcome {
	d := CaseTimeout
	if propTimeout > 0 {
		d = propTimeout
	}
	timer := time.AfterFunc(d, func() { hang(id, test, c) })
	defer timer.Stop()
	return guardLib(run)
}

// guardLib runs one case. A panic raised by the library itself while the case runs (in the goroutine that runs the
// case) is a result of the case, not a crash of the test binary: no listed property holds on a history whose calls do
// not return. A panic raised by harness code stays a harness problem (it is re-raised).
func guardLib(run func() Outcome) (out Outcome) {
	defer func() {
		if r := recover(); r != nil {
			if where := LibPanicOrigin(string(debug.Stack())); where != "" {
				out = Viol("library-panic", "the library panicked during the case: %v (in %s)", r, where)
				return
			}
			panic(r)
		}
	}()
	return run()
}

// LibPanicOrigin returns the library function that raised the panic whose stack this is ("" when the innermost frame
// below the panic, runtime and standard-library helpers aside, is not library code).
func LibPanicOrigin(stack string) string {
	const lib = "github.com/platinummonkey/go-concurrency-limits/"
	seenPanic := false
	for _, l := range strings.Split(stack, "\n") {
		if strings.HasPrefix(l, "panic(") {
			seenPanic = true
			continue
		}
		if !seenPanic || strings.HasPrefix(l, "\t") || strings.HasPrefix(l, "runtime.") || strings.HasPrefix(l, "sync.") || strings.HasPrefix(l, "container/") || strings.HasPrefix(l, "math.") {
			continue
		}
		if strings.HasPrefix(l, lib) {
			if i := strings.LastIndex(l, "("); i > 0 {
				return strings.TrimPrefix(l[:i], lib)
			}
			return l
		}
		return ""
	}
	return ""
}

// Watch arms the per-case watchdog for hand-enumerated cases; call the returned func when done.
func Watch[C any](id, test string, c C) func() {
	timer := time.AfterFunc(CaseTimeout, func() { hang(id, test, c) })
	return func() { timer.Stop() }
}

func hang[C any](id, test string, c C) {
	buf := make([]byte, 4<<20)
	dump := string(buf[:runtime.Stack(buf, true)])
	libMutex := false
	for _, g := range strings.Split(dump, "\n\n") {
		if strings.Contains(g, libPath) &&
			(strings.Contains(g, "sync.(*Mutex).Lock") || strings.Contains(g, "sync.(*RWMutex).Lock") || strings.Contains(g, "sync.(*RWMutex).RLock")) {
			libMutex = true
		}
	}
	// A library goroutine that is still busy (running / runnable, innermost non-runtime frame inside the library)
	// in two dumps taken two seconds apart, while the case's own goroutine sits in synctest.Wait waiting for
	// quiescence: on a virtual clock a correct case takes milliseconds, so this is a call spinning instead of
	// blocking or returning (livelock).
	libSpin := false
	if spin1 := busyLibGoroutines(dump); len(spin1) > 0 && strings.Contains(dump, "synctest.Wait") {
		time.Sleep(2 * time.Second)
		dump2 := string(buf[:runtime.Stack(buf, true)])
		if strings.Contains(dump2, "synctest.Wait") {
			for g := range busyLibGoroutines(dump2) {
				if spin1[g] {
					libSpin = true
				}
			}
		}
	}
	raw := canon(c)
	out := Outcome{Violation: "case did not finish within its real-time watchdog; goroutine dump:\n" + dump, Sig: "hang"}
	if len(out.Violation) > 20000 {
		out.Violation = out.Violation[:20000]
	}
	path := saveFound(id, test, raw, out)
	fmt.Printf("VERIF-HANG property=%s libmutex=%v libspin=%v replay=%s\n", id, libMutex, libSpin, path)
	Flush()
	os.Exit(3)
}

const libPath = "github.com/platinummonkey/go-concurrency-limits/"

// busyLibGoroutines returns the ids of goroutines that are running or runnable with their innermost
// non-runtime frame inside the library.
func busyLibGoroutines(dump string) map[string]bool {
	out := map[string]bool{}
	for _, g := range strings.Split(dump, "\n\n") {
		lines := strings.Split(g, "\n")
		if len(lines) < 2 || !strings.HasPrefix(lines[0], "goroutine ") {
			continue
		}
		hdr := lines[0]
		if !strings.Contains(hdr, "[running") && !strings.Contains(hdr, "[runnable") {
			continue
		}
		for _, l := range lines[1:] {
			if strings.HasPrefix(l, "\t") || strings.HasPrefix(l, "runtime.") || strings.HasPrefix(l, "sync.") || strings.HasPrefix(l, "sync/atomic.") || strings.HasPrefix(l, "internal/") || strings.HasPrefix(l, "time.") || strings.HasPrefix(l, "container/") || strings.HasPrefix(l, "context.") {
				continue
			}
			if strings.HasPrefix(l, libPath) {
				out[strings.Fields(hdr)[1]] = true
			}
			break
		}
	}
	return out
}

// SaveFound writes a violating case found outside Check (fuzz targets) as a replay file.
func SaveFound[C any](id, test string, c C, out Outcome) string {
	return saveFound(id, test, canon(c), out)
}
