package harness

// C13 — timeouts, deadlines and cancellation bound every blocked Acquire.

import (
	"fmt"
	"math"
	"sort"
	"testing"
	"testing/synctest"
	"time"

	"github.com/platinummonkey/go-concurrency-limits/core"
	"pgregory.net/rapid"

	"verifharness/kit"
)

type c13Case struct {
	Stack       StackCfg `json:"stack"`
	ArriveNs    int64    `json:"arrive_ns"`
	HasCancel   bool     `json:"has_cancel"`
	CancelNs    int64    `json:"cancel_ns"` // absolute virtual offset (may be <= ArriveNs: already cancelled)
	HasRel      bool     `json:"has_release"`
	RelNs       int64    `json:"release_ns"`
	Outcome     int      `json:"outcome"`
	Free        bool     `json:"free"`                   // capacity is free from the start (nobody holds the token)
	CtxDeadline bool     `json:"ctx_deadline,omitempty"` // has_cancel: the context is not cancelled by hand, it carries a deadline at cancel_ns (context.WithDeadline)
	Rival       bool     `json:"rival,omitempty"`        // a second caller arrives at the same instant (no cancellation in these cases)
	// NoCap: the limiter is built for two units, both are held, then the enforced limit is lowered to one. The release
	// of one holder (at release_ns) therefore offers nothing: the caller is woken / looked at, finds no capacity and
	// must still come back exactly at its bound.
	NoCap bool `json:"no_cap,omitempty"`
	// Ghosts (blocking / deadline, capacity taken): that many earlier callers blocked and gave up (cancelled) before the
	// case's caller arrives - a limiter that has been saturated for a long time
	Ghosts int `json:"ghosts,omitempty"`
	// Steals (blocking / deadline, capacity taken): right after the caller has blocked it is woken that many times in a row while the
	// token stays taken, all at the arrival instant - it finds nothing and goes back to waiting each time (what a caller
	// sees that keeps losing the race for a contended token)
	Steals int `json:"steals,omitempty"`
}

func genC13(t *rapid.T) c13Case {
	var c c13Case
	c.Stack.Kind = rapid.SampledFrom([]string{"queue", "queue", "deadline", "deadline", "blocking", "fifo-dep", "lifo-dep", "pool"}).Draw(t, "kind")
	c.Stack.Limit = 1
	c.Stack.Strategy = rapid.SampledFrom([]string{"simple", "precise"}).Draw(t, "strategy")
	c.Stack.Backlog = 3
	durs := []int64{1, 7, 1000, 1_000_000, 50_000_000, 1_000_000_000, 10_000_000_000, 45_000_000_000, 3_600_000_000_000} // up to an hour: waits that outlast any internal slice of time a limiter may cut them into
	c.ArriveNs = rapid.SampledFrom([]int64{0, 1, 5, 3_000_000, 40_000_000}).Draw(t, "arrive")
	var bound int64 = -1 // relative to arrival
	switch c.Stack.Kind {
	case "queue", "fifo-dep", "lifo-dep", "pool":
		if c.Stack.Kind == "pool" {
			c.Stack.Ordering = rapid.SampledFrom([]string{"fifo", "lifo"}).Draw(t, "poolOrdering") // the generic pool over a queue limiter: its timeout argument is the backlog timeout
		}
		c.Stack.TimeoutNs = rapid.SampledFrom(durs).Draw(t, "timeout") // explicit values only: the default (0 => 1 s) is an implementation constant, not part of the property
		if c.Stack.Kind == "queue" {
			c.Stack.Ordering = rapid.SampledFrom([]string{"fifo", "lifo", ""}).Draw(t, "ordering")
			c.Stack.Evict = rapid.Bool().Draw(t, "evict")
		}
		bound = int64(c.Stack.effTimeout())
		if rapid.IntRange(0, 7).Draw(t, "forever") == 0 {
			// "wait for as long as it takes": timeouts of centuries up to the largest duration there is; only a
			// release (or a cancellation with eviction) ends the wait
			c.Stack.TimeoutNs, bound = rapid.SampledFrom([]int64{math.MaxInt64, math.MaxInt64 - 1, math.MaxInt64 / 2, int64(250 * 365 * 24 * time.Hour)}).Draw(t, "foreverNs"), -1
		}
		if c.Stack.Kind == "queue" && rapid.IntRange(0, 5).Draw(t, "noTimeout") == 0 {
			// a negative backlog timeout arms no timer at all: only cancellation (with eviction) bounds the wait
			c.Stack.TimeoutNs, bound = rapid.SampledFrom([]int64{-1, -1_000_000_000}).Draw(t, "negTimeout"), -1
		}
	case "deadline":
		// before / at / after the arrival
		rel := rapid.SampledFrom(append([]int64{0, -1, -1_000_000}, durs...)).Draw(t, "deadline-rel")
		d := c.ArriveNs + rel
		if d < 1 { // the deadline must lie after +0 so that the holder can be admitted first
			c.ArriveNs += 1 - d
			d = 1
		}
		c.Stack.DeadlineNs = d
		bound = d - c.ArriveNs
		if rapid.IntRange(0, 9).Draw(t, "zeroDeadline") == 0 {
			// the zero time.Time is an instant long past: every call comes after the deadline
			c.Stack.DeadlineFar, bound = 4, -1
		} else if rapid.IntRange(0, 5).Draw(t, "farDeadline") == 0 {
			// "practically never": the caller is bounded by cancellation only
			c.Stack.DeadlineFar, bound = rapid.IntRange(1, 3).Draw(t, "far"), -1
		}
	case "blocking":
		c.Stack.TimeoutNs = rapid.SampledFrom([]int64{0, 0, 1_000_000, 50_000_000}).Draw(t, "timeout") // each expiry of this (retry) timer leaves a helper goroutine parked until the next release: keep the count per case small
	}
	pick := func(label string) int64 {
		// instants around the arrival and around the bound
		opts := []int64{c.ArriveNs - 1, c.ArriveNs, c.ArriveNs + 1, c.ArriveNs + 500, c.ArriveNs + 2_000_000}
		if bound > 0 {
			opts = append(opts, c.ArriveNs+bound-1, c.ArriveNs+bound, c.ArriveNs+bound+1, c.ArriveNs+bound/2)
		}
		v := rapid.SampledFrom(opts).Draw(t, label)
		if v < 0 {
			v = 0
		}
		return v
	}
	c.HasCancel = rapid.IntRange(0, 2).Draw(t, "hasCancel") > 0
	if c.HasCancel {
		c.CancelNs = pick("cancel")
		c.CtxDeadline = rapid.IntRange(0, 2).Draw(t, "ctxDeadline") == 0
	}
	c.HasRel = rapid.IntRange(0, 2).Draw(t, "hasRel") == 0
	if c.HasRel {
		c.RelNs = pick("release")
	}
	c.Outcome = rapid.IntRange(0, 2).Draw(t, "outcome")
	c.Free = rapid.IntRange(0, 5).Draw(t, "free") == 0
	if c.Stack.DeadlineFar == 4 {
		c.Free = true // nobody can be admitted first: the limiter has expired before the case starts
	}
	if !c.HasCancel && !c.Free && c.Stack.Kind != "blocking" && bound > 0 && rapid.Bool().Draw(t, "rival") {
		c.Rival = true
	}
	if !c.Free && (c.Stack.Kind == "blocking" || c.Stack.Kind == "deadline") && c.Stack.DeadlineFar != 4 && rapid.IntRange(0, 19).Draw(t, "ghosts") == 0 {
		c.Ghosts = rapid.SampledFrom([]int{3, 100, 1023, 1024, 1025, 1500}).Draw(t, "ghostN")
	}
	if !c.Free && !c.Rival && (c.Stack.Kind == "blocking" || c.Stack.Kind == "deadline") && c.Stack.DeadlineFar != 4 && rapid.IntRange(0, 9).Draw(t, "steals") == 0 {
		c.Steals = rapid.SampledFrom([]int{1, 3, 31, 32, 33, 63, 64, 65, 66, 100, 130}).Draw(t, "stealN")
	}
	if !c.Free && !c.Rival && c.Steals == 0 && c.HasRel && c.Stack.Kind != "pool" && rapid.IntRange(0, 2).Draw(t, "noCap") == 0 {
		c.NoCap = true
		c.Stack.Limit = 2
	}
	return c
}

func runC13(t *testing.T, c c13Case) kit.Outcome {
	return bubble(t, func() kit.Outcome { return runC13InBubble(c) })
}

func runC13InBubble(c c13Case) (out kit.Outcome) {
	t0 := time.Now()
	st, err := buildStack(c.Stack, nil, nil, t0)
	if err != nil {
		return kit.Outcome{Harness: "stack: " + err.Error()}
	}
	w := newWorld(st, t0)
	kind := c.Stack.Kind
	A := time.Duration(c.ArriveNs)
	var holder *vtCaller
	var holder2 core.Listener // NoCap: keeps the second unit until the case is unwound
	if !c.Free {
		// the holder acquires through the outer limiter (at +0, before any generated deadline) so that
		// its completion goes through the wrapper's listener
		l, ok := st.lim.Acquire(stackKeyCtx(t0ctx(), "a"))
		if !ok || l == nil {
			return kit.Outcome{Harness: "prefill refused"}
		}
		holder = &vtCaller{L: l, OK: true, Done: true}
		if c.NoCap {
			l2, ok2 := st.lim.Acquire(stackKeyCtx(t0ctx(), "a"))
			if !ok2 || l2 == nil {
				return kit.Outcome{Harness: "second prefill refused"}
			}
			holder2 = l2
			switch {
			case st.simple != nil:
				st.simple.SetLimit(1)
			case st.precise != nil:
				st.precise.SetLimit(1)
			default:
				return kit.Outcome{Harness: "no-capacity case needs a plain strategy"}
			}
		}
	}
	var caller *vtCaller
	if c.HasCancel && c.CtxDeadline {
		caller = w.newCallerDeadline("a", t0.Add(time.Duration(c.CancelNs)))
	} else {
		caller = w.newCaller("a", 0, 0)
	}
	var rival *vtCaller
	if c.Rival {
		rival = w.newCaller("a", 0, 0)
	}

	for g := 0; g < c.Ghosts && holder != nil; g++ {
		gc := w.newCaller("a", 0, 0)
		w.start(gc)
		synctest.Wait()
		gc.cancel()
		synctest.Wait()
	}
	type ev struct {
		at   time.Duration
		kind int // 0 cancel, 1 release, 2 arrive
	}
	var evs []ev
	evs = append(evs, ev{A, 2})
	if c.HasCancel {
		evs = append(evs, ev{time.Duration(c.CancelNs), 0})
	}
	if c.HasRel && holder != nil {
		evs = append(evs, ev{time.Duration(c.RelNs), 1})
	}
	sort.SliceStable(evs, func(i, j int) bool {
		if evs[i].at != evs[j].at {
			return evs[i].at < evs[j].at
		}
		return evs[i].kind < evs[j].kind // same instant: cancel, release, then arrival
	})
	released := false
	busyAtArrival := -1
	for _, e := range evs {
		if d := e.at - w.now(); d > 0 {
			time.Sleep(d)
		}
		switch e.kind {
		case 0:
			if !c.CtxDeadline {
				caller.cancel()
			} // else: the context's own deadline fires at this instant
		case 1:
			complete(holder.L, c.Outcome)
			released = true
		case 2:
			synctest.Wait()
			busyAtArrival = st.busy()
			w.start(caller)
			if rival != nil {
				w.start(rival)
			}
			if wk, ok := st.lim.(interface{ VerifWake() }); ok && c.Steals > 0 && holder != nil && busyAtArrival >= c.Stack.Limit {
				// a wake-up that finds the token taken again is, from the waiter's side, a wake-up without capacity:
				// produced here by waking the waiters while the holder keeps its token (same arrival instant)
				synctest.Wait()
				for k := 0; k < c.Steals; k++ {
					wk.VerifWake()
					synctest.Wait()
				}
			}
		}
		synctest.Wait()
	}
	// let every bound pass
	horizon := A + time.Duration(maxI64(int64(c.Stack.effTimeout()), 0)) + time.Duration(maxI64(c.Stack.DeadlineNs, 0)) + 2*time.Second
	foreverTimeout := c.Stack.effTimeout() > 100*365*24*time.Hour
	if c.Stack.DeadlineFar > 0 || foreverTimeout {
		horizon = A + 12*time.Second
	}
	if d := horizon - w.now(); d > 0 {
		time.Sleep(d)
	}
	synctest.Wait()
	snap := w.snapshot()[0]

	// ---- reference model ------------------------------------------------------------------
	const never = time.Duration(1<<62 - 1)
	R := never // instant at which capacity is offered
	if holder == nil {
		R = 0
	} else if c.HasRel && !c.NoCap {
		R = time.Duration(c.RelNs)
	}
	cancelAt := never
	if c.HasCancel {
		cancelAt = time.Duration(c.CancelNs)
	}
	D := time.Duration(c.Stack.DeadlineNs)
	if c.Stack.DeadlineFar > 0 {
		D = never
	}
	if c.Stack.DeadlineFar == 4 {
		D = -1 // before every instant of the case
	}
	preCancelled := cancelAt <= A
	bound := never
	boundWhy := ""
	setBound := func(b time.Duration, why string) {
		if b < bound {
			bound, boundWhy = b, why
		}
	}
	cancelApplies := kind == "blocking" || kind == "deadline" || (kind == "queue" && c.Stack.Evict)
	switch kind {
	case "queue", "fifo-dep", "lifo-dep", "pool":
		if c.Stack.TimeoutNs >= 0 && !foreverTimeout {
			setBound(A+c.Stack.effTimeout(), "backlog timeout")
		}
	case "deadline":
		setBound(D, "deadline")
	}
	if cancelApplies && c.HasCancel {
		b := cancelAt
		if b < A {
			b = A
		}
		setBound(b, "cancellation")
	}
	if bound < A {
		bound = A
	}
	result := func(s vtCaller) string {
		if !s.Done {
			return "still blocked"
		}
		return fmt.Sprintf("ok=%v at +%v", s.OK, s.RetAt)
	}
	desc := fmt.Sprintf("%s limiter, arrival +%v, capacity offered %s, bound %s",
		kind, A, instStr(R, never), instStr(bound, never)+" ("+boundWhy+")")
	var viol *kit.Outcome
	mk := func(sig, f string, a ...any) {
		o := kit.Viol(kind+":"+sig, "%s: %s; caller: %s", desc, fmt.Sprintf(f, a...), result(snap))
		viol = &o
	}
	busyAfter := st.busy()
	switch {
	case rival != nil:
		// two callers: judged by the rival oracle below
	case (kind == "blocking" || kind == "deadline") && preCancelled:
		// refused at once, no capacity consumed
		if !snap.Done || snap.OK || snap.RetAt != A {
			mk("precancelled", "context was already cancelled at the call: must be refused at once")
		} else if busyAtArrival >= 0 && busyAfter > busyAtArrival && !released {
			mk("precancelled-capacity", "refused call consumed capacity (busy %d -> %d)", busyAtArrival, busyAfter)
		}
	case kind == "deadline" && A > D:
		if !snap.Done || snap.OK || snap.RetAt != A {
			mk("after-deadline", "call made after the deadline: must be refused at once")
		} else if busyAtArrival >= 0 && busyAfter > busyAtArrival && !released {
			mk("after-deadline-capacity", "refused call consumed capacity (busy %d -> %d)", busyAtArrival, busyAfter)
		}
	case kind == "deadline" && A == D && R <= A:
		// exactly at the deadline with capacity free: either answer, but at once
		if !snap.Done || snap.RetAt != A {
			mk("exact-deadline", "call made exactly at the deadline must be answered at once")
		}
	case R <= A && !(kind == "queue" && preCancelled && cancelApplies):
		// capacity free at arrival
		if !snap.Done || !snap.OK || snap.RetAt != A {
			mk("free-not-granted", "capacity was free at the call: must be granted at once")
		}
	case R <= A:
		if !snap.Done || snap.RetAt != A {
			mk("free-not-answered", "capacity was free at the call: must be answered at once")
		}
	case R < bound:
		if !snap.Done || !snap.OK || snap.RetAt != R {
			mk("release-before-bound", "capacity was released before the bound: the caller must be granted at that instant")
		}
	case bound == never:
		if snap.Done {
			mk("returned-without-bound", "no bound applies and no capacity was offered: the caller must keep waiting")
		}
	case R == bound:
		if !snap.Done || snap.RetAt != bound {
			mk("tie", "release and bound coincide: either answer, but at that instant")
		}
	default: // bound < R
		if !snap.Done {
			mk("not-bounded", "the caller must return refused no later than its bound")
		} else if snap.OK {
			mk("granted-without-capacity", "no capacity was offered before the bound")
		} else if snap.RetAt < bound {
			mk("early", "refused before its bound while no capacity was offered")
		} else if snap.RetAt > bound {
			mk("late", "refused later than its bound")
		}
	}
	if rival != nil && viol == nil {
		// two callers, same arrival, same bound, at most one release: each returns either granted at the
		// release instant or refused exactly at the bound, and only as many are granted as tokens were offered
		viol = nil
		rs := w.snapshot()[1]
		granted := 0
		for _, s := range []vtCaller{snap, rs} {
			switch {
			case !s.Done:
				mk("rival-not-bounded", "caller %d of two never returned", s.ID)
			case s.OK && (R == never || (s.RetAt != R && !(R <= A && s.RetAt == A))):
				mk("rival-grant-instant", "caller %d of two was granted at +%v, capacity was offered %s", s.ID, s.RetAt, instStr(R, never))
			case !s.OK && s.RetAt != bound:
				mk("rival-bound", "caller %d of two was refused at +%v, its bound is %s", s.ID, s.RetAt, instStr(bound, never))
			}
			if s.OK {
				granted++
			}
		}
		offered := 0
		if R != never && R <= bound {
			offered = 1
		}
		if viol == nil && R < bound && granted != offered {
			mk("rival-count", "%d token(s) offered before the bound but %d of the two callers were granted", offered, granted)
		}
		if viol == nil && granted > offered {
			mk("rival-count", "%d of two callers granted with %d token(s) offered", granted, offered)
		}
		if rs.Done && rs.OK {
			w.release(w.callers[1], 1)
		}
	}
	// unwind
	if snap.Done && snap.OK {
		w.release(w.callers[0], 1)
	}
	if holder != nil && !released {
		complete(holder.L, 1)
	}
	if holder2 != nil {
		complete(holder2, 1)
	}
	msg := w.unwind(2 * time.Second)
	w.flush()
	if viol != nil {
		return *viol
	}
	if msg != "" {
		return kit.Viol(kind+":stuck", "%s", msg)
	}
	blockedForReal := bound > A && R > A
	exactDeadline := kind == "deadline" && bound == D && D >= A && D != never
	out.NonTrivial = blockedForReal && (c.HasCancel || exactDeadline)
	out.Labels = []string{"kind:" + kind}
	if blockedForReal {
		out.Labels = append(out.Labels, "blocked")
	}
	if R == bound && R != never {
		out.Labels = append(out.Labels, "tie")
	}
	if preCancelled {
		out.Labels = append(out.Labels, "pre-cancelled")
	}
	if c.NoCap {
		out.Labels = append(out.Labels, "release-without-usable-capacity")
	}
	if c.Ghosts >= 1000 {
		out.Labels = append(out.Labels, "after->=1000-abandoned-waits")
	}
	if c.Steals >= 64 {
		out.Labels = append(out.Labels, "after->=64-lost-wake-ups")
	}
	if c.Stack.DeadlineFar > 0 {
		out.Labels = append(out.Labels, "deadline-far-future")
	}
	if c.HasCancel && c.CtxDeadline {
		out.Labels = append(out.Labels, "context-with-deadline")
	}
	if kind == "deadline" && A >= D {
		out.Labels = append(out.Labels, "at-or-after-deadline")
	}
	return out
}

func instStr(d, never time.Duration) string {
	if d == never {
		return "never"
	}
	return "+" + d.String()
}

func maxI64(a, b int64) int64 {
	if a > b {
		return a
	}
	return b
}

func TestC13_bounds(t *testing.T) {
	kit.RequireMode(t, "std")
	kit.Check(t, kit.Prop[c13Case]{
		ID: "C13", Quick: 5000, Thor: 500_000,
		Rule: "one caller on a full (or free) limiter of each blocking kind; timeout/deadline, cancellation and release instants generated around the arrival and around the bound (incl. exactly at it) on a virtual clock; the caller's (ok, return instant) compared with a reference model, ties accept either answer at that instant; non-trivial = the caller really blocked and the case has a cancellation or the exact-deadline instant",
		Gen:  genC13, Run: runC13, Timeout: 30 * time.Second,
	})
}
