package harness

// C16 — notifications under concurrent samples: several goroutines feed samples to one limit while the
// registered listeners (public callbacks = schedule points) yield. Once everything has settled, the
// last value delivered to every listener must be what EstimatedLimit() reports.

import (
	"fmt"
	"sync"
	"testing"
	"time"

	"github.com/platinummonkey/go-concurrency-limits/limit"
	"pgregory.net/rapid"

	"verifharness/kit"
)

type c16cCase struct {
	Cfg       LimitCfg   `json:"cfg"`
	Listeners int        `json:"listeners"`
	Workers   [][]Sample `json:"workers"`
	Sets      []int      `json:"sets,omitempty"` // settable limit: values set by an extra goroutine
	Order     []int      `json:"order"`
	Yields    yieldList  `json:"yields"`
}

func genC16C(t *rapid.T) c16cCase {
	c := c16cCase{Cfg: genLimitCfg(t, []string{"aimd", "aimd", "vegas", "gradient", "gradient2", "settable"}, true)}
	c.Cfg.Windowed = false // windowed start times are per-goroutine meaningless here; traced stays
	c.Listeners = rapid.IntRange(1, 3).Draw(t, "listeners")
	nw := rapid.IntRange(2, 4).Draw(t, "workers")
	for i := 0; i < nw; i++ {
		c.Workers = append(c.Workers, genSamples(t, c.Cfg, 40))
	}
	if c.Cfg.Algo == "settable" {
		c.Sets = rapid.SliceOfN(rapid.IntRange(0, 50), 1, 20).Draw(t, "sets")
	}
	c.Order = rapid.Permutation(seq(nw)).Draw(t, "order")
	c.Yields = yieldList(rapid.SliceOfN(rapid.SampledFrom([]uint8{0, 0, 1, 1, 2, 3, 6}), 0, 120).Draw(t, "yields"))
	return c
}

func runC16C(_ *testing.T, c c16cCase) kit.Outcome {
	sc := newSched(c.Yields)
	b := buildLimit(c.Cfg, nil)
	type rec struct {
		mu    sync.Mutex
		calls int
		last  int
	}
	ls := make([]*rec, c.Listeners)
	for i := range ls {
		r := &rec{}
		ls[i] = r
		b.Outer.NotifyOnChange(func(n int) {
			sc.Point("listener.enter")
			r.mu.Lock()
			r.calls++
			r.last = n
			r.mu.Unlock()
			sc.Point("listener.exit")
		})
	}
	start := make(chan struct{})
	var wg sync.WaitGroup
	order := c.Order
	if len(order) != len(c.Workers) {
		order = seq(len(c.Workers))
	}
	for _, i := range order {
		wg.Add(1)
		go func(prog []Sample) {
			defer wg.Done()
			<-start
			for _, s := range prog {
				inf := s.Inf
				if s.Rel != "" {
					inf = 1000 // saturated whatever the estimate is (reading the estimate here would race by design)
				}
				b.Outer.OnSample(0, s.RTT, inf, s.Drop)
				sc.Point("worker.sampled")
			}
		}(c.Workers[i])
	}
	if sl, ok := b.Inner.(*limit.SettableLimit); ok && len(c.Sets) > 0 {
		wg.Add(1)
		go func() {
			defer wg.Done()
			<-start
			for _, v := range c.Sets {
				sl.SetLimit(v)
				sc.Point("worker.set")
			}
		}()
	}
	close(start)
	done := make(chan struct{})
	go func() { wg.Wait(); close(done) }()
	select {
	case <-done:
	case <-time.After(60 * time.Second):
		return kit.Outcome{Harness: "workers did not finish within 60 s"}
	}
	est := b.Outer.EstimatedLimit()
	changed := false
	for i, r := range ls {
		if r.calls > 0 {
			changed = true
			if r.last != est {
				return kit.Viol(c.Cfg.Algo+":stale-notification-after-concurrent-samples", "after %d goroutines finished feeding samples, listener #%d was last told %d but EstimatedLimit() reports %d", len(c.Workers), i, r.last, est)
			}
		}
	}
	if est != c.Cfg.Initial && !changed && c.Cfg.Algo != "fixed" {
		return kit.Viol(c.Cfg.Algo+":missed-notification", "estimate moved from %d to %d but no listener was ever called", c.Cfg.Initial, est)
	}
	return kit.Outcome{NonTrivial: changed && len(c.Workers) >= 2, Labels: []string{"algo:" + c.Cfg.Algo, fmt.Sprintf("notified:%v", changed)}}
}

func TestC16_concurrent_Coop(t *testing.T) {
	kit.RequireMode(t, "coop")
	kit.Check(t, kit.Prop[c16cCase]{
		ID: "C16", Quick: 2000, Thor: 200_000,
		Rule: "2-4 goroutines feed generated samples (and SetLimit calls) to one limit while 1-3 listeners yield inside their callbacks (generated cooperative schedule); when all have finished every listener's last value must equal EstimatedLimit(); non-trivial = a notification happened with >=2 feeding goroutines",
		Gen:  genC16C, Run: runC16C, NoShrink: true,
	})
}
