package harness

// C05 — partitions added while the limit moves (real threads). One thread adds partitions one after the other,
// another one applies limit updates (what the limiter's update step does) at the same time; a third keeps
// acquiring and releasing. Whenever both have finished a round, every registered partition's share must be
// max(1, ceil(limit x fraction)) of the limit now in force: a partition sized from the limit of a moment ago and
// attached after the update keeps a stale share.

import (
	"context"
	"fmt"
	"math"
	"sync"
	"testing"

	"github.com/platinummonkey/go-concurrency-limits/core"
	"github.com/platinummonkey/go-concurrency-limits/strategy"
	"github.com/platinummonkey/go-concurrency-limits/strategy/matchers"
	"pgregory.net/rapid"

	"verifharness/kit"
)

type c05pCase struct {
	Strategy string    `json:"strategy"` // lookup | predicate
	Rounds   int       `json:"rounds"`
	Fracs    []float64 `json:"fracs"`  // fraction of the partition added in round i (cycled)
	Limits   []int     `json:"limits"` // limit applied in round i (cycled)
	Existing int       `json:"existing"`
}

func c05pShare(limit int, frac float64) int {
	if limit < 1 {
		limit = 1
	}
	return int(math.Max(1, math.Ceil(float64(limit)*frac)))
}

func TestC05_partitions_parallel(t *testing.T) {
	kit.RequireMode(t, "std")
	kit.Check(t, kit.Prop[c05pCase]{
		ID: "C05", Quick: 60, Thor: 4000,
		Rule: "lookup / predicate strategy: per round one thread adds a partition while another applies a different limit (real threads, start barrier), a third acquires and releases; after every round all shares must derive from the limit in force; non-trivial = >= 200 rounds",
		Gen: func(t *rapid.T) c05pCase {
			c := c05pCase{Strategy: rapid.SampledFrom([]string{"lookup", "predicate"}).Draw(t, "strategy"), Rounds: rapid.IntRange(100, 1500).Draw(t, "rounds"), Existing: rapid.IntRange(0, 30).Draw(t, "existing")}
			c.Fracs = rapid.SliceOfN(rapid.SampledFrom([]float64{0.1, 0.25, 0.5, 0.05, 0.33}), 1, 5).Draw(t, "fracs")
			c.Limits = rapid.SliceOfN(rapid.IntRange(1, 400), 2, 8).Draw(t, "limits")
			return c
		},
		Run: func(_ *testing.T, c c05pCase) kit.Outcome {
			var (
				setLimit func(int)
				add      func(name string, frac float64) bool
				remove   func(name string)
				limitOf  func() int
				binLimit func(name string, idx int) (int, error)
				try      func(key string) func()
			)
			names := []string{}
			switch c.Strategy {
			case "lookup":
				s, err := strategy.NewLookupPartitionStrategyWithMetricRegistry(map[string]*strategy.LookupPartition{"base": strategy.NewLookupPartitionWithMetricRegistry("base", 0.02, 1, core.EmptyMetricRegistryInstance)}, nil, 10, core.EmptyMetricRegistryInstance)
				if err != nil {
					return kit.Outcome{Harness: err.Error()}
				}
				setLimit, limitOf = s.SetLimit, s.Limit
				add = func(n string, f float64) bool {
					return s.AddPartition(n, strategy.NewLookupPartitionWithMetricRegistry(n, f, 1, core.EmptyMetricRegistryInstance))
				}
				remove = func(n string) { s.RemovePartition(n) }
				binLimit = func(n string, _ int) (int, error) { return s.BinLimit(n) }
				try = func(key string) func() {
					tok, ok := s.TryAcquire(context.WithValue(context.Background(), matchers.LookupPartitionContextKey, key))
					if ok {
						return tok.Release
					}
					return nil
				}
			default:
				s, err := strategy.NewPredicatePartitionStrategyWithMetricRegistry([]*strategy.PredicatePartition{strategy.NewPredicatePartitionWithMetricRegistry("base", 0.02, matchers.StringPredicateMatcher("base", false), core.EmptyMetricRegistryInstance)}, 10, core.EmptyMetricRegistryInstance)
				if err != nil {
					return kit.Outcome{Harness: err.Error()}
				}
				setLimit, limitOf = s.SetLimit, s.Limit
				add = func(n string, f float64) bool {
					return s.AddPartition(strategy.NewPredicatePartitionWithMetricRegistry(n, f, matchers.StringPredicateMatcher(n, false), core.EmptyMetricRegistryInstance))
				}
				remove = func(n string) {
					s.RemovePartitionsMatching(context.WithValue(context.Background(), matchers.StringPredicateContextKey, n))
				}
				binLimit = func(_ string, idx int) (int, error) { return s.BinLimit(idx) }
				try = func(key string) func() {
					tok, ok := s.TryAcquire(context.WithValue(context.Background(), matchers.StringPredicateContextKey, key))
					if ok {
						return tok.Release
					}
					return nil
				}
			}
			fracs := map[string]float64{"base": 0.02}
			names = append(names, "base")
			c.Existing++ // the constructor's partition counts among the fixed ones
			for i := 0; i < c.Existing-1; i++ {
				n := fmt.Sprintf("e%d", i)
				if add(n, 0.01) {
					names = append(names, n)
					fracs[n] = 0.01
				}
			}
			stop := make(chan struct{})
			var bg sync.WaitGroup
			bg.Add(1)
			go func() { // admissions and releases go on all the time
				defer bg.Done()
				for i := 0; ; i++ {
					select {
					case <-stop:
						return
					default:
					}
					if rel := try(fmt.Sprintf("p%d", i%7)); rel != nil {
						rel()
					}
				}
			}()
			defer func() { close(stop); bg.Wait() }()
			for r := 0; r < c.Rounds; r++ {
				name, frac, lim := fmt.Sprintf("p%d", r), c.Fracs[r%len(c.Fracs)], c.Limits[r%len(c.Limits)]
				var wg, ready sync.WaitGroup
				ready.Add(2)
				wg.Add(2)
				added := false
				go func() { defer wg.Done(); ready.Done(); ready.Wait(); added = add(name, frac) }()
				go func() { defer wg.Done(); ready.Done(); ready.Wait(); setLimit(lim) }()
				wg.Wait()
				if !added {
					return kit.Viol(c.Strategy+":add-refused", "round %d: AddPartition(%q) of a new name returned false", r, name)
				}
				names = append(names, name)
				fracs[name] = frac
				if got := limitOf(); got != lim {
					return kit.Viol(c.Strategy+":limit", "round %d: Limit()=%d after SetLimit(%d)", r, got, lim)
				}
				for idx, n := range names {
					got, err := binLimit(n, idx)
					if err != nil {
						return kit.Viol(c.Strategy+":bin-missing", "round %d: partition %q: %v", r, n, err)
					}
					if want := c05pShare(lim, fracs[n]); got != want {
						return kit.Viol(c.Strategy+":stale-share", "round %d: partition %q (fraction %v) was added while the limit moved to %d: its share is %d, want max(1,ceil(%d x %v)) = %d", r, n, fracs[n], lim, got, lim, fracs[n], want)
					}
				}
				if len(names) > c.Existing+6 { // keep the set small: drop the oldest dynamic partition
					old := names[c.Existing]
					remove(old)
					names = append(names[:c.Existing], names[c.Existing+1:]...)
					delete(fracs, old)
				}
			}
			return kit.Outcome{NonTrivial: c.Rounds >= 200, Labels: []string{"strategy:" + c.Strategy}}
		},
		NoShrink: true,
	})
}
