package harness

// C04 — limit estimate stays a finite in-bounds integer; samples never panic.

import (
	"fmt"
	"math"
	"testing"

	"pgregory.net/rapid"

	"verifharness/kit"
)

type c04Case struct {
	Cfg     LimitCfg `json:"cfg"`
	Samples []Sample `json:"samples"`
	// BulkN (windowed wrappers): that many quiet samples (in-flight 1: the window cannot close) come first, so that
	// the first window folds tens of thousands of samples - counts around 2^16 and 2^17 on purpose
	BulkN int `json:"bulk_n,omitempty"`
	// Times: the sample list is fed that many times over (histories of thousands of samples: counters that reach a
	// threshold, probes that recur, estimates that sit at a bound for long)
	Times int `json:"times,omitempty"`
}

func genC04(t *rapid.T) c04Case {
	c := c04Case{Cfg: genLimitCfg(t, []string{"aimd", "vegas", "gradient", "gradient2"}, true)}
	if c.Cfg.Algo == "gradient2" && rapid.IntRange(0, 9).Draw(t, "lw0") == 0 {
		c.Cfg.LongWindow = 0
	}
	if c.Cfg.Algo == "aimd" && rapid.IntRange(0, 7).Draw(t, "hugeAIMD") == 0 {
		// AIMD has no ceiling: estimates at and beyond 2^31 (the in-flight domain ends at 2^31-1)
		c.Cfg.Initial = rapid.SampledFrom([]int{math.MaxInt32 - 1, math.MaxInt32, 1 << 31, 1<<31 + 5, 1 << 40}).Draw(t, "hugeInitial")
		c.Cfg.IncreaseBy = rapid.SampledFrom([]int{1, 2, 1 << 30, 1 << 31}).Draw(t, "hugeIncr")
	}
	if c.Cfg.Algo != "aimd" && rapid.IntRange(0, 7).Draw(t, "hugeFloat") == 0 {
		// the float-based algorithms with a maximum that means "unbounded" (up to MaxInt64) and estimates up to 2^53,
		// the largest range in which a float64 estimate is still an exact integer (section 6: initial estimates
		// beyond 2^53 are a domain decision, the float cannot hold them)
		c.Cfg.Max = rapid.SampledFrom([]int{math.MaxInt32, 1 << 31, 1 << 40, 1 << 53, math.MaxInt64 - 1024, math.MaxInt64}).Draw(t, "hugeMax")
		if rapid.Bool().Draw(t, "hugeInit") {
			c.Cfg.Initial = rapid.SampledFrom([]int{1 << 20, math.MaxInt32, 1 << 31, 1<<31 + 1, 1 << 40, 1<<53 - 1, 1 << 53}).Draw(t, "hugeInitial")
			if c.Cfg.Initial > c.Cfg.Max {
				c.Cfg.Initial = c.Cfg.Max
			}
		}
	}
	if c.Cfg.Algo == "vegas" {
		c.Cfg.NoLoad = rapid.SampledFrom([]string{"", "", "", "single", "expavg"}).Draw(t, "noload")
		if rapid.IntRange(0, 2).Draw(t, "customfns") == 0 {
			genVegasFns(t, &c.Cfg) // documented constructor options; the bounds are the update path's job, not the functions'
		}
	}
	if !(c.Cfg.Algo == "aimd" && c.Cfg.Initial > 1<<20) {
		genUnset(t, &c.Cfg) // short constructors and parameters left to the library's defaults
	}
	c.Samples = genSamples(t, c.Cfg, 400)
	c.Times = rapid.SampledFrom([]int{1, 1, 1, 1, 1, 1, 1, 3, 10, 30}).Draw(t, "times")
	if (c.Cfg.Windowed || c.Cfg.Outer2 == "windowed") && rapid.IntRange(0, 9).Draw(t, "bulk") == 0 {
		c.BulkN = rapid.SampledFrom([]int{32767, 65534, 65535, 65535, 65536, 131071}).Draw(t, "bulkN")
		for i := range c.Samples {
			if i < 3 {
				c.Samples[i].Rel, c.Samples[i].Inf = "", 100000 // the sample right after the stretch is ready to close the window
			}
		}
	}
	return c
}

func safeSample(b built, s Sample, inf int) (pan any) {
	defer func() { pan = recover() }()
	b.Outer.OnSample(s.Start, s.RTT, inf, s.Drop)
	return nil
}

func runC04(_ *testing.T, c c04Case) kit.Outcome {
	b, err := tryBuildLimit(c.Cfg, nil)
	if err != nil {
		return kit.Outcome{Labels: []string{"discard:constructor-rejects-defaults-mix"}}
	}
	floor := c.Cfg.floorOf()
	initial := b.Outer.EstimatedLimit()
	if c.Cfg.known("initial") && initial != c.Cfg.Initial {
		return kit.Viol(c.Cfg.Algo+":initial", "estimate right after construction = %d, configured initial = %d", initial, c.Cfg.Initial)
	}
	if initial < 1 {
		return kit.Viol(c.Cfg.Algo+":initial", "estimate right after construction = %d (defaults in play: ctor=%q unset=%v)", initial, c.Cfg.Ctor, c.Cfg.Unset)
	}
	if initial < floor {
		// the library's default initial value lies below the configured minimum: not a valid configuration (min <= initial)
		return kit.Outcome{Labels: []string{"discard:default-initial-below-min"}}
	}
	ceil := maxInt(c.Cfg.Max, initial)
	if !c.Cfg.known("max") {
		ceil = maxInt(sanityCeil, initial) // the effective maximum is the library's default: only a sanity ceiling
	}
	incr := c.Cfg.IncreaseBy
	if c.Cfg.Algo == "aimd" && c.Cfg.Ctor == "default" {
		incr = sanityCeil
	}
	maxInf := 0
	var sawZero, sawDrop, sawSat bool
	changes := 0
	for j := 0; j < c.BulkN; j++ {
		if p := safeSample(b, Sample{RTT: 1000 + int64(j%7)}, 1); p != nil {
			return kit.Viol(c.Cfg.Algo+":panic", "quiet sample %d of %d panicked: %v", j, c.BulkN, p)
		}
	}
	times := c.Times
	if times < 1 {
		times = 1
	}
	all := make([]Sample, 0, len(c.Samples)*times)
	for r := 0; r < times; r++ {
		all = append(all, c.Samples...)
	}
	for i, s := range all {
		before := b.Outer.EstimatedLimit()
		inf := s.inflight(before)
		if inf > maxInf {
			maxInf = inf
		}
		if p := safeSample(b, s, inf); p != nil {
			return kit.Viol(c.Cfg.Algo+":panic", "sample %d %+v (in-flight %d, estimate before %d) panicked: %v", i, s, inf, before, p)
		}
		after := b.Outer.EstimatedLimit()
		hi := ceil
		if c.Cfg.Algo == "aimd" {
			hi = maxInt(initial, maxInf+incr)
		}
		if after < floor || after > hi {
			return kit.Viol(c.Cfg.Algo+":bounds", "after sample %d %+v (in-flight %d): estimate %d -> %d outside [%d,%d]", i, s, inf, before, after, floor, hi)
		}
		if in := b.Inner.EstimatedLimit(); in != after {
			return kit.Viol(c.Cfg.Algo+":wrapper", "wrapper reports %d, algorithm %d", after, in)
		}
		if after != before {
			changes++
		}
		sawZero = sawZero || s.RTT == 0
		sawDrop = sawDrop || s.Drop
		sawSat = sawSat || (!s.Drop && inf >= before)
	}
	out := kit.Outcome{NonTrivial: sawZero && sawDrop && sawSat && changes >= 2}
	out.Labels = []string{"algo:" + c.Cfg.Algo, fmt.Sprintf("windowed:%v", c.Cfg.Windowed)}
	if changes >= 2 {
		out.Labels = append(out.Labels, "changes>=2")
	}
	if sawZero {
		out.Labels = append(out.Labels, "rtt0")
	}
	if c.Cfg.Ctor != "" {
		out.Labels = append(out.Labels, "ctor:"+c.Cfg.Ctor)
	}
	if len(c.Cfg.Unset) > 0 {
		out.Labels = append(out.Labels, "unset-params")
	}
	if c.Cfg.VAlpha+c.Cfg.VBeta+c.Cfg.VThr+c.Cfg.VInc+c.Cfg.VDec != "" {
		out.Labels = append(out.Labels, "vegas-custom-fns")
	}
	return out
}

func TestC04_samples(t *testing.T) {
	kit.RequireMode(t, "std")
	kit.Check(t, kit.Prop[c04Case]{
		ID: "C04", Quick: 6000, Thor: 1_500_000,
		Rule: "valid configurations x sample sequences (rtt in {0,1,small,large,2^62}, in-flight absolute or relative to the estimate, drops incl. all-drop); non-trivial = contains an rtt=0 sample, a drop, a saturated non-drop sample and >=2 estimate changes",
		Gen:  genC04, Run: runC04,
	})
}
