package harness

// C04 — limit estimate stays a finite in-bounds integer; samples never panic.

import (
	"fmt"
	"math"
	"testing"

	"pgregory.net/rapid"

	"verifharness/kit"
)

type c04Case struct {
	Cfg     LimitCfg `json:"cfg"`
	Samples []Sample `json:"samples"`
	// BulkN (windowed wrappers): that many quiet samples (in-flight 1: the window cannot close) come first, so that
	// the first window folds tens of thousands of samples - counts around 2^16 and 2^17 on purpose
	BulkN int `json:"bulk_n,omitempty"`
	// Times: the sample list is fed that many times over (histories of thousands of samples: counters that reach a
	// threshold, probes that recur, estimates that sit at a bound for long)
	Times int `json:"times,omitempty"`
}

func genC04(t *rapid.T) c04Case {
	c := c04Case{Cfg: genLimitCfg(t, []string{"aimd", "vegas", "gradient", "gradient2"}, true)}
	if c.Cfg.Algo == "gradient2" && rapid.IntRange(0, 9).Draw(t, "lw0") == 0 {
		c.Cfg.LongWindow = 0
	}
	if c.Cfg.Algo == "aimd" && rapid.IntRange(0, 7).Draw(t, "hugeAIMD") == 0 {
		// AIMD has no ceiling: estimates at and beyond 2^31 (the in-flight domain ends at 2^31-1)
		c.Cfg.Initial = rapid.SampledFrom([]int{math.MaxInt32 - 1, math.MaxInt32, 1 << 31, 1<<31 + 5, 1 << 40}).Draw(t, "hugeInitial")
		c.Cfg.IncreaseBy = rapid.SampledFrom([]int{1, 2, 1 << 30, 1 << 31}).Draw(t, "hugeIncr")
	}
	if c.Cfg.Algo != "aimd" && rapid.IntRange(0, 7).Draw(t, "hugeFloat") == 0 {
		// the float-based algorithms with a maximum that means "unbounded" (up to MaxInt64) and estimates up to 2^53,
		// the largest range in which a float64 estimate is still an exact integer (section 6: initial estimates
		// beyond 2^53 are a domain decision, the float cannot hold them)
		c.Cfg.Max = rapid.SampledFrom([]int{math.MaxInt32, 1 << 31, 1 << 40, 1 << 53, math.MaxInt64 - 1024, math.MaxInt64}).Draw(t, "hugeMax")
		if rapid.Bool().Draw(t, "hugeInit") {
			c.Cfg.Initial = rapid.SampledFrom([]int{1 << 20, math.MaxInt32, 1 << 31, 1<<31 + 1, 1 << 40, 1<<53 - 1, 1 << 53}).Draw(t, "hugeInitial")
			if c.Cfg.Initial > c.Cfg.Max {
				c.Cfg.Initial = c.Cfg.Max
			}
		}
	}
	if c.Cfg.Algo == "vegas" {
		c.Cfg.NoLoad = rapid.SampledFrom([]string{"", "", "", "single", "expavg", "minimum"}).Draw(t, "noload")
		if rapid.IntRange(0, 2).Draw(t, "customfns") == 0 {
			genVegasFns(t, &c.Cfg) // documented constructor options; the bounds are the update path's job, not the functions'
		}
	}
	if c.Cfg.Max > 1<<53 {
		// a caller-supplied policy function that multiplies would carry the estimate beyond 2^53 within a few dozen
		// samples - outside the range a float64 estimate holds exactly (domain decision, section 6); additive policies
		// never get there
		if c.Cfg.VInc == "dbl" {
			c.Cfg.VInc = ""
		}
		if c.Cfg.VDec == "dbl" {
			c.Cfg.VDec = ""
		}
	}
	if !(c.Cfg.Algo == "aimd" && c.Cfg.Initial > 1<<20) {
		genUnset(t, &c.Cfg) // short constructors and parameters left to the library's defaults
	}
	c.Samples = genSamples(t, c.Cfg, 400)
	c.Times = rapid.SampledFrom([]int{1, 1, 1, 1, 1, 1, 1, 3, 10, 30}).Draw(t, "times")
	if (c.Cfg.Windowed || c.Cfg.Outer2 == "windowed") && rapid.IntRange(0, 9).Draw(t, "bulk") == 0 {
		c.BulkN = rapid.SampledFrom([]int{32767, 65534, 65535, 65535, 65536, 131071}).Draw(t, "bulkN")
		for i := range c.Samples {
			if i < 3 {
				c.Samples[i].Rel, c.Samples[i].Inf = "", 100000 // the sample right after the stretch is ready to close the window
			}
		}
	}
	return c
}

func safeSample(b built, s Sample, inf int) (pan any) {
	defer func() { pan = recover() }()
	b.Outer.OnSample(s.Start, s.RTT, inf, s.Drop)
	return nil
}

func runC04(_ *testing.T, c c04Case) kit.Outcome {
	b, err := tryBuildLimit(c.Cfg, nil)
	if err != nil {
		return kit.Outcome{Labels: []string{"discard:constructor-rejects-defaults-mix"}}
	}
	floor := c.Cfg.floorOf()
	initial := b.Outer.EstimatedLimit()
	if c.Cfg.known("initial") && initial != c.Cfg.Initial {
		return kit.Viol(c.Cfg.Algo+":initial", "estimate right after construction = %d, configured initial = %d", initial, c.Cfg.Initial)
	}
	if initial < 1 {
		return kit.Viol(c.Cfg.Algo+":initial", "estimate right after construction = %d (defaults in play: ctor=%q unset=%v)", initial, c.Cfg.Ctor, c.Cfg.Unset)
	}
	if initial < floor {
		// the library's default initial value lies below the configured minimum: not a valid configuration (min <= initial)
		return kit.Outcome{Labels: []string{"discard:default-initial-below-min"}}
	}
	ceil := maxInt(c.Cfg.Max, initial)
	if !c.Cfg.known("max") {
		ceil = maxInt(sanityCeil, initial) // the effective maximum is the library's default: only a sanity ceiling
	}
	incr := c.Cfg.IncreaseBy
	if c.Cfg.Algo == "aimd" && c.Cfg.Ctor == "default" {
		incr = sanityCeil
	}
	maxInf := 0
	var sawZero, sawDrop, sawSat bool
	changes := 0
	for j := 0; j < c.BulkN; j++ {
		if p := safeSample(b, Sample{RTT: 1000 + int64(j%7)}, 1); p != nil {
			return kit.Viol(c.Cfg.Algo+":panic", "quiet sample %d of %d panicked: %v", j, c.BulkN, p)
		}
	}
	times := c.Times
	if times < 1 {
		times = 1
	}
	all := make([]Sample, 0, len(c.Samples)*times)
	for r := 0; r < times; r++ {
		all = append(all, c.Samples...)
	}
	for i, s := range all {
		before := b.Outer.EstimatedLimit()
		inf := s.inflight(before)
		if inf > maxInf {
			maxInf = inf
		}
		if p := safeSample(b, s, inf); p != nil {
			return kit.Viol(c.Cfg.Algo+":panic", "sample %d %+v (in-flight %d, estimate before %d) panicked: %v", i, s, inf, before, p)
		}
		after := b.Outer.EstimatedLimit()
		hi := ceil
		if c.Cfg.Algo == "aimd" {
			hi = maxInt(initial, maxInf+incr)
		}
		if after < floor || (after > hi && !(hi > 1<<53 && float64(after) <= float64(hi))) { // (beyond 2^53 the ceiling itself is only representable to the nearest float)
			return kit.Viol(c.Cfg.Algo+":bounds", "after sample %d %+v (in-flight %d): estimate %d -> %d outside [%d,%d]", i, s, inf, before, after, floor, hi)
		}
		if in := b.Inner.EstimatedLimit(); in != after {
			return kit.Viol(c.Cfg.Algo+":wrapper", "wrapper reports %d, algorithm %d", after, in)
		}
		if after != before {
			changes++
		}
		sawZero = sawZero || s.RTT == 0
		sawDrop = sawDrop || s.Drop
		sawSat = sawSat || (!s.Drop && inf >= before)
	}
	out := kit.Outcome{NonTrivial: sawZero && sawDrop && sawSat && changes >= 2}
	out.Labels = []string{"algo:" + c.Cfg.Algo, fmt.Sprintf("windowed:%v", c.Cfg.Windowed)}
	if changes >= 2 {
		out.Labels = append(out.Labels, "changes>=2")
	}
	if sawZero {
		out.Labels = append(out.Labels, "rtt0")
	}
	if c.Cfg.Ctor != "" {
		out.Labels = append(out.Labels, "ctor:"+c.Cfg.Ctor)
	}
	if len(c.Cfg.Unset) > 0 {
		out.Labels = append(out.Labels, "unset-params")
	}
	if c.Cfg.VAlpha+c.Cfg.VBeta+c.Cfg.VThr+c.Cfg.VInc+c.Cfg.VDec != "" {
		out.Labels = append(out.Labels, "vegas-custom-fns")
	}
	return out
}

func TestC04_samples(t *testing.T) {
	kit.RequireMode(t, "std")
	kit.Check(t, kit.Prop[c04Case]{
		ID: "C04", Quick: 6000, Thor: 1_500_000,
		Rule: "valid configurations x sample sequences (rtt in {0,1,small,large,2^62}, in-flight absolute or relative to the estimate, drops incl. all-drop); non-trivial = contains an rtt=0 sample, a drop, a saturated non-drop sample and >=2 estimate changes",
		Gen:  genC04, Run: runC04,
	})
}

// The estimate creeping up on its ceiling: with smoothing below 1 a healthy saturated run brings the float estimate
// asymptotically close to the maximum (closer than any fixed epsilon after enough samples) without reaching it; the
// integer part, the pre-computed table index and every "is it at the ceiling" test live in that gap. The case is a
// limit started a few units below a ceiling at or around the table ends, a healthy run of generated length, one
// disturbance (drop, slow sample, idle sample), and again - judged by C04's oracle after every sample.

type c04cCase struct {
	Cfg     LimitCfg `json:"cfg"`
	Below   int      `json:"below"` // initial = max - below
	RTT     int64    `json:"rtt"`
	Rounds  []int    `json:"rounds"`  // healthy samples before each disturbance
	Disturb []int    `json:"disturb"` // 0 drop, 1 slow sample (10 x rtt), 2 idle sample, 3 drop with slow rtt
}

func genC04C(t *rapid.T) c04cCase {
	c := c04cCase{Cfg: genLimitCfg(t, []string{"vegas", "vegas", "gradient", "gradient2"}, false)}
	c.Cfg.Max = rapid.SampledFrom([]int{1000, 1000, 1000, 999, 1001, 100, 10, 2000}).Draw(t, "max")
	c.Below = rapid.SampledFrom([]int{0, 1, 2, 5, 10, 20, 100}).Draw(t, "below")
	c.Cfg.Initial = maxInt(1, c.Cfg.Max-c.Below)
	if c.Cfg.Min > c.Cfg.Initial {
		c.Cfg.Min = c.Cfg.Initial
	}
	if c.Cfg.Algo == "gradient" || c.Cfg.Algo == "gradient2" {
		c.Cfg.Queue = rapid.SampledFrom([]string{"", "fixed:1", "fixed:4", "sqrt:4"}).Draw(t, "queue")
		if c.Cfg.Max < 32 && c.Cfg.Queue != "fixed:1" {
			c.Cfg.Queue = "fixed:1"
		}
	}
	c.Cfg.Smoothing = rapid.SampledFrom([]float64{0.05, 0.1, 0.2, 0.2, 0.5, 0.5, 0.9, 1}).Draw(t, "smoothing")
	c.Cfg.ProbeInterval = -1
	c.Cfg.ProbeMult = 100
	c.RTT = rapid.OneOf(rapid.Int64Range(1, 1000), rapid.Int64Range(100_000, 50_000_000)).Draw(t, "rtt")
	n := rapid.IntRange(1, 6).Draw(t, "rounds")
	for i := 0; i < n; i++ {
		c.Rounds = append(c.Rounds, rapid.OneOf(rapid.IntRange(1, 60), rapid.IntRange(1, 600)).Draw(t, "healthy"))
		c.Disturb = append(c.Disturb, rapid.IntRange(0, 3).Draw(t, "disturb"))
	}
	return c
}

func runC04C(_ *testing.T, c c04cCase) kit.Outcome {
	b, err := tryBuildLimit(c.Cfg, nil)
	if err != nil {
		return kit.Outcome{Labels: []string{"discard:constructor-rejects"}}
	}
	floor := c.Cfg.floorOf()
	ceil := maxInt(c.Cfg.Max, b.Outer.EstimatedLimit())
	step := 0
	feed := func(s Sample) *kit.Outcome {
		before := b.Outer.EstimatedLimit()
		inf := s.inflight(before)
		if p := safeSample(b, s, inf); p != nil {
			o := kit.Viol(c.Cfg.Algo+":panic", "sample %d %+v (in-flight %d, estimate before %d, ceiling %d, smoothing %v) panicked: %v", step, s, inf, before, c.Cfg.Max, c.Cfg.Smoothing, p)
			return &o
		}
		step++
		if after := b.Outer.EstimatedLimit(); after < floor || after > ceil {
			o := kit.Viol(c.Cfg.Algo+":bounds", "after sample %d %+v: estimate %d -> %d outside [%d,%d]", step, s, before, after, floor, ceil)
			return &o
		}
		return nil
	}
	atCeil := false
	for r, n := range c.Rounds {
		for i := 0; i < n; i++ {
			if o := feed(Sample{RTT: c.RTT, Rel: "dbl"}); o != nil {
				return *o
			}
		}
		if b.Outer.EstimatedLimit() >= c.Cfg.Max-1 {
			atCeil = true
		}
		d := Sample{RTT: c.RTT, Rel: "dbl", Drop: true}
		switch c.Disturb[r] {
		case 1:
			d = Sample{RTT: c.RTT * 10, Rel: "dbl"}
		case 2:
			d = Sample{RTT: c.RTT, Inf: 0}
		case 3:
			d = Sample{RTT: c.RTT * 10, Rel: "dbl", Drop: true}
		}
		if o := feed(d); o != nil {
			return *o
		}
	}
	return kit.Outcome{NonTrivial: atCeil && c.Cfg.Smoothing < 1, Labels: []string{"algo:" + c.Cfg.Algo, fmt.Sprintf("max:%d", c.Cfg.Max)}}
}

func TestC04_ceiling_approach(t *testing.T) {
	kit.RequireMode(t, "std")
	kit.Check(t, kit.Prop[c04cCase]{
		ID: "C04", Quick: 3000, Thor: 400_000,
		Rule: "Vegas / Gradient / Gradient2 started 0-100 below a ceiling at or around the ends of the pre-computed tables (1000, 999, 1001, 100, 10, 2000), smoothing 0.05-1: healthy saturated runs of 1-600 samples, each followed by a drop / slow sample / idle sample; no panic, estimate in bounds after every sample; non-trivial = the estimate came within one of the ceiling with smoothing below 1",
		Gen:  genC04C, Run: runC04C,
	})
}

// A service in steady state for a long time: one RTT (with a little jitter or none), one load level, a drop every so
// often or never, for tens of thousands of samples, with probes coming round hundreds of times. Counters of
// consecutive "stable" observations, back-off shifts and accumulated rounding only show after that many repetitions
// of the same thing. Judged by C04's oracle after every sample.

type c04sCase struct {
	Cfg       LimitCfg `json:"cfg"`
	N         int      `json:"n"`
	RTT       int64    `json:"rtt"`
	Jitter    int64    `json:"jitter"`     // rtt varies in [RTT, RTT+Jitter] by a fixed pattern
	Load      string   `json:"load"`       // dbl | eq | third
	DropEvery int      `json:"drop_every"` // 0 = never
}

func genC04S(t *rapid.T) c04sCase {
	c := c04sCase{Cfg: genLimitCfg(t, []string{"vegas", "gradient", "gradient", "gradient2", "aimd"}, true)}
	switch c.Cfg.Algo {
	case "gradient":
		c.Cfg.ProbeInterval = rapid.SampledFrom([]int{1, 2, 2, 3, 5, 10, 50, 0}).Draw(t, "pi")
	case "vegas":
		c.Cfg.ProbeMult = rapid.SampledFrom([]int{1, 1, 2, 5, 30, 0}).Draw(t, "pm")
	}
	c.N = rapid.SampledFrom([]int{500, 2000, 2000, 8000, 20000, 60000}).Draw(t, "n")
	c.RTT = rapid.OneOf(rapid.Int64Range(1, 1000), rapid.Int64Range(100_000, 50_000_000), rapid.Just(int64(0))).Draw(t, "rtt")
	c.Jitter = rapid.SampledFrom([]int64{0, 0, 0, 1, 7, 1000}).Draw(t, "jitter")
	c.Load = rapid.SampledFrom([]string{"dbl", "dbl", "eq", "third"}).Draw(t, "load")
	c.DropEvery = rapid.SampledFrom([]int{0, 0, 0, 2, 17, 256, 1000}).Draw(t, "dropEvery")
	return c
}

func runC04S(_ *testing.T, c c04sCase) kit.Outcome {
	b, err := tryBuildLimit(c.Cfg, nil)
	if err != nil {
		return kit.Outcome{Labels: []string{"discard:constructor-rejects"}}
	}
	floor := c.Cfg.floorOf()
	initial := b.Outer.EstimatedLimit()
	if initial < floor {
		return kit.Outcome{Labels: []string{"discard:default-initial-below-min"}}
	}
	ceil := maxInt(c.Cfg.Max, initial)
	maxInf, start := 0, int64(0)
	for i := 0; i < c.N; i++ {
		s := Sample{RTT: c.RTT, Rel: c.Load, Drop: c.DropEvery > 0 && i%c.DropEvery == c.DropEvery-1}
		if c.Jitter > 0 {
			s.RTT += int64(i*7919) % (c.Jitter + 1)
		}
		if c.Cfg.Windowed || c.Cfg.Outer2 == "windowed" {
			start += 50_000_000
			s.Start = start
		}
		before := b.Outer.EstimatedLimit()
		inf := s.inflight(before)
		if inf > maxInf {
			maxInf = inf
		}
		if p := safeSample(b, s, inf); p != nil {
			return kit.Viol(c.Cfg.Algo+":panic", "steady state, sample %d of %d (%+v, in-flight %d, estimate before %d) panicked: %v", i, c.N, s, inf, before, p)
		}
		hi := ceil
		if c.Cfg.Algo == "aimd" {
			hi = maxInt(initial, maxInf+c.Cfg.IncreaseBy)
		}
		if after := b.Outer.EstimatedLimit(); after < floor || after > hi {
			return kit.Viol(c.Cfg.Algo+":bounds", "steady state, after sample %d of %d (%+v, in-flight %d): estimate %d -> %d outside [%d,%d]", i, c.N, s, inf, before, after, floor, hi)
		}
	}
	return kit.Outcome{NonTrivial: c.N >= 8000, Labels: []string{"algo:" + c.Cfg.Algo, fmt.Sprintf("n:%d", c.N)}}
}

func TestC04_steady(t *testing.T) {
	kit.RequireMode(t, "std")
	kit.Check(t, kit.Prop[c04sCase]{
		ID: "C04", Quick: 400, Thor: 60_000,
		Rule: "every algorithm (alone / windowed / traced) in steady state: 500-60000 samples at one RTT (no, small or large jitter; also 0), one load level (saturated / at the limit / idle), a drop every 2 / 17 / 256 / 1000 samples or never, probe intervals 1-50 and the defaults: no panic, estimate in bounds after every sample; non-trivial = at least 8000 samples",
		Gen:  genC04S, Run: runC04S,
	})
}
