package harness

// C13 — several callers blocked on the same limiter, each with its own cancellation instant. A caller's bound must
// not depend on who else is waiting: whichever of them gives up first, second, ... (older or younger than the
// others), each returns refused exactly at its own bound - the earlier of its cancellation (where cancellation
// applies) and the limiter's bound - unless a release reaches it first. One optional release: exactly one of the
// callers still waiting at that instant is granted then, the others keep their bounds.

import (
	"fmt"
	"testing"
	"testing/synctest"
	"time"

	"pgregory.net/rapid"

	"verifharness/kit"
)

type c13cCase struct {
	Stack    StackCfg `json:"stack"`
	CancelMs []int    `json:"cancel_ms"` // per caller (arriving 1 ms apart from +1 ms): cancellation instant in ms, -1 = never
	RelMs    int      `json:"rel_ms"`    // -1 = no release
}

func TestC13_crowd(t *testing.T) {
	kit.RequireMode(t, "std")
	kit.Check(t, kit.Prop[c13cCase]{
		ID: "C13", Quick: 2500, Thor: 150_000,
		Rule: "2-4 callers blocked on one blocking / deadline / queue limiter (limit 1, held), generated individual cancellation instants, at most one release (possibly at the very instant one of them is cancelled, right behind the cancellation): every caller returns refused exactly at min(own cancellation where it applies, limiter bound) or granted at the release; non-trivial = a caller that is not the longest-waiting one is cancelled while the others keep waiting",
		Gen: func(t *rapid.T) c13cCase {
			var c c13cCase
			c.Stack.Kind = rapid.SampledFrom([]string{"blocking", "blocking", "deadline", "deadline", "queue", "queue", "pool"}).Draw(t, "kind")
			c.Stack.Limit = 1
			c.Stack.Strategy = rapid.SampledFrom([]string{"simple", "precise"}).Draw(t, "strategy")
			c.Stack.Backlog = 6
			switch c.Stack.Kind {
			case "blocking":
				c.Stack.TimeoutMs = rapid.SampledFrom([]int{0, 0, 40}).Draw(t, "retry")
			case "deadline":
				c.Stack.DeadlineMs = rapid.SampledFrom([]int{30, 60, 1000}).Draw(t, "deadline")
			case "queue":
				c.Stack.Ordering = rapid.SampledFrom([]string{"fifo", "lifo"}).Draw(t, "ordering")
				c.Stack.Evict = rapid.Bool().Draw(t, "evict")
				c.Stack.TimeoutMs = rapid.SampledFrom([]int{30, 60, 1000}).Draw(t, "timeout")
			case "pool":
				c.Stack.Ordering = "random" // the generic pool over a blocking limiter
				c.Stack.TimeoutMs = 0
			}
			n := rapid.IntRange(2, 4).Draw(t, "callers")
			used := map[int]bool{}
			for i := 0; i < n; i++ {
				v := -1
				if rapid.IntRange(0, 3).Draw(t, "cancelled") > 0 {
					v = rapid.IntRange(6, 50).Draw(t, "cancelAt")
					for used[v] {
						v++
					}
					used[v] = true
				}
				c.CancelMs = append(c.CancelMs, v)
			}
			c.RelMs = -1
			if rapid.IntRange(0, 2).Draw(t, "hasRel") == 0 {
				c.RelMs = rapid.IntRange(6, 55).Draw(t, "rel")
				for used[c.RelMs] {
					c.RelMs++
				}
				if rapid.IntRange(0, 2).Draw(t, "tie") == 0 {
					// one caller is cancelled at the very instant of the release, the cancellation first and the release
					// right behind it (before the caller has had a chance to notice): the hand-off meets a waiter whose
					// context is done already. Either answer is right for that caller at that instant.
					c.CancelMs[rapid.IntRange(0, n-1).Draw(t, "tieWho")] = c.RelMs
				}
			}
			return c
		},
		Run: func(t *testing.T, c c13cCase) kit.Outcome {
			return bubble(t, func() kit.Outcome { return runC13Crowd(c) })
		},
		Timeout: 30 * time.Second,
	})
}

func runC13Crowd(c c13cCase) kit.Outcome {
	t0 := time.Now()
	st, err := buildStack(c.Stack, nil, nil, t0)
	if err != nil {
		return kit.Outcome{Harness: "stack: " + err.Error()}
	}
	w := newWorld(st, t0)
	kind := c.Stack.Kind
	ms := func(n int) time.Duration { return time.Duration(n) * time.Millisecond }
	holder := w.newCaller("a", 0, 0)
	w.start(holder)
	synctest.Wait()
	if !holder.Done || !holder.OK {
		w.unwind(2 * time.Second)
		w.flush()
		return kit.Outcome{Harness: "holder not granted"}
	}
	var callers []*vtCaller
	for range c.CancelMs {
		time.Sleep(time.Millisecond)
		cl := w.newCaller("a", 0, 0)
		w.start(cl)
		synctest.Wait()
		callers = append(callers, cl)
	}
	// events in time order (instants are distinct by construction and lie after every arrival)
	horizon := 60
	for at := len(callers) + 1; at <= horizon; at++ {
		if d := ms(at) - w.now(); d > 0 {
			time.Sleep(d)
		}
		synctest.Wait()
		for i, cm := range c.CancelMs {
			if cm == at {
				callers[i].cancel()
			}
		}
		if c.RelMs == at {
			w.release(holder, 0)
		}
		synctest.Wait()
	}
	if c.Stack.Kind == "deadline" || c.Stack.Kind == "queue" {
		time.Sleep(ms(maxInt(c.Stack.DeadlineMs, c.Stack.TimeoutMs)) + 10*time.Millisecond)
		synctest.Wait()
	}
	// ---- model ----
	const never = time.Duration(1 << 60)
	cancelApplies := kind == "blocking" || kind == "deadline" || kind == "pool" || (kind == "queue" && c.Stack.Evict)
	snap := w.snapshot()
	var viol *kit.Outcome
	granted := 0
	waitingAtRelease, tieWaiting := 0, 0
	nonTrivial := false
	for i, cl := range callers {
		s := snap[cl.ID]
		bound := never
		switch kind {
		case "deadline":
			bound = ms(c.Stack.DeadlineMs)
		case "queue":
			bound = s.Arrived + ms(c.Stack.TimeoutMs)
		}
		if cancelApplies && c.CancelMs[i] >= 0 && ms(c.CancelMs[i]) < bound {
			bound = ms(c.CancelMs[i])
			if i > 0 {
				nonTrivial = true
			}
		}
		rel := never
		if c.RelMs >= 0 {
			rel = ms(c.RelMs)
		}
		if rel < bound {
			waitingAtRelease++
		} else if rel == bound && rel != never {
			tieWaiting++
		}
		switch {
		case s.Done && s.OK:
			granted++
			if s.RetAt != rel || rel > bound {
				o := kit.Viol(kind+":crowd-grant", "caller %d of %d (cancel %dms) was granted at +%v; the only release is at %s, its bound %s", i, len(callers), c.CancelMs[i], s.RetAt, instStr(rel, never), instStr(bound, never))
				viol = &o
			}
		case s.Done:
			if s.RetAt != bound {
				o := kit.Viol(kind+":crowd-bound", "caller %d of %d blocked callers (arrived +%v, cancellation at %dms, release %dms): refused at +%v, its bound is %s", i, len(callers), s.Arrived, c.CancelMs[i], c.RelMs, s.RetAt, instStr(bound, never))
				viol = &o
			}
		default:
			if bound != never && !(rel < bound) {
				o := kit.Viol(kind+":crowd-not-bounded", "caller %d of %d blocked callers (arrived +%v, cancellation at %dms) is still blocked at +%v, its bound was %s", i, len(callers), s.Arrived, c.CancelMs[i], w.now(), instStr(bound, never))
				viol = &o
			} else if bound != never && rel < bound && granted == 0 && i == len(callers)-1 {
				// handled by the count check below
			}
		}
		if viol != nil {
			break
		}
	}
	if viol == nil {
		// callers whose bound lies after the release and who were not granted must have returned at their bound;
		// exactly one of those waiting at the release is granted
		want := 0
		if waitingAtRelease > 0 {
			want = 1
		}
		if granted != want && !(want == 0 && tieWaiting > 0 && granted == 1) {
			o := kit.Viol(kind+":crowd-count", "%d caller(s) were waiting when the token was released at %dms, %d were granted", waitingAtRelease, c.RelMs, granted)
			viol = &o
		}
		for i, cl := range callers {
			s := snap[cl.ID]
			if viol != nil || s.Done {
				continue
			}
			// still blocked: legitimate only if nothing bounds it (blocking limiter, never cancelled)
			if cancelApplies && c.CancelMs[i] >= 0 || kind == "deadline" || kind == "queue" {
				o := kit.Viol(kind+":crowd-not-bounded", "caller %d of %d (arrived +%v, cancellation at %dms) is still blocked at +%v", i, len(callers), s.Arrived, c.CancelMs[i], w.now())
				viol = &o
			}
		}
	}
	msg := w.unwind(c.Stack.unwindWait())
	w.flush()
	if viol != nil {
		return *viol
	}
	if msg != "" {
		return kit.Viol(kind+":stuck", "%s", msg)
	}
	return kit.Outcome{NonTrivial: nonTrivial, Labels: []string{"kind:" + kind, fmt.Sprintf("release:%v", c.RelMs >= 0)}}
}
