package harness

// C03 — a partition that has been removed is never charged again. Requests for key "a" and the removal of
// partition "a" start together under a generated cooperative schedule whose points lie *inside* the caller-supplied
// predicate / lookup function (public extension points). Whatever the interleaving, every grant charged to "a" was
// charged before the removal returned, so the count the removal reported (lookup: its return value; predicate: the
// removed object's busy count read right after the call) equals the object's count once everybody has returned -
// nobody releases in this scenario. A request matched to a partition before the removal and charged after it
// (matching done outside the strategy's critical section) shows up as a count that grew after the removal.

import (
	"context"
	"fmt"
	"sync"
	"testing"

	"github.com/platinummonkey/go-concurrency-limits/core"
	"github.com/platinummonkey/go-concurrency-limits/strategy"
	"github.com/platinummonkey/go-concurrency-limits/strategy/matchers"
	"pgregory.net/rapid"

	"verifharness/kit"
)

type c03rCase struct {
	Kind      string    `json:"kind"` // lookup | predicate
	Acquirers int       `json:"acquirers"`
	Limit     int       `json:"limit"`
	Order     []int     `json:"order"` // spawn order; index Acquirers is the remover
	Yields    yieldList `json:"yields"`
}

func TestC03_removed_Coop(t *testing.T) {
	kit.RequireMode(t, "coop")
	kit.Check(t, kit.Prop[c03rCase]{
		ID: "C03", Quick: 3000, Thor: 200_000,
		Rule: "1-3 requests for key a and the removal of partition a start together under a generated cooperative schedule with yields inside the predicate / lookup function: the count reported by the removal equals the removed object's count at the end (a removed partition is never charged), totals equal the grants; non-trivial = a yield fell inside a matching function and both a grant and the removal happened",
		Gen: func(t *rapid.T) c03rCase {
			c := c03rCase{Kind: rapid.SampledFrom([]string{"predicate", "predicate", "lookup"}).Draw(t, "kind"), Acquirers: rapid.IntRange(1, 3).Draw(t, "acquirers"),
				Limit: rapid.IntRange(1, 6).Draw(t, "limit")}
			c.Order = rapid.Permutation(seq(c.Acquirers+1)).Draw(t, "order")
			c.Yields = yieldList(rapid.SliceOfN(rapid.SampledFrom([]uint8{0, 1, 1, 2, 3}), 0, 24).Draw(t, "yields"))
			return c
		},
		Run: func(_ *testing.T, c c03rCase) kit.Outcome {
			sc := newSched(c.Yields)
			reg := core.EmptyMetricRegistryInstance
			ctxA := context.WithValue(context.WithValue(context.Background(), matchers.StringPredicateContextKey, "a"), matchers.LookupPartitionContextKey, "a")
			var try func() bool
			var remove func() (int, bool)
			var objBusy, totalBusy func() int
			if c.Kind == "predicate" {
				mk := func(name string) *strategy.PredicatePartition {
					return strategy.NewPredicatePartitionWithMetricRegistry(name, 0.25, func(ctx context.Context) bool {
						sc.Point("predicate.enter")
						v, _ := ctx.Value(matchers.StringPredicateContextKey).(string)
						sc.Point("predicate.exit")
						return v == name
					}, reg)
				}
				a := mk("a")
				s, err := strategy.NewPredicatePartitionStrategyWithMetricRegistry([]*strategy.PredicatePartition{mk("b"), a, mk("c")}, int32(c.Limit), reg)
				if err != nil {
					return kit.Outcome{Harness: err.Error()}
				}
				try = func() bool { tk, ok := s.TryAcquire(ctxA); return ok && tk != nil && tk.IsAcquired() }
				remove = func() (int, bool) {
					rm, ok := s.RemovePartitionsMatching(ctxA)
					if !ok || len(rm) != 1 || rm[0] != a {
						return 0, false
					}
					return a.BusyCount(), true
				}
				objBusy, totalBusy = a.BusyCount, s.BusyCount
			} else {
				a := strategy.NewLookupPartitionWithMetricRegistry("a", 0.25, 1, reg)
				s, err := strategy.NewLookupPartitionStrategyWithMetricRegistry(map[string]*strategy.LookupPartition{
					"a": a, "b": strategy.NewLookupPartitionWithMetricRegistry("b", 0.25, 1, reg)},
					func(ctx context.Context) string {
						sc.Point("lookup.enter")
						v, _ := ctx.Value(matchers.LookupPartitionContextKey).(string)
						sc.Point("lookup.exit")
						return v
					}, int32(c.Limit), reg)
				if err != nil {
					return kit.Outcome{Harness: err.Error()}
				}
				try = func() bool { tk, ok := s.TryAcquire(ctxA); return ok && tk != nil && tk.IsAcquired() }
				remove = func() (int, bool) { return s.RemovePartition("a") }
				objBusy, totalBusy = a.BusyCount, s.BusyCount
			}
			var mu sync.Mutex
			granted := 0
			removedWith, removed := -1, false
			start := make(chan struct{})
			var wg sync.WaitGroup
			order := c.Order
			if len(order) != c.Acquirers+1 {
				order = seq(c.Acquirers + 1)
			}
			for _, who := range order {
				wg.Add(1)
				go func(who int) {
					defer wg.Done()
					<-start
					if who == c.Acquirers {
						n, ok := remove()
						mu.Lock()
						removedWith, removed = n, ok
						mu.Unlock()
						return
					}
					if try() {
						mu.Lock()
						granted++
						mu.Unlock()
					}
				}(who)
			}
			close(start)
			wg.Wait()
			if !removed {
				return kit.Viol(c.Kind+":remove-result", "the removal of partition a did not report the registered partition")
			}
			if got := objBusy(); got != removedWith {
				return kit.Viol(c.Kind+":charged-after-removal", "the removal of partition a reported %d token(s) outstanding; after every call had returned (nobody released) the removed object counts %d: a request was charged to a partition that was no longer registered", removedWith, got)
			}
			if got := totalBusy(); got != granted {
				return kit.Viol(c.Kind+":total-after-removal", "%d request(s) were granted, the strategy counts %d", granted, got)
			}
			if c.Kind == "predicate" && granted != removedWith {
				// predicate strategy: a request for a either was charged to a (before the removal) or matched nothing
				return kit.Viol(c.Kind+":granted-without-partition", "%d request(s) for key a were granted, %d were charged to partition a before it was removed", granted, removedWith)
			}
			return kit.Outcome{NonTrivial: len(c.Yields) > 0 && granted > 0, Labels: []string{"kind:" + c.Kind, fmt.Sprintf("granted:%d", granted)}}
		},
		NoShrink: true,
	})
}
