package harness

// Exported building blocks that the other checks only reach through the types built on them. Each is part of the
// behaviour behind a listed property and can be used (or re-used by a change) on its own:
//
//   C20  core.CommonMetricSampler / NewCommonMetricSamplerOrNil and the MetricSupplier wrappers
//   C03  LookupPartition.UpdateLimit / PredicatePartition.UpdateLimit (the share formula itself)
//   C04  the pre-computed policy functions (sqrt / log10 tables and their math fall-back)
//   C02  core.NewAcquiredStrategyToken / NewNotAcquiredStrategyToken, limiter.NewDelegateListener
//   C11  QueueLimiterConfig.ApplyDefaults (the order an empty configuration selects is the documented default)
//
// Found by an audit of `go doc -all` against the identifiers the harness mentions (DESIGN section 10).

import (
	"context"
	"fmt"
	"math"
	"sync/atomic"
	"testing"

	"github.com/platinummonkey/go-concurrency-limits/core"
	"github.com/platinummonkey/go-concurrency-limits/limit"
	"github.com/platinummonkey/go-concurrency-limits/limit/functions"
	"github.com/platinummonkey/go-concurrency-limits/limiter"
	"github.com/platinummonkey/go-concurrency-limits/strategy"
	"pgregory.net/rapid"

	"verifharness/kit"
)

// ---------------------------------------------------------------------------------------------
// C20: CommonMetricSampler and supplier wrappers

type c20CoreOp struct {
	K    string `json:"k"` // sample | set | poll
	RTT  int64  `json:"rtt,omitempty"`
	Inf  int    `json:"inf,omitempty"`
	Drop bool   `json:"drop,omitempty"`
	N    int    `json:"n,omitempty"`
}

type c20CoreCase struct {
	Name  string      `json:"name"`
	Tags  []string    `json:"tags,omitempty"`
	OrNil bool        `json:"or_nil,omitempty"`
	Init  int         `json:"init"`
	Ops   []c20CoreOp `json:"ops"`
	// supplier wrappers
	IntV   int     `json:"int_v"`
	UintV  uint64  `json:"uint_v"`
	FloatV float64 `json:"float_v"`
}

func genC20Core(t *rapid.T) c20CoreCase {
	c := c20CoreCase{
		Name:   rapid.SampledFrom([]string{"", "x", "my.limit", "a b"}).Draw(t, "name"),
		OrNil:  rapid.Bool().Draw(t, "ornil"),
		Init:   rapid.IntRange(0, 300).Draw(t, "init"),
		IntV:   rapid.OneOf(rapid.IntRange(-5, 500), rapid.SampledFrom([]int{math.MaxInt32, math.MinInt32, 1 << 40})).Draw(t, "intv"),
		UintV:  rapid.OneOf(rapid.Uint64Range(0, 500), rapid.SampledFrom([]uint64{1 << 31, 1 << 32, 1 << 52})).Draw(t, "uintv"),
		FloatV: rapid.OneOf(rapid.Float64Range(-10, 1000), rapid.SampledFrom([]float64{0, 0.5, 1e12, -1})).Draw(t, "floatv"),
	}
	if rapid.Bool().Draw(t, "tagged") {
		c.Tags = []string{"k:v", "z:" + rapid.SampledFrom([]string{"1", "2"}).Draw(t, "tagv")}
	}
	n := rapid.IntRange(1, 60).Draw(t, "n")
	for i := 0; i < n; i++ {
		switch rapid.IntRange(0, 9).Draw(t, "k") {
		case 0:
			c.Ops = append(c.Ops, c20CoreOp{K: "set", N: rapid.IntRange(0, 100000).Draw(t, "setn")})
		case 1:
			c.Ops = append(c.Ops, c20CoreOp{K: "poll"})
		default:
			c.Ops = append(c.Ops, c20CoreOp{K: "sample", RTT: genRTT().Draw(t, "rtt"),
				Inf:  rapid.OneOf(rapid.IntRange(0, 50), rapid.SampledFrom([]int{0, 1, math.MaxInt32})).Draw(t, "inf"),
				Drop: rapid.IntRange(0, 3).Draw(t, "drop") == 0})
		}
	}
	return c
}

func runC20Core(_ *testing.T, c c20CoreCase) kit.Outcome {
	// supplier wrappers: the polled value is the supplied one, always accepted
	if v, ok := core.NewIntMetricSupplierWrapper(func() int { return c.IntV })(); !ok || v != float64(c.IntV) {
		return kit.Viol("core:int-supplier", "NewIntMetricSupplierWrapper over %d reports (%v,%v)", c.IntV, v, ok)
	}
	if v, ok := core.NewUint64MetricSupplierWrapper(func() uint64 { return c.UintV })(); !ok || v != float64(c.UintV) {
		return kit.Viol("core:uint-supplier", "NewUint64MetricSupplierWrapper over %d reports (%v,%v)", c.UintV, v, ok)
	}
	if v, ok := core.NewFloat64MetricSupplierWrapper(func() float64 { return c.FloatV })(); !ok || v != c.FloatV {
		return kit.Viol("core:float-supplier", "NewFloat64MetricSupplierWrapper over %v reports (%v,%v)", c.FloatV, v, ok)
	}
	reg := newRecRegistry()
	lim := limit.NewSettableLimit("unused", c.Init, nil)
	var s *core.CommonMetricSampler
	if c.OrNil {
		s = core.NewCommonMetricSamplerOrNil(reg, lim, c.Name, c.Tags...)
		if s == nil {
			return kit.Viol("core:ornil-real-registry", "NewCommonMetricSamplerOrNil returned nil for a real registry")
		}
		// a nil / empty registry yields a sampler that swallows samples without panicking (its users call it blindly)
		core.NewCommonMetricSamplerOrNil(nil, lim, c.Name).Sample(1, 1, true)
		core.NewCommonMetricSamplerOrNil(core.EmptyMetricRegistryInstance, lim, c.Name).Sample(1, 1, true)
	} else {
		s = core.NewCommonMetricSampler(reg, lim, c.Name, c.Tags...)
		core.NewCommonMetricSampler(nil, lim, c.Name).Sample(1, 1, true)
	}
	idRTT := core.PrefixMetricWithName(core.MetricRTT, c.Name)
	idInf := core.PrefixMetricWithName(core.MetricInFlight, c.Name)
	idDrop := core.PrefixMetricWithName(core.MetricDropped, c.Name)
	idLimit := core.PrefixMetricWithName(core.MetricLimit, c.Name)
	tagStr := ""
	for i, tg := range c.Tags {
		if i > 0 {
			tagStr += ","
		}
		tagStr += tg
	}
	for id, kind := range map[string]string{idRTT: "timing", idInf: "distribution", idDrop: "count"} {
		if got := reg.Kinds[id+"|"+tagStr]; got != kind {
			return kit.Viol("core:sampler-registration", "metric %q (tags %q) registered as %q, want %q (registrations: %v)", id, tagStr, got, kind, reg.Kinds)
		}
	}
	reg.take()
	drops, polls, sets := 0, 0, 0
	for i, o := range c.Ops {
		switch o.K {
		case "set":
			lim.SetLimit(o.N)
			sets++
		case "poll":
			polls++
			v, ok := reg.gauge(idLimit, tagStr)
			if !ok || v != float64(lim.EstimatedLimit()) {
				return kit.Viol("core:limit-gauge", "op %d: the limit gauge registered by the sampler reports (%v,%v), the limit's estimate is %d", i, v, ok, lim.EstimatedLimit())
			}
		case "sample":
			s.Sample(o.RTT, o.Inf, o.Drop)
			got := reg.take()
			var nRTT, nInf, nDrop int
			for _, g := range got {
				switch g.ID {
				case idRTT:
					nRTT++
					if g.Value != float64(o.RTT) {
						return kit.Viol("core:sample-metrics", "op %d %+v: rtt sample %v", i, o, g.Value)
					}
				case idInf:
					nInf++
					if g.Value != float64(o.Inf) {
						return kit.Viol("core:sample-metrics", "op %d %+v: in-flight sample %v", i, o, g.Value)
					}
				case idDrop:
					nDrop++
					if g.Value != 1 {
						return kit.Viol("core:sample-metrics", "op %d %+v: drop counter incremented by %v", i, o, g.Value)
					}
				default:
					// further metrics a sampler may emit are not promised against
				}
			}
			wantDrop := 0
			if o.Drop {
				wantDrop = 1
				drops++
			}
			if nRTT != 1 || nInf != 1 || nDrop != wantDrop {
				return kit.Viol("core:sample-metrics", "op %d %+v: %d rtt, %d in-flight, %d drop samples (want 1, 1, %d)", i, o, nRTT, nInf, nDrop, wantDrop)
			}
		}
	}
	return kit.Outcome{NonTrivial: drops > 0 && polls > 0 && sets > 0, Labels: []string{fmt.Sprintf("ornil:%v", c.OrNil), fmt.Sprintf("tags:%d", len(c.Tags))}}
}

func TestC20_core_sampler(t *testing.T) {
	kit.RequireMode(t, "std")
	kit.Check(t, kit.Prop[c20CoreCase]{
		ID: "C20", Quick: 1500, Thor: 200_000,
		Rule: "core.CommonMetricSampler built directly (with / without OrNil, names, tags) over a settable limit and a recording registry: every Sample = one rtt, one in-flight, a drop increment iff drop; the limit gauge it registers follows the limit; supplier wrappers forward exactly; non-trivial = a drop, a poll and a set",
		Gen:  genC20Core, Run: runC20Core,
	})
}

// ---------------------------------------------------------------------------------------------
// C03: the share formula on the partition objects themselves

type c03ShareOp struct {
	K     string `json:"k"` // update | acquire | release
	Total int32  `json:"total,omitempty"`
}

type c03ShareCase struct {
	Pct  float64      `json:"pct"`
	Init int32        `json:"init"`
	Ops  []c03ShareOp `json:"ops"`
}

func genC03Share(t *rapid.T) c03ShareCase {
	c := c03ShareCase{Init: rapid.SampledFrom([]int32{0, 1, 3, 10, 50}).Draw(t, "init")}
	c.Pct = rapid.OneOf(
		rapid.SampledFrom([]float64{0, 1, 0.1, 0.3, 0.7, 0.035, 0.28, 0.29, 0.57, 0.58, 1.0 / 3, 2.0 / 3, 0.10004, 0.5, 0.25, 1e-9}),
		rapid.Custom(func(t *rapid.T) float64 { return float64(rapid.IntRange(0, 64).Draw(t, "k64")) / 64 }),
		rapid.Custom(func(t *rapid.T) float64 { return float64(rapid.IntRange(0, 1000).Draw(t, "k1000")) / 1000 }),
		rapid.Float64Range(0, 1),
	).Draw(t, "pct")
	n := rapid.IntRange(1, 40).Draw(t, "n")
	for i := 0; i < n; i++ {
		switch rapid.IntRange(0, 3).Draw(t, "k") {
		case 0:
			c.Ops = append(c.Ops, c03ShareOp{K: "acquire"})
		case 1:
			c.Ops = append(c.Ops, c03ShareOp{K: "release"})
		default:
			c.Ops = append(c.Ops, c03ShareOp{K: "update", Total: rapid.OneOf(
				rapid.Int32Range(1, 20), rapid.Int32Range(1, 200), rapid.Int32Range(1, 100000),
				rapid.SampledFrom([]int32{1, 2, 10, 100, 200, 1000, 32767, 32768, 65535, 65536, 1 << 24, math.MaxInt32}),
			).Draw(t, "total")})
		}
	}
	return c
}

func runC03Share(_ *testing.T, c c03ShareCase) kit.Outcome {
	regL, regP := newRecRegistry(), newRecRegistry()
	lp := strategy.NewLookupPartitionWithMetricRegistry("p", c.Pct, c.Init, regL)
	pp := strategy.NewPredicatePartitionWithMetricRegistry("p", c.Pct, func(context.Context) bool { return true }, regP)
	type part interface {
		UpdateLimit(int32)
		Limit() int
		BusyCount() int
		IsLimitExceeded() bool
	}
	// (Acquire / Release are called by statement: whatever they return is not part of what is judged)
	subjects := []struct {
		name     string
		p        part
		reg      *recRegistry
		acq, rel func()
	}{{"lookup", lp, regL, func() { lp.Acquire() }, func() { lp.Release() }}, {"predicate", pp, regP, func() { pp.Acquire() }, func() { pp.Release() }}}
	nt, updates, busy := false, 0, 0
	want := -1 // unknown until the first update (the constructors' initial limit is the strategy's business)
	for i, op := range c.Ops {
		switch op.K {
		case "update":
			w := math.Max(1, math.Ceil(float64(op.Total)*c.Pct))
			if w > math.MaxInt32 {
				continue
			}
			want = int(w)
			updates++
			if f := float64(op.Total) * c.Pct; f != math.Floor(f) && want > 1 {
				nt = true
			}
		case "release":
			if busy == 0 {
				continue // a release without a grant is not a history the strategies produce
			}
			busy--
		case "acquire":
			busy++
		}
		for _, s := range subjects {
			s.reg.take()
			switch op.K {
			case "update":
				s.p.UpdateLimit(op.Total)
			case "acquire":
				s.acq()
				got := s.reg.take()
				// where the bin's in-flight sample is emitted (here or by the strategy) is not promised; one that is
				// emitted here must be the bin's count after this grant, once
				if len(got) > 1 || (len(got) == 1 && (got[0].ID != core.MetricInFlight || got[0].Value != float64(busy))) {
					return kit.Viol(s.name+":partition-inflight-sample", "op %d: Acquire on the partition object (busy now %d) emitted %+v, want at most one %s sample = %d", i, busy, got, core.MetricInFlight, busy)
				}
			case "release":
				s.rel()
			}
			if got := s.p.BusyCount(); got != busy {
				return kit.Viol(s.name+":partition-busy", "op %d %+v: BusyCount() = %d, want %d", i, op, got, busy)
			}
			if want >= 0 {
				if got := s.p.Limit(); got != want {
					return kit.Viol(s.name+":partition-share", "op %d %+v: partition(%v) Limit() = %d, want max(1,ceil(total*%v)) = %d", i, op, c.Pct, got, c.Pct, want)
				}
				if g, ok := s.reg.gauge(core.MetricPartitionLimit, "p"); !ok || g != float64(want) {
					return kit.Viol(s.name+":partition-limit-gauge", "op %d %+v: the partition's limit gauge reports (%v,%v), Limit() is %d", i, op, g, ok, want)
				}
				if got := s.p.IsLimitExceeded(); got != (busy >= want) {
					return kit.Viol(s.name+":partition-exceeded", "op %d %+v: IsLimitExceeded() = %v with busy %d and share %d", i, op, got, busy, want)
				}
			}
		}
	}
	return kit.Outcome{NonTrivial: nt && updates >= 2 && busy > 0}
}

func TestC03_partition_share(t *testing.T) {
	kit.RequireMode(t, "std")
	kit.Check(t, kit.Prop[c03ShareCase]{
		ID: "C03", Quick: 4000, Thor: 600_000,
		Rule: "the exported partition objects used directly (UpdateLimit with totals up to 2^31-1 and decimal / dyadic / float-noise fractions, Acquire, Release): Limit() == max(1, ceil(float64(total)*fraction)), BusyCount() == outstanding, IsLimitExceeded() == (busy >= share), an in-flight sample emitted by Acquire == busy, limit gauge == Limit(); non-trivial = a non-integer product with a share above 1, two updates, tokens outstanding at the end",
		Gen:  genC03Share, Run: runC03Share,
	})
}

// ---------------------------------------------------------------------------------------------
// C04: the pre-computed policy functions

type c04FnCase struct {
	Baseline int   `json:"baseline"`
	Ns       []int `json:"ns"`
}

func genC04Fn(t *rapid.T) c04FnCase {
	c := c04FnCase{Baseline: rapid.IntRange(0, 50).Draw(t, "b")}
	n := rapid.IntRange(1, 40).Draw(t, "n")
	for i := 0; i < n; i++ {
		c.Ns = append(c.Ns, rapid.OneOf(
			rapid.IntRange(0, 1100), rapid.IntRange(0, 1<<20),
			rapid.SampledFrom([]int{0, 1, 9, 10, 99, 100, 998, 999, 1000, 1001, 9999, 10000, math.MaxInt32, 1 << 31, 1 << 40, 1<<53 - 1, 1 << 53}),
		).Draw(t, "est"))
	}
	return c
}

// intLog10 = floor(log10(n)) for n >= 1, by counting digits (no floating point).
func intLog10(n int) int {
	d := 0
	for n >= 10 {
		n /= 10
		d++
	}
	return d
}

func runC04Fn(_ *testing.T, c c04FnCase) (out kit.Outcome) {
	defer func() {
		if p := recover(); p != nil {
			out = kit.Viol("functions:panic", "policy function panicked on an estimate of the case %+v: %v", c, p)
		}
	}()
	lg := functions.Log10RootFunction(c.Baseline)
	lgf := functions.Log10RootFloatFunction(float64(c.Baseline))
	sq := functions.SqrtRootFunction(c.Baseline)
	fx := functions.FixedQueueSizeFunc(c.Baseline)
	edge := false
	for _, n := range c.Ns {
		if got := fx(n); got != c.Baseline {
			return kit.Viol("functions:fixed", "FixedQueueSizeFunc(%d)(%d) = %d", c.Baseline, n, got)
		}
		g := lg(n)
		s := sq(n)
		f := lgf(float64(n))
		if math.IsNaN(f) || math.IsInf(f, 0) {
			return kit.Viol("functions:log10-float", "Log10RootFloatFunction(%d)(%d) = %v", c.Baseline, n, f)
		}
		if n >= 1 {
			// the table is a cache of the math: one rule on both sides of its end (never below baseline, grows with
			// the order of magnitude); floating point may be off by one exactly at a power of ten / a square
			lo, hi := c.Baseline+intLog10(n), c.Baseline+maxInt(1, intLog10(n))
			if g < lo-1 || g > hi+1 {
				return kit.Viol("functions:log10", "Log10RootFunction(%d)(%d) = %d, outside [%d,%d]", c.Baseline, n, g, lo-1, hi+1)
			}
			if f < float64(lo-1) || f > float64(hi+1) {
				return kit.Viol("functions:log10-float", "Log10RootFloatFunction(%d)(%d) = %v, outside [%d,%d]", c.Baseline, n, f, lo-1, hi+1)
			}
			r := int(math.Sqrt(float64(n)))
			if s < maxInt(c.Baseline, r-1) || s > maxInt(c.Baseline, r+1) {
				return kit.Viol("functions:sqrt", "SqrtRootFunction(%d)(%d) = %d, integer root %d", c.Baseline, n, s, r)
			}
		}
		if n >= 998 && n <= 1002 {
			edge = true
		}
	}
	return kit.Outcome{NonTrivial: edge}
}

func TestC04_policy_functions(t *testing.T) {
	kit.RequireMode(t, "std")
	kit.Check(t, kit.Prop[c04FnCase]{
		ID: "C04", Quick: 3000, Thor: 400_000,
		Rule: "the pre-computed sqrt / log10 policy functions (int and float variants) and the fixed one on estimates 0..2^53 (the range a float64 estimate holds exactly), around the end of the tables: never panic, never NaN/Inf, and within one of the integer root / order of magnitude they cache; non-trivial = an estimate within 2 of the table end",
		Gen:  genC04Fn, Run: runC04Fn,
	})
}

// ---------------------------------------------------------------------------------------------
// C02 / C10: strategy tokens and the delegate listener

type c02TokCase struct {
	Acquired bool  `json:"acquired"`
	InFlight int   `json:"in_flight"`
	Ops      []int `json:"ops"` // 0 IsAcquired, 1 InFlightCount, 2 Release, 3 String
}

func genC02Tok(t *rapid.T) c02TokCase {
	return c02TokCase{
		Acquired: rapid.Bool().Draw(t, "acq"),
		InFlight: rapid.OneOf(rapid.IntRange(0, 100), rapid.SampledFrom([]int{0, 1, math.MaxInt32})).Draw(t, "inf"),
		Ops:      rapid.SliceOfN(rapid.IntRange(0, 3), 1, 12).Draw(t, "ops"),
	}
}

func runC02Tok(_ *testing.T, c c02TokCase) kit.Outcome {
	released := 0
	var tok core.StrategyToken
	if c.Acquired {
		tok = core.NewAcquiredStrategyToken(c.InFlight, func() { released++ })
	} else {
		tok = core.NewNotAcquiredStrategyToken(c.InFlight)
	}
	rel := 0
	for i, o := range c.Ops {
		switch o {
		case 0:
			if tok.IsAcquired() != c.Acquired {
				return kit.Viol("token:is-acquired", "op %d: IsAcquired() = %v on a token built as acquired=%v", i, tok.IsAcquired(), c.Acquired)
			}
		case 1:
			if tok.InFlightCount() != c.InFlight {
				return kit.Viol("token:in-flight", "op %d: InFlightCount() = %d, built with %d", i, tok.InFlightCount(), c.InFlight)
			}
		case 2:
			tok.Release()
			rel++
			// an acquired token gives its unit back with the first Release; whether further calls repeat the release
			// function (as today) or are swallowed (an idempotent token) is not promised - but never more often than
			// Release was called, and never for a refused token
			if (c.Acquired && (released < 1 || released > rel)) || (!c.Acquired && released != 0) {
				return kit.Viol("token:release", "op %d: after %d Release() calls the release function ran %d times (acquired=%v)", i, rel, released, c.Acquired)
			}
		case 3:
			if s, ok := tok.(fmt.Stringer); ok {
				_ = s.String()
			}
		}
	}
	return kit.Outcome{NonTrivial: rel > 0}
}

func TestC02_tokens(t *testing.T) {
	kit.RequireMode(t, "std")
	kit.Check(t, kit.Prop[c02TokCase]{
		ID: "C02", Quick: 1500, Thor: 100_000,
		Rule: "core.NewAcquiredStrategyToken / NewNotAcquiredStrategyToken: accessors report what the token was built with, the first Release of an acquired token runs the release function (never more often than Release was called), a refused token releases nothing; non-trivial = a Release",
		Gen:  genC02Tok, Run: runC02Tok,
	})
}

// countingListener records the outcomes it was completed with.
type countingListener struct{ s, i, d int32 }

func (l *countingListener) OnSuccess() { atomic.AddInt32(&l.s, 1) }
func (l *countingListener) OnIgnore()  { atomic.AddInt32(&l.i, 1) }
func (l *countingListener) OnDropped() { atomic.AddInt32(&l.d, 1) }

func TestC02_delegate_listener(t *testing.T) {
	kit.RequireMode(t, "std")
	kit.Check(t, kit.Prop[[]int]{
		ID: "C02", Quick: 500, Thor: 20_000,
		Rule: "limiter.NewDelegateListener used directly (its condition is private: nobody can wait on it): each completion returns and reaches the wrapped listener exactly once with the same outcome; non-trivial = all three outcomes used",
		Gen:  func(t *rapid.T) []int { return rapid.SliceOfN(rapid.IntRange(0, 2), 1, 12).Draw(t, "outcomes") },
		Run: func(_ *testing.T, outcomes []int) kit.Outcome {
			seen := map[int]bool{}
			for i, o := range outcomes {
				inner := &countingListener{}
				dl := limiter.NewDelegateListener(inner)
				switch o {
				case 0:
					dl.OnSuccess()
				case 1:
					dl.OnIgnore()
				default:
					dl.OnDropped()
				}
				want := [3]int32{}
				want[o] = 1
				if got := [3]int32{inner.s, inner.i, inner.d}; got != want {
					return kit.Viol("delegate-listener:forward", "listener %d: completion %d reached the wrapped listener as success/ignore/dropped = %v", i, o, got)
				}
				seen[o] = true
			}
			return kit.Outcome{NonTrivial: len(seen) == 3}
		},
	})
}

// ---------------------------------------------------------------------------------------------
// C11: ApplyDefaults

func TestC11_apply_defaults(t *testing.T) {
	kit.RequireMode(t, "std")
	type cfgCase struct {
		Ordering string `json:"ordering"`
		Size     int    `json:"size"`
		Evict    bool   `json:"evict"`
	}
	kit.Check(t, kit.Prop[cfgCase]{
		ID: "C11", Quick: 300, Thor: 5_000,
		Rule: "QueueLimiterConfig.ApplyDefaults: a configured ordering is kept, an empty one becomes the documented default (LIFO), the other fields a caller set are kept; non-trivial = an empty ordering",
		Gen: func(t *rapid.T) cfgCase {
			return cfgCase{Ordering: rapid.SampledFrom([]string{"", "", string(limiter.OrderingFIFO), string(limiter.OrderingLIFO)}).Draw(t, "ord"),
				Size: rapid.IntRange(1, 500).Draw(t, "size"), Evict: rapid.Bool().Draw(t, "evict")}
		},
		Run: func(_ *testing.T, c cfgCase) kit.Outcome {
			cfg := limiter.QueueLimiterConfig{Ordering: limiter.QueueOrdering(c.Ordering), MaxBacklogSize: c.Size, BacklogEvictDoneCtx: c.Evict}
			cfg.ApplyDefaults()
			want := limiter.QueueOrdering(c.Ordering)
			if c.Ordering == "" {
				want = limiter.OrderingLIFO
			}
			if cfg.Ordering != want {
				return kit.Viol("apply-defaults:ordering", "ordering %q became %q, want %q", c.Ordering, cfg.Ordering, want)
			}
			if cfg.MaxBacklogSize != c.Size || cfg.BacklogEvictDoneCtx != c.Evict {
				return kit.Viol("apply-defaults:kept-fields", "size %d / evict %v became %d / %v", c.Size, c.Evict, cfg.MaxBacklogSize, cfg.BacklogEvictDoneCtx)
			}
			return kit.Outcome{NonTrivial: c.Ordering == ""}
		},
	})
}
