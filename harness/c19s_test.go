package harness

// C19 — pools under real threads (no bubble, real clock as a guard only): callers cycle through the pool with
// short holds; never more holders than the pool's size, and once everybody is done the idle pool hands out its
// full size again at once (completions that coincide must all count).

import (
	"context"
	"fmt"
	"sync"
	"sync/atomic"
	"testing"
	"time"

	"github.com/platinummonkey/go-concurrency-limits/core"
	"github.com/platinummonkey/go-concurrency-limits/limit"
	"github.com/platinummonkey/go-concurrency-limits/limiter"
	"github.com/platinummonkey/go-concurrency-limits/patterns/pool"
	"github.com/platinummonkey/go-concurrency-limits/strategy"
	"pgregory.net/rapid"

	"verifharness/kit"
)

type c19sCase struct {
	Kind     string `json:"kind"` // pool | fixedpool
	Strategy string `json:"strategy,omitempty"`
	Ordering string `json:"ordering"`
	Limit    int    `json:"limit"`
	Workers  int    `json:"workers"`
	Cycles   int    `json:"cycles"`
}

func runC19S(_ *testing.T, c c19sCase) kit.Outcome {
	ord := map[string]pool.Ordering{"random": pool.OrderingRandom, "fifo": pool.OrderingFIFO, "lifo": pool.OrderingLIFO}[c.Ordering]
	var p core.Limiter
	if c.Kind == "fixedpool" {
		fp, err := pool.NewFixedPool("p", ord, c.Limit, 10, time.Millisecond, time.Millisecond, 0, 64, 2*time.Second, nil, nil)
		if err != nil {
			return kit.Outcome{Harness: err.Error()}
		}
		p = fp
	} else {
		var st core.Strategy = strategy.NewSimpleStrategy(c.Limit)
		if c.Strategy == "precise" {
			st = strategy.NewPreciseStrategy(c.Limit)
		}
		def, err := limiter.NewDefaultLimiter(limit.NewFixedLimit("f", c.Limit, nil), 1e6, 1e6, 0, 10, st, nil, nil)
		if err != nil {
			return kit.Outcome{Harness: err.Error()}
		}
		gp, err := pool.NewPool(def, ord, 64, 2*time.Second, nil, nil)
		if err != nil {
			return kit.Outcome{Harness: err.Error()}
		}
		p = gp
	}
	kind := fmt.Sprintf("%s-%s", c.Kind, c.Ordering)
	var holders, maxHolders, refused atomic.Int64
	start := make(chan struct{})
	var wg sync.WaitGroup
	for g := 0; g < c.Workers; g++ {
		wg.Add(1)
		go func(g int) {
			defer wg.Done()
			<-start
			for i := 0; i < c.Cycles; i++ {
				ctx, cancel := context.WithTimeout(context.Background(), 5*time.Second)
				l, ok := p.Acquire(ctx)
				cancel()
				if !ok {
					refused.Add(1)
					continue
				}
				n := holders.Add(1)
				for {
					m := maxHolders.Load()
					if n <= m || maxHolders.CompareAndSwap(m, n) {
						break
					}
				}
				holders.Add(-1)
				complete(l, g+i)
			}
		}(g)
	}
	close(start)
	done := make(chan struct{})
	go func() { wg.Wait(); close(done) }()
	select {
	case <-done:
	case <-time.After(90 * time.Second):
		return kit.Outcome{Harness: "workers did not finish within 90 s (inconclusive)"}
	}
	if m := maxHolders.Load(); m > int64(c.Limit) {
		return kit.Viol(kind+":over-limit", "%d tokens were held at once, the pool's size is %d", m, c.Limit)
	}
	// idle now: the pool hands out its full size at once
	var got []core.Listener
	for i := 0; i < c.Limit; i++ {
		// nobody holds a token: the attempt is decided on the spot. The context's 10 s only end a call that a pool
		// believing itself full would otherwise sit in; a refusal as such is the finding, not how long it took.
		ctx, cancel := context.WithTimeout(context.Background(), 10*time.Second)
		t0 := time.Now()
		l, ok := p.Acquire(ctx)
		cancel()
		if !ok {
			for _, g := range got {
				g.OnIgnore()
			}
			return kit.Viol(kind+":capacity-lost", "after %d threads x %d acquire/complete cycles nobody holds a token, yet the idle pool (size %d) did not admit caller %d of %d (gave up after %v)", c.Workers, c.Cycles, c.Limit, i+1, c.Limit, time.Since(t0).Round(time.Millisecond))
		}
		got = append(got, l)
	}
	for _, g := range got {
		g.OnIgnore()
	}
	return kit.Outcome{NonTrivial: c.Workers > c.Limit, Labels: []string{"kind:" + kind, fmt.Sprintf("some-refused:%v", refused.Load() > 0)}}
}

func TestC19_stress_parallel(t *testing.T) {
	kit.RequireMode(t, "std")
	kit.Check(t, kit.Prop[c19sCase]{
		ID: "C19", Quick: 30, Thor: 1000,
		Rule: "generic pool (simple / precise strategy) and fixed pool x random / FIFO / LIFO x size 1-4 x 4-12 real threads x 500-5000 acquire/complete cycles; never more holders than the size; afterwards the idle pool admits `size` callers in a row (a refusal is the finding; a 10 s context only ends the call); non-trivial = more threads than the size",
		Gen: func(t *rapid.T) c19sCase {
			c := c19sCase{Kind: rapid.SampledFrom([]string{"pool", "pool", "fixedpool"}).Draw(t, "kind"), Ordering: rapid.SampledFrom([]string{"random", "fifo", "lifo"}).Draw(t, "ordering"),
				Limit: rapid.IntRange(1, 4).Draw(t, "limit"), Workers: rapid.IntRange(4, 12).Draw(t, "workers"), Cycles: rapid.SampledFrom([]int{500, 2000, 5000}).Draw(t, "cycles")}
			if c.Kind == "pool" {
				c.Strategy = rapid.SampledFrom([]string{"simple", "simple", "precise"}).Draw(t, "strategy")
			}
			return c
		},
		Run: runC19S, NoShrink: true,
	})
}
