package harness

// C09 (a) — DefaultLimiter: the algorithm sees each window once, aggregated exactly.

import (
	"testing"

	"verifharness/kit"
)

func TestC09_default(t *testing.T) {
	kit.RequireMode(t, "std")
	kit.Check(t, kit.Prop[dlCase]{
		ID: "C09", Quick: 2500, Thor: 300_000,
		Rule: "DefaultLimiter with a recording limit on a virtual clock (exact RTTs): acquire bursts, sleeps, completions of all outcomes in arbitrary order; the recorded OnSample list must equal a reference fold (min RTT of qualifying successes, max in-flight, sticky drop, readiness, window period) element by element; non-trivial = >=2 windows, a drop inside a window that is not its closing sample, an ignored and a sub-threshold completion inside a window",
		Gen:  genDL("c09"), Run: func(t *testing.T, c dlCase) kit.Outcome { return runDL(t, c, "c09") },
	})
}
