package harness

// C09 — the windowed limit while its delegate is busy. The algorithm behind a windowed limit may take its time over a
// window (it computes, notifies listeners, logs); completions keep arriving meanwhile on other goroutines. Whatever the
// wrapper does about that - wait, or let them in - a completion that arrives while a closed window is being delivered
// belongs to a later window and must show up there: every qualifying completion leaves its trace in exactly one window.
// The delegate of this test stalls inside its first OnSample until a marker completion (a drop with an in-flight value
// nobody else reports) has either returned or has had its chance; then more completions close the following windows.
// Oracle: some delivered window carries the marker (max in-flight = the marker's, drop flag set); the window that
// was being delivered meanwhile does not (it was folded before the marker arrived).

import (
	"fmt"
	"sync"
	"testing"
	"time"

	"github.com/platinummonkey/go-concurrency-limits/core"
	"github.com/platinummonkey/go-concurrency-limits/limit"
	"pgregory.net/rapid"

	"verifharness/kit"
)

type c09oCase struct {
	WinSize  int   `json:"win_size"`
	Listener int   `json:"listener"` // change listeners registered through the wrapper before the samples start
	Via      bool  `json:"via"`      // a traced limit sits between the wrapper and the algorithm
	Before   int   `json:"before"`   // completions (beyond the window size) before the window closes
	RTT      int64 `json:"rtt"`
}

// stallRec records the windows it is given; its first OnSample waits until released.
type stallRec struct {
	mu      sync.Mutex
	got     []Sample
	entered chan struct{}
	release chan struct{}
	first   sync.Once
}

func (r *stallRec) EstimatedLimit() int                     { return 10 }
func (r *stallRec) NotifyOnChange(core.LimitChangeListener) {}
func (r *stallRec) OnSample(start, rtt int64, inf int, drop bool) {
	r.mu.Lock()
	r.got = append(r.got, Sample{Start: start, RTT: rtt, Inf: inf, Drop: drop})
	r.mu.Unlock()
	r.first.Do(func() {
		close(r.entered)
		<-r.release
	})
}

func TestC09_windowed_overlap(t *testing.T) {
	kit.RequireMode(t, "std")
	kit.Check(t, kit.Prop[c09oCase]{
		ID: "C09", Quick: 150, Thor: 5000,
		Rule: "WindowedLimit (window size 10-40, with 0-2 change listeners registered, directly or through a traced limit) whose delegate stalls inside the delivery of the first window while another goroutine reports a marker completion (a drop with a unique in-flight value); afterwards further completions close the following windows: the marker appears in a delivered window, and not in the one that was being delivered; non-trivial = every case",
		Gen: func(t *rapid.T) c09oCase {
			return c09oCase{WinSize: rapid.IntRange(10, 40).Draw(t, "winSize"), Listener: rapid.IntRange(0, 2).Draw(t, "listeners"), Via: rapid.Bool().Draw(t, "via"),
				Before: rapid.IntRange(0, 5).Draw(t, "before"), RTT: rapid.Int64Range(1000, 5_000_000).Draw(t, "rtt")}
		},
		Run: func(_ *testing.T, c c09oCase) kit.Outcome {
			rec := &stallRec{entered: make(chan struct{}), release: make(chan struct{})}
			var delegate core.Limit = rec
			if c.Via {
				delegate = limit.NewTracedLimit(rec, limit.NoopLimitLogger{})
			}
			const period = int64(100 * time.Millisecond)
			w, err := limit.NewWindowedLimit("w", period, period, int32(c.WinSize), 0, delegate, nil)
			if err != nil {
				return kit.Outcome{Harness: err.Error()}
			}
			for i := 0; i < c.Listener; i++ {
				w.NotifyOnChange(func(int) {})
			}
			const marker = 777_777
			// the first window: enough completions, then one that ends after the period: it closes the window
			now := int64(1_000_000)
			feederDone := make(chan struct{})
			go func() {
				defer close(feederDone)
				for i := 0; i < c.WinSize+c.Before; i++ {
					w.OnSample(now+int64(i), c.RTT, 5+i%3, false)
				}
				w.OnSample(now+2*period, c.RTT, c.WinSize+1, false) // in-flight beyond the window size, ends beyond the period: the window is ready and due
			}()
			select {
			case <-rec.entered:
			case <-time.After(30 * time.Second):
				close(rec.release)
				return kit.Outcome{Harness: "the first window was not delivered within 30 s (inconclusive)"}
			}
			markerDone := make(chan struct{})
			go func() {
				defer close(markerDone)
				w.OnSample(now+2*period+1000, c.RTT, marker, true)
			}()
			// the marker either returns (a wrapper that lets completions in during the delivery) or waits for the delivery
			// to end; the pause only decides which of the two this run exercises
			select {
			case <-markerDone:
			case <-time.After(20 * time.Millisecond):
			}
			close(rec.release)
			<-feederDone
			<-markerDone
			// further windows: the one that holds the marker closes, and one more
			for wnd := 0; wnd < 2; wnd++ {
				base := now + int64(4+2*wnd)*period
				for i := 0; i < c.WinSize+1; i++ {
					w.OnSample(base+int64(i), c.RTT, 5, false)
				}
				w.OnSample(base+2*period, c.RTT, c.WinSize+1, false)
			}
			rec.mu.Lock()
			got := append([]Sample(nil), rec.got...)
			rec.mu.Unlock()
			if len(got) < 2 {
				return kit.Viol("windowed:overlap-windows", "after %d completions over three window periods the delegate received %d window(s): %+v", 3*c.WinSize+c.Before+6, len(got), got)
			}
			if got[0].Inf == marker || got[0].Drop {
				return kit.Viol("windowed:overlap-folded-late", "the window that was being delivered when the marker completion arrived carries it (max in-flight %d, drop %v): it had been folded before", got[0].Inf, got[0].Drop)
			}
			found := 0
			for _, g := range got[1:] {
				if g.Inf == marker && g.Drop {
					found++
				}
			}
			if found != 1 {
				return kit.Viol("windowed:overlap-lost", "a drop with in-flight %d was reported while the delegate was busy with the first window (listeners registered through the wrapper: %d): it must appear in exactly one later window, it appears in %d; windows delivered: %+v", marker, c.Listener, found, got)
			}
			return kit.Outcome{NonTrivial: true, Labels: []string{fmt.Sprintf("listeners:%d", c.Listener), fmt.Sprintf("via-traced:%v", c.Via)}}
		},
		NoShrink: true,
	})
}
