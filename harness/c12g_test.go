package harness

// C12 — the backlog while the limit moves. The other C12 tests run over a fixed limit; an adaptive limit changes the
// capacity under the waiters' feet: after growth there is room beside callers that are still queued (a release serves
// one of them only), after a cut a release offers nothing at all. The backlog must still hold exactly the callers that
// are inside Acquire: at every quiescent point queue_size == number of blocked callers == the backlog's own length,
// also after waiters have been granted late, timed out or been cancelled in that state.

import (
	"fmt"
	"testing"
	"testing/synctest"
	"time"

	"github.com/platinummonkey/go-concurrency-limits/core"
	"github.com/platinummonkey/go-concurrency-limits/limit"
	"pgregory.net/rapid"

	"verifharness/kit"
)

type c12gStep struct {
	K   string `json:"k"` // arrive | release | set | sleep | cancel
	N   int    `json:"n,omitempty"`
	Idx int    `json:"idx,omitempty"`
	Out int    `json:"out,omitempty"`
}

type c12gCase struct {
	Stack StackCfg   `json:"stack"`
	Steps []c12gStep `json:"steps"`
}

func genC12G(t *rapid.T) c12gCase {
	var c c12gCase
	c.Stack.Kind = rapid.SampledFrom([]string{"queue", "queue", "fifo-dep", "lifo-dep", "pool"}).Draw(t, "kind")
	c.Stack.Strategy = rapid.SampledFrom([]string{"simple", "precise"}).Draw(t, "strategy")
	c.Stack.Limit = rapid.IntRange(1, 3).Draw(t, "limit")
	c.Stack.Backlog = rapid.IntRange(1, 4).Draw(t, "backlog")
	c.Stack.TimeoutMs = rapid.SampledFrom([]int{5, 20, 50, 200}).Draw(t, "timeout")
	switch c.Stack.Kind {
	case "queue":
		c.Stack.Ordering = rapid.SampledFrom([]string{"fifo", "lifo", ""}).Draw(t, "ordering")
		c.Stack.Evict = rapid.Bool().Draw(t, "evict")
	case "pool":
		c.Stack.Ordering = rapid.SampledFrom([]string{"fifo", "lifo"}).Draw(t, "ordering")
	}
	for i := 0; i < c.Stack.Limit; i++ {
		c.Steps = append(c.Steps, c12gStep{K: "arrive"})
	}
	step := rapid.Custom(func(t *rapid.T) c12gStep {
		switch k := rapid.IntRange(0, 11).Draw(t, "k"); {
		case k < 3:
			return c12gStep{K: "arrive"}
		case k < 4:
			// a caller whose context carries a deadline of its own (the request's time budget), usually shorter than the
			// backlog time-out: without eviction of done contexts it keeps its place until served or timed out
			return c12gStep{K: "arrive", N: rapid.SampledFrom([]int{1, 2, 3, 10, 40}).Draw(t, "ctxDeadlineMs")}
		case k < 6:
			return c12gStep{K: "release", Idx: rapid.IntRange(0, 9).Draw(t, "idx"), Out: rapid.IntRange(0, 2).Draw(t, "out")}
		case k < 8:
			return c12gStep{K: "set", N: rapid.IntRange(1, 5).Draw(t, "n")}
		case k < 9:
			return c12gStep{K: "cancel", Idx: rapid.IntRange(0, 9).Draw(t, "idx")}
		default:
			return c12gStep{K: "sleep", N: rapid.SampledFrom([]int{1, 3, 5, 20, 50, 200}).Draw(t, "ms")}
		}
	})
	c.Steps = append(c.Steps, rapid.SliceOfN(step, 3, 30).Draw(t, "steps")...)
	return c
}

func runC12G(t *testing.T, c c12gCase) kit.Outcome {
	return bubble(t, func() kit.Outcome {
		t0 := time.Now()
		settable := limit.NewSettableLimit("c12g", c.Stack.Limit, nil)
		st, err := buildStack(c.Stack, settable, nil, t0)
		if err != nil {
			return kit.Outcome{Harness: "stack: " + err.Error()}
		}
		w := newWorld(st, t0)
		kind := c.Stack.Kind
		fail := func(o kit.Outcome) kit.Outcome {
			w.unwind(c.Stack.unwindWait())
			w.flush()
			return o
		}
		var grew, cut, gaveUpAfterMove bool
		moved := false
		check := func(when string) *kit.Outcome {
			synctest.Wait()
			blocked := len(w.blocked())
			g, ok := st.reg.gauge(core.MetricQueueSize, "")
			n := int(g) // a pool keeps its queue limiter to itself: only the gauge can be read there
			if st.queue != nil {
				n = st.queue.VerifBacklogLen()
			}
			if !ok {
				if kind != "fifo-dep" { // the deprecated FIFO constructor takes no registry: only the backlog itself can be read there
					o := kit.Viol(kind+":size-gauge", "queue_size gauge was not registered with the configured registry")
					return &o
				}
				g = float64(n)
			}
			if n != blocked || int(g) != blocked {
				o := kit.Viol(kind+":queue-size-moving-limit", "%s: %d caller(s) are inside Acquire, the backlog holds %d element(s), the queue_size gauge reports %v (limit in force %d, busy %d)", when, blocked, n, g, st.limit(), st.busy())
				return &o
			}
			if blocked > c.Stack.Backlog {
				o := kit.Viol(kind+":backlog-bound-moving-limit", "%s: %d callers are blocked, the configured bound is %d", when, blocked, c.Stack.Backlog)
				return &o
			}
			return nil
		}
		doneBefore := func() int {
			n := 0
			for _, s := range w.snapshot() {
				if s.Done && !s.OK {
					n++
				}
			}
			return n
		}
		for i, sp := range c.Steps {
			refusedBefore := doneBefore()
			switch sp.K {
			case "arrive":
				if sp.N > 0 {
					w.start(w.newCallerDeadline("a", time.Now().Add(time.Duration(sp.N)*time.Millisecond)))
				} else {
					w.start(w.newCaller("a", 0, 0))
				}
			case "release":
				held := w.heldByHarness()
				if len(held) == 0 {
					continue
				}
				w.release(held[sp.Idx%len(held)], sp.Out)
			case "set":
				// the limit moves the way a window update moves it: the algorithm's estimate and the strategy together
				old := st.limit()
				settable.SetLimit(sp.N)
				if st.simple != nil {
					st.simple.SetLimit(sp.N)
				} else {
					st.precise.SetLimit(sp.N)
				}
				if len(w.blocked()) > 0 {
					moved = true
					grew = grew || sp.N > old
					cut = cut || sp.N < old
				}
			case "cancel":
				if b := w.blocked(); len(b) > 0 {
					b[sp.Idx%len(b)].cancel()
				}
			case "sleep":
				time.Sleep(time.Duration(sp.N) * time.Millisecond)
			}
			if o := check(fmt.Sprintf("after step %d %+v", i, sp)); o != nil {
				return fail(*o)
			}
			if moved && doneBefore() > refusedBefore {
				gaveUpAfterMove = true
			}
		}
		if msg := w.unwind(c.Stack.unwindWait()); msg != "" {
			w.flush()
			return kit.Viol(kind+":stuck", "%s", msg)
		}
		if o := check("after unwinding"); o != nil {
			w.flush()
			return *o
		}
		w.flush()
		out := kit.Outcome{NonTrivial: (grew || cut) && gaveUpAfterMove, Labels: []string{"kind:" + kind}}
		if grew {
			out.Labels = append(out.Labels, "limit-grew-under-waiters")
		}
		if cut {
			out.Labels = append(out.Labels, "limit-cut-under-waiters")
		}
		return out
	})
}

func TestC12_moving_limit(t *testing.T) {
	kit.RequireMode(t, "std")
	kit.Check(t, kit.Prop[c12gCase]{
		ID: "C12", Quick: 1500, Thor: 150_000,
		Rule: "queue limiters / queue-ordered pools over a settable limit on a virtual clock: arrivals (some with a context deadline of their own), releases, cancellations, sleeps past the backlog timeout, and limit moves (estimate and strategy together, as a window update does) while callers are queued; at every quiescent point callers inside Acquire == backlog length == queue_size gauge <= bound; non-trivial = the limit grew or was cut under waiting callers and a caller then gave up",
		Gen:  genC12G, Run: runC12G, Timeout: 30 * time.Second,
	})
}
