package harness

// C03 — partitioned admission: guaranteed share, borrowing up to the total, exact bins.

import (
	"context"
	"fmt"
	"math"
	"strings"
	"testing"
	"time"

	"github.com/platinummonkey/go-concurrency-limits/core"
	"github.com/platinummonkey/go-concurrency-limits/strategy"
	"github.com/platinummonkey/go-concurrency-limits/strategy/matchers"
	"pgregory.net/rapid"

	"verifharness/kit"
)

type c03Part struct {
	Name string   `json:"name"`
	Frac float64  `json:"frac"`
	Keys []string `json:"keys,omitempty"` // predicate strategy: the keys this partition's predicate accepts
	Init int      `json:"init,omitempty"` // lookup: the limit argument the partition object is constructed with (the strategy must overwrite it with the share)
	Obj  string   `json:"obj,omitempty"`  // lookup, dynamic add: the partition object's own name when it differs from the routing key it is added under
	// Reuse (dynamic add): when a partition object of this name was removed earlier, that same object is handed in
	// again (with its fraction) instead of a new one
	Reuse bool `json:"reuse,omitempty"`
}

type c03Op struct {
	K    string   `json:"k"` // acq | rel | set | add | rm | alias (lookup: Part.Name becomes a second name of the object registered as Key)
	Key  string   `json:"key,omitempty"`
	Mode int      `json:"mode,omitempty"` // acq: which context keys carry Key: 0 both strategies' keys, 1 only this strategy's, 2 only the other strategy's, 3 none
	Idx  int      `json:"idx,omitempty"`
	N    int      `json:"n,omitempty"`
	Part *c03Part `json:"part,omitempty"`
}

type c03Case struct {
	Kind    string `json:"kind"`               // lookup | predicate
	Matcher bool   `json:"matcher,omitempty"`  // predicate: use the shipped StringPredicateMatcher (single key per partition)
	CaseIns bool   `json:"case_ins,omitempty"` // matcher: its case-insensitive mode
	// lookup: the function handed to the constructor: 0 = nil (the library's default), 1 = the exported
	// matchers.DefaultStringLookupFunc, 2 = a caller-written function of the same meaning
	LookupFn int       `json:"lookup_fn,omitempty"`
	Limit    int       `json:"limit"`
	Parts    []c03Part `json:"parts"`
	Ops      []c03Op   `json:"ops"`
}

// (the last four: letters whose upper and lower case forms differ in UTF-8 length - U+023A / U+2C65, and the Kelvin
// sign U+212A whose lower case is the ASCII k; simple case folding and lower-casing agree on all of them)
var c03Keys = []string{"a", "b", "c", "d", "e", "zz", "", "A", "Batch", "batch", "ⱥcme", "ȺCME", "K", "k"}

// c03Noisy: (fraction, limit) pairs whose product in IEEE double lies within 1e-9 of an integer without being one
// (0.07 x 100 = 7.000000000000001, 0.29 x 100 = 28.999999999999996, ...). The documented share is the ceiling of
// that double product: any "tidier" arithmetic (rounding first, exact decimals, integer basis points) disagrees here.
var c03Noisy = func() (out []struct {
	F float64
	L int
}) {
	for k := 1; k < 1000; k++ {
		f := float64(k) / 1000
		for l := 1; l <= 1000; l++ {
			p := float64(l) * f
			if r := math.Round(p); p != r && math.Abs(p-r) < 1e-9 {
				out = append(out, struct {
					F float64
					L int
				}{f, l})
			}
		}
	}
	return out
}()

func genFrac() *rapid.Generator[float64] {
	return rapid.OneOf(
		rapid.Map(rapid.IntRange(0, 64), func(k int) float64 { return float64(k) / 64 }),
		rapid.SampledFrom([]float64{0.1, 0.3, 0.7, 0.05, 0.25, 0.2, 0.15, 0.33, 0.5, 0, 1}),
	)
}

func genC03(t *rapid.T) c03Case {
	c := c03Case{Kind: rapid.SampledFrom([]string{"lookup", "predicate"}).Draw(t, "kind")}
	c.Limit = rapid.OneOf(rapid.IntRange(1, 4), rapid.IntRange(1, 8), rapid.IntRange(1, 64)).Draw(t, "limit")
	if c.Kind == "lookup" {
		c.LookupFn = rapid.IntRange(0, 2).Draw(t, "lookupFn")
	}
	if c.Kind == "predicate" {
		c.Matcher = rapid.IntRange(0, 3).Draw(t, "matcher") == 0
		c.CaseIns = c.Matcher && rapid.Bool().Draw(t, "caseIns")
	}
	names := []string{"a", "b", "c", "d", "e"}
	if c.Matcher {
		names = append(names, "A", "Batch", "ⱥcme", "K", "") // match strings with upper-case letters and with letters that change length with their case, in both modes of the matcher (the empty match string matches requests whose key is the empty string, not requests without a key)
	}
	if c.Kind == "lookup" {
		names = append(names, "") // the empty string is a key like any other (it is what the default lookup yields for a context without a key)
	}
	genPart := func(nameGen *rapid.Generator[string]) *rapid.Generator[c03Part] {
		return rapid.Custom(func(t *rapid.T) c03Part {
			p := c03Part{Name: nameGen.Draw(t, "name"), Frac: genFrac().Draw(t, "f"), Init: rapid.SampledFrom([]int{1, 1, 0, 3, 10, 50}).Draw(t, "init")}
			if c.Kind == "predicate" {
				if c.Matcher {
					p.Keys = []string{p.Name}
				} else {
					p.Keys = rapid.SliceOfNDistinct(rapid.SampledFrom(c03Keys[:5]), 0, 3, func(s string) string { return s }).Draw(t, "keys")
				}
			}
			return p
		})
	}
	parts := rapid.SliceOfNDistinct(genPart(rapid.SampledFrom(names)), 1, 5, func(p c03Part) string { return p.Name }).Draw(t, "parts")
	// fractions must sum to <= 1 (safely, whatever the summation order): zero the ones that overflow
	budget := 1.0
	for i := range parts {
		f := parts[i].Frac
		if f == 1 && budget == 1 {
			budget = 0
		} else if f > budget-0.03 {
			parts[i].Frac = 0
		} else {
			budget -= f
		}
	}
	c.Parts = parts
	noisyLimits := []int{}
	if rapid.IntRange(0, 3).Draw(t, "noisy") == 0 && len(c03Noisy) > 0 {
		// one partition gets a fraction whose product with some limits is an integer plus / minus float noise; those
		// limits are put in force by the constructor or by SetLimit operations below
		f := c03Noisy[rapid.IntRange(0, len(c03Noisy)-1).Draw(t, "noisyPair")].F
		if f <= 0.5 {
			for i := range c.Parts {
				c.Parts[i].Frac = 0
			}
			c.Parts[0].Frac = f
			for _, np := range c03Noisy {
				if np.F == f {
					noisyLimits = append(noisyLimits, np.L)
				}
			}
			if rapid.Bool().Draw(t, "noisyInitial") {
				c.Limit = rapid.SampledFrom(noisyLimits).Draw(t, "noisyLimit")
			}
		}
	}
	addNames := append(append([]string{}, names...), "x0", "x1", "x2")
	op := rapid.Custom(func(t *rapid.T) c03Op {
		switch k := rapid.IntRange(0, 19).Draw(t, "k"); {
		case k < 10:
			return c03Op{K: "acq", Key: rapid.SampledFrom(c03Keys).Draw(t, "key"), Mode: rapid.SampledFrom([]int{0, 0, 0, 1, 2, 3, 4}).Draw(t, "mode")}
		case k < 15:
			return c03Op{K: "rel", Idx: rapid.IntRange(0, 1000).Draw(t, "idx")}
		case k < 17:
			if rapid.IntRange(0, 9).Draw(t, "cycles") == 0 {
				// a long stretch of ordinary traffic on one key: N grants, each released at once (a strategy that has
				// admitted thousands of requests while other tokens stay out)
				return c03Op{K: "cycles", Key: rapid.SampledFrom(c03Keys).Draw(t, "cyclesKey"), N: rapid.SampledFrom([]int{100, 255, 256, 1023, 1024, 1025, 2050, 4100}).Draw(t, "nCycles")}
			}
			if rapid.IntRange(0, 7).Draw(t, "burst") == 0 {
				// the limit moves many times in a row (an adaptive limit does that window after window) while some
				// partitions are not touched at all; counts around powers of two on purpose
				return c03Op{K: "burst", N: rapid.OneOf(rapid.IntRange(2, 40), rapid.SampledFrom([]int{127, 128, 129, 255, 256, 257, 511, 512, 513, 600})).Draw(t, "nBurst"),
					Idx: rapid.IntRange(1, 60).Draw(t, "burstBase")}
			}
			if len(noisyLimits) > 0 && rapid.Bool().Draw(t, "setNoisy") {
				return c03Op{K: "set", N: rapid.SampledFrom(noisyLimits).Draw(t, "nNoisy")}
			}
			return c03Op{K: "set", N: rapid.OneOf(rapid.IntRange(-3, 80), rapid.IntRange(1, 6)).Draw(t, "n")}
		case k < 18 && rapid.IntRange(0, 1).Draw(t, "rebuild") == 0:
			return c03Op{K: "rebuild"}
		case k < 18:
			p := genPart(rapid.SampledFrom(addNames)).Draw(t, "part")
			if rapid.IntRange(0, 2).Draw(t, "otherObjName") == 0 {
				p.Obj = "obj-" + p.Name // routed by the key given to AddPartition, not by the object's name
			}
			p.Reuse = rapid.Bool().Draw(t, "reuse") // if an object of that name was removed earlier, hand the same object in again
			return c03Op{K: "add", Part: &p}
		default:
			return c03Op{K: "rm", Key: rapid.SampledFrom(names).Draw(t, "rmkey")}
		}
	})
	c.Ops = rapid.SliceOfN(op, 1, 70).Draw(t, "ops")
	// a partition that is taken out and put straight back - the same object under the same name, nothing else in
	// between (a configuration reload): independent draws of "rm" and "add" practically never line up like that
	var ops []c03Op
	for _, o := range c.Ops {
		ops = append(ops, o)
		if o.K == "rm" && rapid.IntRange(0, 2).Draw(t, "putBack") == 0 {
			p := c03Part{Name: o.Key, Frac: genFrac().Draw(t, "putBackFrac"), Init: 1, Reuse: true}
			if c.Kind == "predicate" {
				p.Keys = []string{o.Key}
			}
			ops = append(ops, c03Op{K: "add", Part: &p})
		}
	}
	c.Ops = ops
	if c.Kind == "lookup" && rapid.IntRange(0, 3).Draw(t, "withAliases") == 0 {
		// one partition object registered under a second routing key as well (AddPartition takes any name)
		var ops2 []c03Op
		pendingRm := ""
		for _, o := range c.Ops {
			ops2 = append(ops2, o)
			if pendingRm != "" && rapid.Bool().Draw(t, "aliasGoesNow") {
				ops2 = append(ops2, c03Op{K: "rm", Key: pendingRm}) // the second name is given up again
				pendingRm = ""
			}
			if o.K == "acq" && rapid.IntRange(0, 5).Draw(t, "aliasHere") == 0 {
				an := rapid.SampledFrom(append([]string{"x0", "zz"}, names...)).Draw(t, "aliasName")
				ops2 = append(ops2, c03Op{K: "alias", Key: rapid.SampledFrom(names).Draw(t, "aliasOf"), Part: &c03Part{Name: an}})
				if rapid.IntRange(0, 2).Draw(t, "aliasGoes") > 0 {
					pendingRm = an
				}
			}
		}
		c.Ops = ops2
	}
	return c
}

type c03Bin struct {
	part   c03Part
	busy   int
	lookup *strategy.LookupPartition
	pred   *strategy.PredicatePartition
	fold   bool // keys are compared case-insensitively (the shipped matcher's second mode)
}

func c03Share(total int, frac float64) int {
	return int(math.Max(1, math.Ceil(float64(total)*frac)))
}

func c03Ctx(key string) context.Context {
	ctx := context.WithValue(context.Background(), matchers.LookupPartitionContextKey, key)
	return context.WithValue(ctx, matchers.StringPredicateContextKey, key)
}

// c03CtxMode: a request context that carries the key under this strategy's context key, under the other
// strategy's, under both or under none. Only the strategy's own key routes; without it the request has no key
// (lookup: the empty string; predicate: no partition matches).
func c03CtxMode(kind, key string, mode int) (ctx context.Context, routed string, keyed bool) {
	own, other := any(matchers.LookupPartitionContextKey), any(matchers.StringPredicateContextKey)
	if kind != "lookup" {
		own, other = other, own
	}
	ctx = context.Background()
	if mode == 0 || mode == 1 {
		ctx = context.WithValue(ctx, own, key)
	}
	if mode == 0 || mode == 2 {
		ctx = context.WithValue(ctx, other, key)
	}
	if mode == 4 {
		ctx = context.WithValue(ctx, own, 7) // something that is not a string under the strategy's own key: as good as no key
	}
	if mode == 0 || mode == 1 {
		return ctx, key, true
	}
	return ctx, "", false
}

func (b *c03Bin) accepts(key string) bool {
	for _, k := range b.part.Keys {
		if k == key || (b.fold && strings.EqualFold(k, key)) {
			return true
		}
	}
	return false
}

func runC03(_ *testing.T, c c03Case) (out kit.Outcome) {
	defer func() {
		if r := recover(); r != nil {
			out = kit.Viol(c.Kind+":panic", "panic: %v", r)
		}
	}()
	reg := core.EmptyMetricRegistryInstance
	var (
		ls    *strategy.LookupPartitionStrategy
		ps    *strategy.PredicatePartitionStrategy
		bins  []*c03Bin // live bins in registration order
		total = c.Limit
		busy  int
		unk   = &c03Bin{part: c03Part{Name: "<unknown>", Frac: 0}}
	)
	mkBin := func(p c03Part) *c03Bin {
		b := &c03Bin{part: p}
		if c.Kind == "lookup" {
			objName := p.Name
			if p.Obj != "" {
				objName = p.Obj
			}
			b.lookup = strategy.NewLookupPartitionWithMetricRegistry(objName, p.Frac, int32(p.Init), reg)
		} else {
			keys := p.Keys
			pred := func(ctx context.Context) bool {
				v, _ := ctx.Value(matchers.StringPredicateContextKey).(string)
				for _, k := range keys {
					if k == v {
						return true
					}
				}
				return false
			}
			if c.Matcher {
				pred = matchers.StringPredicateMatcher(p.Name, c.CaseIns)
				b.fold = c.CaseIns
			}
			b.pred = strategy.NewPredicatePartitionWithMetricRegistry(p.Name, p.Frac, pred, reg)
		}
		return b
	}
	var err error
	if c.Kind == "lookup" {
		m := map[string]*strategy.LookupPartition{}
		for _, p := range c.Parts {
			b := mkBin(p)
			bins = append(bins, b)
			m[p.Name] = b.lookup
		}
		var lf func(context.Context) string
		switch c.LookupFn {
		case 1:
			lf = matchers.DefaultStringLookupFunc
		case 2:
			lf = func(ctx context.Context) string {
				v, _ := ctx.Value(matchers.LookupPartitionContextKey).(string)
				return v
			}
		}
		ls, err = strategy.NewLookupPartitionStrategyWithMetricRegistry(m, lf, int32(c.Limit), reg)
	} else {
		var l []*strategy.PredicatePartition
		for _, p := range c.Parts {
			b := mkBin(p)
			bins = append(bins, b)
			l = append(l, b.pred)
		}
		ps, err = strategy.NewPredicatePartitionStrategyWithMetricRegistry(l, int32(c.Limit), reg)
	}
	if err != nil {
		return kit.Outcome{Harness: "constructor rejected a valid partition set: " + err.Error()}
	}
	// lookup: second names under which a live partition object has been registered as well (one object, two routing
	// keys: one bin with one count and one share behind both)
	aliases := map[string]*c03Bin{}
	find := func(key string) *c03Bin {
		if c.Kind == "lookup" {
			if b := aliases[key]; b != nil {
				return b
			}
			for _, b := range bins {
				if b.part.Name == key {
					return b
				}
			}
			return unk
		}
		for _, b := range bins {
			if b.accepts(key) {
				return b
			}
		}
		return nil
	}
	type tok struct {
		bin   *c03Bin
		t     core.StrategyToken
		epoch int // which strategy instance granted it (a "rebuild" makes a new one over the same partition objects)
	}
	epoch := 0
	var held []tok
	var gone []*c03Bin // removed partition objects (may be re-attached)
	var sawBorrow, sawGuaranteed, sawRefusal, sawUnknown, sawSetHeld, sawDyn bool
	observe := func(i int, op c03Op) *kit.Outcome {
		var gb, gl int
		if c.Kind == "lookup" {
			gb, gl = ls.BusyCount(), ls.Limit()
		} else {
			gb, gl = ps.BusyCount(), ps.Limit()
		}
		if gb != busy || gl != total {
			o := kit.Viol(c.Kind+":totals", "after op %d %v: BusyCount=%d Limit=%d, model busy=%d limit=%d", i, op, gb, gl, busy, total)
			return &o
		}
		sum := unk.busy
		for idx, b := range bins {
			var bb, bl int
			var e1, e2 error
			if c.Kind == "lookup" {
				bb, e1 = ls.BinBusyCount(b.part.Name)
				bl, e2 = ls.BinLimit(b.part.Name)
			} else {
				bb, e1 = ps.BinBusyCount(idx)
				bl, e2 = ps.BinLimit(idx)
			}
			if e1 != nil || e2 != nil {
				o := kit.Viol(c.Kind+":bin-missing", "after op %d %v: live bin %q not readable: %v %v", i, op, b.part.Name, e1, e2)
				return &o
			}
			if bb != b.busy {
				o := kit.Viol(c.Kind+":bin-busy", "after op %d %v: bin %q busy=%d, outstanding tokens of that bin=%d", i, op, b.part.Name, bb, b.busy)
				return &o
			}
			if want := c03Share(total, b.part.Frac); bl != want {
				o := kit.Viol(c.Kind+":bin-share", "after op %d %v: bin %q (fraction %v) limit=%d, want max(1,ceil(%d*%v))=%d", i, op, b.part.Name, b.part.Frac, bl, total, b.part.Frac, want)
				return &o
			}
			// the partition object itself (exported, kept by the caller, read by the partition's limit gauge) agrees
			var ob, ol int
			if b.lookup != nil {
				ob, ol = b.lookup.BusyCount(), b.lookup.Limit()
			} else {
				ob, ol = b.pred.BusyCount(), b.pred.Limit()
			}
			if ob != bb || ol != bl {
				o := kit.Viol(c.Kind+":bin-object", "after op %d %v: partition object %q reports busy=%d limit=%d, the strategy reports %d / %d for that bin", i, op, b.part.Name, ob, ol, bb, bl)
				return &o
			}
			sum += b.busy
		}
		for name, b := range aliases {
			bb, e1 := ls.BinBusyCount(name)
			bl, e2 := ls.BinLimit(name)
			if e1 != nil || e2 != nil || bb != b.busy || bl != c03Share(total, b.part.Frac) {
				o := kit.Viol(c.Kind+":alias", "after op %d %v: %q is a second name of partition %q (busy %d, fraction %v): the strategy reports busy=%d limit=%d (%v %v), want %d / %d", i, op, name, b.part.Name, b.busy, b.part.Frac, bb, bl, e1, e2, b.busy, c03Share(total, b.part.Frac))
				return &o
			}
		}
		return nil
	}
	if o := observe(-1, c03Op{K: "construct"}); o != nil {
		return *o
	}
	ops := make([]c03Op, 0, len(c.Ops))
	for _, op := range c.Ops {
		if op.K != "cycles" {
			ops = append(ops, op)
			continue
		}
		for r := 0; r < op.N; r++ {
			ops = append(ops, c03Op{K: "acq", Key: op.Key}, c03Op{K: "rel", Idx: -1})
		}
	}
	for i, op := range ops {
		switch op.K {
		case "acq":
			actx, routed, keyed := c03CtxMode(c.Kind, op.Key, op.Mode)
			bin := find(routed)
			if !keyed && c.Kind != "lookup" {
				bin = nil // a request without the predicate key matches no partition
			}
			var tk core.StrategyToken
			var ok bool
			if c.Kind == "lookup" {
				tk, ok = ls.TryAcquire(actx)
			} else {
				tk, ok = ps.TryAcquire(actx)
			}
			if tk == nil || tk.IsAcquired() != ok {
				return kit.Viol(c.Kind+":token", "op %d acquire(%q): ok=%v but token=%v", i, op.Key, ok, tk)
			}
			want := false
			if bin != nil {
				share := c03Share(total, bin.part.Frac)
				want = busy < total || bin.busy < share
				if want && busy >= total {
					sawGuaranteed = true
				}
				if want && bin.busy >= share {
					sawBorrow = true
				}
				if bin == unk {
					sawUnknown = true
				}
			}
			if ok != want {
				if bin == nil {
					return kit.Viol("predicate:nomatch-admitted", "op %d acquire(%q) matches no partition but was admitted", i, op.Key)
				}
				sig := c.Kind + ":admission"
				if bin == unk {
					sig = "lookup:unknown-admission"
				}
				return kit.Viol(sig, "op %d acquire(%q) -> bin %q: got %v, want %v (total %d/%d, bin %d/share %d)", i, op.Key, bin.part.Name, ok, want, busy, total, bin.busy, c03Share(total, bin.part.Frac))
			}
			if ok {
				busy++
				bin.busy++
				held = append(held, tok{bin, tk, epoch})
				if tk.InFlightCount() != busy {
					return kit.Viol(c.Kind+":token-inflight", "op %d: token reports in-flight %d, total is %d", i, tk.InFlightCount(), busy)
				}
			} else {
				sawRefusal = true
			}
		case "rel":
			if len(held) == 0 {
				continue
			}
			k := len(held) - 1 // Idx < 0: the token granted last
			if op.Idx >= 0 {
				k = op.Idx % len(held)
			}
			h := held[k]
			held = append(held[:k], held[k+1:]...)
			h.t.Release()
			h.bin.busy--
			if h.epoch == epoch {
				busy-- // (a token granted by an earlier strategy instance gives its unit back to that instance's total)
			}
		case "rebuild":
			// a new strategy instance over the partition objects currently registered (a limiter rebuilt on a
			// configuration reload while requests are still out): its total starts at zero, the objects keep the counts
			// of the tokens still charged to them, and every token goes back where it came from
			sawDyn = true
			if c.Kind == "lookup" {
				m := map[string]*strategy.LookupPartition{}
				for _, b := range bins {
					m[b.part.Name] = b.lookup
				}
				if len(m) == 0 {
					continue
				}
				var lf func(context.Context) string
				if c.LookupFn == 1 {
					lf = matchers.DefaultStringLookupFunc
				}
				ls, err = strategy.NewLookupPartitionStrategyWithMetricRegistry(m, lf, int32(total), reg)
			} else {
				var l []*strategy.PredicatePartition
				for _, b := range bins {
					l = append(l, b.pred)
				}
				if len(l) == 0 {
					continue
				}
				ps, err = strategy.NewPredicatePartitionStrategyWithMetricRegistry(l, int32(total), reg)
			}
			if err != nil {
				return kit.Viol(c.Kind+":rebuild", "op %d: a second strategy over the registered partition objects was rejected: %v", i, err)
			}
			epoch++
			busy = 0
			unk = &c03Bin{part: c03Part{Name: "<unknown>", Frac: 0}}
			aliases = map[string]*c03Bin{} // the new instance was built from the first names only
		case "set":
			if len(held) > 0 {
				sawSetHeld = true
			}
			if c.Kind == "lookup" {
				ls.SetLimit(op.N)
			} else {
				ps.SetLimit(op.N)
			}
			total = op.N
			if total < 1 {
				total = 1
			}
		case "burst":
			if len(held) > 0 {
				sawSetHeld = true
			}
			for j := 0; j < op.N; j++ {
				total = op.Idx + j%2 // two alternating values: every call is a change
				if j == op.N-1 {
					total = op.Idx + 7 // and the last one lands on a third value
				}
				if c.Kind == "lookup" {
					ls.SetLimit(total)
				} else {
					ps.SetLimit(total)
				}
			}
		case "add":
			sawDyn = true
			b := mkBin(*op.Part)
			if op.Part.Reuse {
				// re-attach an object that was removed earlier (its outstanding tokens still release on it)
				for gi, g := range gone {
					if g.part.Name == op.Part.Name && g.part.Obj == op.Part.Obj {
						b = g
						op.Part.Frac = g.part.Frac
						gone = append(gone[:gi:gi], gone[gi+1:]...) // attached again: it can be handed in again only after another removal
						break
					}
				}
			}
			if c.Kind == "lookup" {
				exists := find(op.Part.Name) != unk
				// keep the generated fractions summing to <= 1: skip an add that would exceed it
				if !exists && fracSum(bins)+op.Part.Frac > 1 {
					continue
				}
				got := ls.AddPartition(op.Part.Name, b.lookup)
				if got == exists {
					return kit.Viol("lookup:add-result", "op %d AddPartition(%q) returned %v, name exists=%v", i, op.Part.Name, got, exists)
				}
				if !exists {
					bins = append(bins, b)
				}
			} else {
				if fracSum(bins)+op.Part.Frac > 1 {
					continue
				}
				if !ps.AddPartition(b.pred) {
					return kit.Viol("predicate:add-result", "op %d AddPartition of a new partition returned false", i)
				}
				bins = append(bins, b)
			}
		case "alias":
			if c.Kind != "lookup" || op.Part == nil {
				continue
			}
			target := find(op.Key)
			if target == unk || aliases[op.Key] != nil || find(op.Part.Name) != unk {
				continue
			}
			sawDyn = true
			if !ls.AddPartition(op.Part.Name, target.lookup) {
				return kit.Viol("lookup:add-result", "op %d AddPartition(%q, the object registered as %q) returned false although the name is free", i, op.Part.Name, op.Key)
			}
			aliases[op.Part.Name] = target
		case "rm":
			sawDyn = true
			if c.Kind == "lookup" {
				if ab := aliases[op.Key]; ab != nil {
					// a second name goes: the object stays registered under its first name, untouched
					n, ok := ls.RemovePartition(op.Key)
					if !ok || n != ab.busy {
						return kit.Viol("lookup:remove-result", "op %d RemovePartition(%q) (a second name of %q) = (%d,%v), model busy %d", i, op.Key, ab.part.Name, n, ok, ab.busy)
					}
					delete(aliases, op.Key)
					break
				}
				hasAlias := false
				for _, ab := range aliases {
					hasAlias = hasAlias || ab == find(op.Key)
				}
				if hasAlias {
					continue // (the first name of an object that has a second one stays: keeps the model to one list)
				}
				bin := find(op.Key)
				n, ok := ls.RemovePartition(op.Key)
				if ok != (bin != unk) || (ok && n != bin.busy) {
					return kit.Viol("lookup:remove-result", "op %d RemovePartition(%q) = (%d,%v), model bin=%v", i, op.Key, n, ok, bin.part)
				}
				if ok {
					bins = removeBin(bins, bin)
					gone = append(gone, bin)
				}
			} else {
				removed, ok := ps.RemovePartitionsMatching(c03Ctx(op.Key))
				var want []*c03Bin
				for _, b := range bins {
					if b.accepts(op.Key) {
						want = append(want, b)
					}
				}
				if ok != (len(want) > 0) || len(removed) != len(want) {
					return kit.Viol("predicate:remove-result", "op %d RemovePartitionsMatching(%q) removed %d (ok=%v), model %d", i, op.Key, len(removed), ok, len(want))
				}
				for j, b := range want {
					if removed[j] != b.pred {
						return kit.Viol("predicate:remove-result", "op %d RemovePartitionsMatching(%q): wrong partition removed", i, op.Key)
					}
					bins = removeBin(bins, b)
					gone = append(gone, b)
				}
			}
		}
		if o := observe(i, op); o != nil {
			return *o
		}
	}
	out.NonTrivial = sawBorrow && sawGuaranteed && sawRefusal && (sawUnknown || sawSetHeld || sawDyn)
	out.Labels = []string{"kind:" + c.Kind}
	for k, v := range map[string]bool{"borrow": sawBorrow, "guaranteed-over-total": sawGuaranteed, "refusal": sawRefusal, "unknown-key": sawUnknown, "setlimit-with-held": sawSetHeld, "dynamic": sawDyn} {
		if v {
			out.Labels = append(out.Labels, k)
		}
	}
	return out
}

func fracSum(bins []*c03Bin) float64 {
	s := 0.0
	for _, b := range bins {
		s += b.part.Frac
	}
	return s + 0.03
}

func removeBin(bins []*c03Bin, b *c03Bin) []*c03Bin {
	out := bins[:0:0]
	for _, x := range bins {
		if x != b {
			out = append(out, x)
		}
	}
	return out
}

func TestC03_model(t *testing.T) {
	kit.RequireMode(t, "std")
	kit.Check(t, kit.Prop[c03Case]{
		ID: "C03", Quick: 5000, Thor: 800_000,
		Rule: "partition sets x acquire/release/SetLimit/add/remove sequences against a reference admission model, all counters compared after every op; non-trivial = a borrowing grant, a guaranteed grant with total>=limit, a refusal, and one of {unknown key, SetLimit with tokens held, dynamic add/remove}",
		Gen:  genC03, Run: runC03,
	})
}

func (o c03Op) String() string {
	switch o.K {
	case "acq", "rm":
		return fmt.Sprintf("%s(%q)", o.K, o.Key)
	case "rel":
		return fmt.Sprintf("rel(#%d)", o.Idx)
	case "set":
		return fmt.Sprintf("set(%d)", o.N)
	case "add":
		return fmt.Sprintf("add(%+v)", *o.Part)
	}
	return o.K
}

// TestC03_stacks: the bins seen through whole limiter stacks. A request reaches the strategy not only through
// DefaultLimiter.Acquire but also through the hand-offs of the blocking, deadline and queue limiters and the pools,
// which acquire on behalf of a waiting caller - possibly one whose context has been cancelled meanwhile. Whatever the
// path, the token is charged to the partition of the caller's context: at every quiescent point each bin counts
// exactly the outstanding tokens of its key, and in the end the stack admits like a freshly built one. Engine,
// events and invariants are those of TestC02_stacks; the generator keeps to partitioned strategies.
func TestC03_stacks(t *testing.T) {
	kit.RequireMode(t, "std")
	kit.Check(t, kit.Prop[c02Case]{
		ID: "C03", Quick: 2500, Thor: 250_000,
		Rule: "blocking / deadline / queue limiters and pools over a DefaultLimiter with a lookup or predicate partition strategy x event sequence on a virtual clock (arrivals with keys a / b / unknown, completions, cancellations, sleeps, same-instant bursts): at every quiescent point each bin counts exactly the outstanding tokens of its key and the bins sum to the total, at the end the stack admits like a fresh one; non-trivial = a completion while a caller was blocked and a caller that gave up",
		Gen: func(t *rapid.T) c02Case {
			c := genC02([]string{"blocking", "deadline", "queue", "queue", "queue", "fifo-dep", "lifo-dep", "pool"}, false)(t)
			if c.Stack.Strategy != "lookup" && c.Stack.Strategy != "predicate" {
				c.Stack.Strategy = rapid.SampledFrom([]string{"lookup", "predicate"}).Draw(t, "partitioned")
			}
			return c
		},
		Run: runC02, Timeout: 30 * time.Second,
	})
}
