package harness

// C05 — enforcement after an update that races with admissions. The limit gauge can agree with the estimate while
// admission still runs on the old value, so this test judges enforcement by what is admitted: a window is one
// completion short of closing; at one instant a holder completes (its completion closes the window and the scripted
// estimate moves), and two more callers try to acquire. Every spawn order x yields at the library's own points
// (default.sampled: between the completion's release and its update), the scripted limit and the strategy wrapper is
// enumerated. Afterwards the limiter is filled until it refuses: the tokens then outstanding must number exactly
// max(1, estimate).

import (
	"context"
	"fmt"
	"sync"
	"testing"

	"github.com/platinummonkey/go-concurrency-limits/core"
	"github.com/platinummonkey/go-concurrency-limits/limiter"
	"github.com/platinummonkey/go-concurrency-limits/strategy"

	"verifharness/kit"
)

type c05rCase struct {
	Strategy string    `json:"strategy"`
	From     int       `json:"from"` // estimate before the update (the limiter is full)
	To       int       `json:"to"`   // estimate after it
	Order    []int     `json:"order"`
	Yields   yieldList `json:"yields"`
}

func runC05R(_ *testing.T, c c05rCase) kit.Outcome {
	sc := newSched(c.Yields)
	sc.arm(false)
	script := &scriptLimit{traj: []int{c.From, c.To}, sc: sc}
	var inner core.Strategy
	var busy func() int
	switch c.Strategy {
	case "simple":
		s := strategy.NewSimpleStrategy(1)
		inner, busy = s, s.GetBusyCount
	default:
		s := strategy.NewPreciseStrategy(1)
		inner, busy = s, s.GetBusyCount
	}
	ys := &yieldStrategy{inner: inner, sc: sc}
	lim, err := limiter.NewDefaultLimiter(script, 1, 1, 0, 10, ys, nil, nil)
	if err != nil {
		return kit.Outcome{Harness: err.Error()}
	}
	ctx := context.Background()
	// ten completions: the window is one sample short of ready
	for i := 0; i < 10; i++ {
		l, ok := lim.Acquire(ctx)
		if !ok {
			return kit.Outcome{Harness: "priming acquire refused"}
		}
		l.OnSuccess()
	}
	if script.i != 0 {
		return kit.Outcome{Harness: "priming closed a window"}
	}
	var held []core.Listener
	for i := 0; i < c.From; i++ {
		l, ok := lim.Acquire(ctx)
		if !ok {
			return kit.Outcome{Harness: "fill acquire refused"}
		}
		held = append(held, l)
	}
	x := held[0]
	held = held[1:]
	sc.install()
	defer (*sched)(nil).install()
	sc.arm(true)
	var mu sync.Mutex
	var wg sync.WaitGroup
	start := make(chan struct{})
	actor := func(id int) {
		defer wg.Done()
		<-start
		if id == 0 {
			x.OnSuccess()
			return
		}
		sc.Point("actor.start")
		if l, ok := lim.Acquire(ctx); ok {
			mu.Lock()
			held = append(held, l)
			mu.Unlock()
		}
	}
	order := c.Order
	if len(order) != 3 {
		order = []int{0, 1, 2}
	}
	for _, id := range order {
		wg.Add(1)
		go actor(id)
	}
	close(start)
	wg.Wait()
	sc.arm(false)
	if script.i != 1 {
		return kit.Viol(c.Strategy+":no-update", "the eleventh completion did not update the limit (updates: %d)", script.i)
	}
	want := c.To
	if want < 1 {
		want = 1
	}
	before := len(held)
	for i := 0; i < want+3; i++ {
		l, ok := lim.Acquire(ctx)
		if !ok {
			break
		}
		held = append(held, l)
	}
	out := kit.Outcome{NonTrivial: before >= c.From, Labels: []string{"strategy:" + c.Strategy, fmt.Sprintf("admitted-in-scenario:%d", before-(c.From-1))}}
	// tokens admitted before the estimate went down are not revoked: more than `want` may be out, but then nothing may be added
	if n := len(held); (n != want && !(before > want && n == before)) || busy() != n {
		out = kit.Viol(c.Strategy+":enforcement", "estimate moved %d -> %d while %d callers tried to get in; filling the limiter afterwards leaves %d tokens outstanding (%d before the fill, strategy busy=%d), the estimate says max(1,%d)", c.From, c.To, 2, n, before, busy(), c.To)
	}
	for _, l := range held {
		l.OnIgnore()
	}
	return out
}

func TestC05_refill_enum_Coop(t *testing.T) {
	kit.RequireMode(t, "coop")
	if kit.Replay != "" {
		kit.Check(t, kit.Prop[c05rCase]{ID: "C05", Run: runC05R})
		return
	}
	d := kit.NewDirect[c05rCase](t, "C05", "exhaustive: simple/precise x estimate moves (1->2, 2->3, 2->4, 3->2, 2->1, 2->2, 1->0) x 6 spawn orders of {completing holder, two arriving callers} x yields in {0,1,3}^6: after the scenario the limiter, filled until it refuses, holds exactly max(1, estimate) tokens; non-trivial = at least one arriving caller was admitted during the scenario")
	moves := [][2]int{{1, 2}, {2, 3}, {2, 4}, {3, 2}, {2, 1}, {2, 2}, {1, 0}}
	vals := []uint8{0, 1, 3}
	k := 6
	if kit.Thorough() {
		k = 8
	}
	total := 1
	for i := 0; i < k; i++ {
		total *= len(vals)
	}
	for _, st := range []string{"simple", "precise"} {
		for _, mv := range moves {
			for _, order := range permutations(3) {
				for code := kit.Shard; code < total; code += kit.Shards {
					ys := make(yieldList, k)
					x := code
					for i := range ys {
						ys[i] = vals[x%len(vals)]
						x /= len(vals)
					}
					c := c05rCase{Strategy: st, From: mv[0], To: mv[1], Order: order, Yields: ys}
					stop := kit.Watch("C05", t.Name(), c)
					o := runC05R(t, c)
					stop()
					if !d.Account(c, o) {
						return
					}
				}
			}
		}
	}
}
