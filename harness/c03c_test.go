package harness

// C03 — concurrent interleavings: real threads run generated acquire / release / SetLimit programs on
// one partitioned strategy; the recorded history (logical call/return stamps) must be linearizable
// against the reference admission model, and all counters must be exact once everything is released.

import (
	"context"
	"fmt"
	"runtime"
	"sync"
	"sync/atomic"
	"testing"
	"time"

	"github.com/anishathalye/porcupine"
	"github.com/platinummonkey/go-concurrency-limits/core"
	"github.com/platinummonkey/go-concurrency-limits/strategy"
	"github.com/platinummonkey/go-concurrency-limits/strategy/matchers"
	"pgregory.net/rapid"

	"verifharness/kit"
)

type c03cOp struct {
	K    string `json:"k"` // acq | rel | set
	Key  string `json:"key,omitempty"`
	Idx  int    `json:"idx,omitempty"`
	N    int    `json:"n,omitempty"`
	Spin int    `json:"spin,omitempty"`
}

type c03cCase struct {
	Kind    string     `json:"kind"` // lookup | predicate
	Limit   int        `json:"limit"`
	Workers [][]c03cOp `json:"workers"`
}

func genC03C(t *rapid.T) c03cCase {
	c := c03cCase{Kind: rapid.SampledFrom([]string{"lookup", "predicate"}).Draw(t, "kind"), Limit: rapid.IntRange(1, 6).Draw(t, "limit")}
	op := rapid.Custom(func(t *rapid.T) c03cOp {
		o := c03cOp{Spin: rapid.SampledFrom([]int{0, 0, 1, 4, 16}).Draw(t, "spin")}
		switch k := rapid.IntRange(0, 11).Draw(t, "k"); {
		case k < 6:
			o.K, o.Key = "acq", rapid.SampledFrom([]string{"a", "a", "b", "zz"}).Draw(t, "key")
		case k < 11:
			o.K, o.Idx = "rel", rapid.IntRange(0, 10).Draw(t, "idx")
		default:
			o.K, o.N = "set", rapid.IntRange(-1, 8).Draw(t, "n")
		}
		return o
	})
	nw := rapid.IntRange(3, 8).Draw(t, "workers")
	for i := 0; i < nw; i++ {
		c.Workers = append(c.Workers, rapid.SliceOfN(op, 10, 50).Draw(t, "prog"))
	}
	return c
}

type partIn struct {
	Op  int // 0 acquire, 1 release, 2 set limit
	Bin int // 0 a, 1 b, 2 unknown, -1 no partition
	N   int
}
type partState struct {
	Limit int
	Busy  [3]int
}

var partFracs = [3]float64{0.5, 0.25, 0}

func partModel(init int) porcupine.Model {
	return porcupine.Model{
		Init: func() interface{} { return partState{Limit: init} },
		Step: func(state, input, output interface{}) (bool, interface{}) {
			st := state.(partState)
			in := input.(partIn)
			switch in.Op {
			case 0:
				ok := output.(bool)
				if in.Bin < 0 {
					return !ok, st
				}
				total := st.Busy[0] + st.Busy[1] + st.Busy[2]
				want := total < st.Limit || st.Busy[in.Bin] < c03Share(st.Limit, partFracs[in.Bin])
				if ok != want {
					return false, st
				}
				if ok {
					st.Busy[in.Bin]++
				}
				return true, st
			case 1:
				st.Busy[in.Bin]--
				return true, st
			default:
				st.Limit = in.N
				if st.Limit < 1 {
					st.Limit = 1
				}
				return true, st
			}
		},
		Equal: func(a, b interface{}) bool { return a.(partState) == b.(partState) },
	}
}

func runC03C(_ *testing.T, c c03cCase) kit.Outcome {
	reg := core.EmptyMetricRegistryInstance
	var st core.Strategy
	var busy, limitOf func() int
	var binBusy, binLimit func(i int) int
	names := []string{"a", "b"}
	if c.Kind == "lookup" {
		m := map[string]*strategy.LookupPartition{}
		for _, n := range names {
			m[n] = strategy.NewLookupPartitionWithMetricRegistry(n, stackBinFracs[n], 1, reg)
		}
		s, err := strategy.NewLookupPartitionStrategyWithMetricRegistry(m, nil, int32(c.Limit), reg)
		if err != nil {
			return kit.Outcome{Harness: err.Error()}
		}
		st, busy, limitOf = s, s.BusyCount, s.Limit
		binBusy = func(i int) int { n, _ := s.BinBusyCount(names[i]); return n }
		binLimit = func(i int) int { n, _ := s.BinLimit(names[i]); return n }
	} else {
		var ps []*strategy.PredicatePartition
		for _, n := range names {
			ps = append(ps, strategy.NewPredicatePartitionWithMetricRegistry(n, stackBinFracs[n], matchers.StringPredicateMatcher(n, false), reg))
		}
		s, err := strategy.NewPredicatePartitionStrategyWithMetricRegistry(ps, int32(c.Limit), reg)
		if err != nil {
			return kit.Outcome{Harness: err.Error()}
		}
		st, busy, limitOf = s, s.BusyCount, s.Limit
		binBusy = func(i int) int { n, _ := s.BinBusyCount(i); return n }
		binLimit = func(i int) int { n, _ := s.BinLimit(i); return n }
	}
	binOf := func(key string) int {
		switch key {
		case "a":
			return 0
		case "b":
			return 1
		}
		if c.Kind == "lookup" {
			return 2
		}
		return -1
	}
	var clock atomic.Int64
	var mu sync.Mutex
	var ops []porcupine.Operation
	rec := func(id int, in partIn, out bool, call, ret int64) {
		mu.Lock()
		ops = append(ops, porcupine.Operation{ClientId: id, Input: in, Output: out, Call: call, Return: ret})
		mu.Unlock()
	}
	start := make(chan struct{})
	var wg sync.WaitGroup
	for id, prog := range c.Workers {
		wg.Add(1)
		go func(id int, prog []c03cOp) {
			defer wg.Done()
			<-start
			type tk struct {
				t   core.StrategyToken
				bin int
			}
			var held []tk
			release := func(k int) {
				h := held[k]
				held = append(held[:k], held[k+1:]...)
				call := clock.Add(1)
				h.t.Release()
				rec(id, partIn{Op: 1, Bin: h.bin}, true, call, clock.Add(1))
			}
			for _, o := range prog {
				switch o.K {
				case "acq":
					bin := binOf(o.Key)
					call := clock.Add(1)
					t, ok := st.TryAcquire(stackKeyCtx(context.Background(), o.Key))
					rec(id, partIn{Op: 0, Bin: bin}, ok, call, clock.Add(1))
					if ok {
						held = append(held, tk{t, bin})
					}
				case "rel":
					if len(held) > 0 {
						release(o.Idx % len(held))
					}
				case "set":
					call := clock.Add(1)
					st.SetLimit(o.N)
					rec(id, partIn{Op: 2, N: o.N}, true, call, clock.Add(1))
				}
				for i := 0; i < o.Spin*20; i++ {
					spinSink.Add(1)
				}
			}
			for len(held) > 0 {
				release(len(held) - 1)
			}
		}(id, prog)
	}
	close(start)
	done := make(chan struct{})
	go func() { wg.Wait(); close(done) }()
	select {
	case <-done:
	case <-time.After(60 * time.Second):
		return kit.Outcome{Harness: "workers did not finish within 60 s"}
	}
	// writers against writers: all threads set different limits at the same moment, many times; afterwards
	// every share must belong to the limit that finally won
	for round := 0; round < 30; round++ {
		var wg2 sync.WaitGroup
		var gate atomic.Bool
		for id := range c.Workers {
			wg2.Add(1)
			go func(id int) {
				defer wg2.Done()
				for !gate.Load() {
					runtime.Gosched()
				}
				for r := 0; r < 4; r++ {
					st.SetLimit(1 + (id*7+r*3+round*5)%37)
				}
			}(id)
		}
		gate.Store(true)
		wg2.Wait()
		finalLimit := limitOf()
		for i, n := range names {
			if got, want := binLimit(i), c03Share(finalLimit, stackBinFracs[n]); got != want {
				return kit.Viol(c.Kind+":shares-after-concurrent-setlimit", "after %d threads called SetLimit concurrently (round %d) the limit is %d but partition %q has share %d (want %d): shares and limit come from different calls", len(c.Workers), round, finalLimit, n, got, want)
			}
		}
	}
	if b := busy(); b != 0 {
		return kit.Viol(c.Kind+":end-busy", "after every token was released BusyCount=%d", b)
	}
	for i, n := range names {
		if b := binBusy(i); b != 0 {
			return kit.Viol(c.Kind+":end-bin-busy", "after every token was released bin %q busy=%d", n, b)
		}
	}
	switch porcupine.CheckOperationsTimeout(partModel(c.Limit), ops, 20*time.Second) {
	case porcupine.Illegal:
		g, r := 0, 0
		for _, o := range ops {
			if in := o.Input.(partIn); in.Op == 0 {
				if o.Output.(bool) {
					g++
				} else {
					r++
				}
			}
		}
		return kit.Viol(c.Kind+":not-linearizable", "the history of %d operations from %d threads (%d grants, %d refusals) is not one the partitioned admission rule can produce", len(ops), len(c.Workers), g, r)
	case porcupine.Unknown:
		return kit.Outcome{Harness: "porcupine timed out (inconclusive)"}
	}
	refusals := 0
	for _, o := range ops {
		if in := o.Input.(partIn); in.Op == 0 && !o.Output.(bool) {
			refusals++
		}
	}
	return kit.Outcome{NonTrivial: refusals > 0 && len(ops) > 40, Labels: []string{"kind:" + c.Kind, fmt.Sprintf("refusals>0:%v", refusals > 0)}}
}

func TestC03_history_parallel(t *testing.T) {
	kit.RequireMode(t, "std")
	kit.Check(t, kit.Prop[c03cCase]{
		ID: "C03", Quick: 1200, Thor: 60_000,
		Rule: "3-8 real threads x 10-50 generated acquire(key)/release/SetLimit calls on one lookup or predicate strategy; history (logical stamps) linearizable against the reference admission model, all counters zero at the end; non-trivial = >40 operations with at least one refusal",
		Gen:  genC03C, Run: runC03C, NoShrink: true,
	})
}
