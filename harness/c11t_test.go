package harness

// C11 — order when the caller first in line gives up at the very instant a token is handed over:
// either that caller gets the token, or it leaves and the NEXT caller in the configured order gets
// it. Nothing else (nobody served, somebody further back served, token parked with the leaver).

import (
	"fmt"
	"testing"
	"testing/synctest"
	"time"

	"pgregory.net/rapid"

	"verifharness/kit"
)

type c11tCase struct {
	Stack   StackCfg  `json:"stack"`
	Waiters int       `json:"waiters"`
	Order   []int     `json:"order"` // 0 = releaser, 1 = canceller of the head waiter
	Outcome int       `json:"outcome"`
	Yields  yieldList `json:"yields"`
	Par     bool      `json:"par,omitempty"`
}

func runC11T(t *testing.T, c c11tCase) kit.Outcome {
	return bubble(t, func() kit.Outcome {
		t0 := time.Now()
		sc := newSched(c.Yields)
		sc.spin = c.Par
		sc.arm(false)
		st, err := buildStack(c.Stack, nil, sc, t0)
		if err != nil {
			return kit.Outcome{Harness: err.Error()}
		}
		sc.install()
		defer (*sched)(nil).install()
		w := newWorld(st, t0)
		lifo := c.Stack.wantLIFO()
		kind := c.Stack.Kind + "-" + ordName(lifo)
		holder := w.newCaller("a", 0, 0)
		w.start(holder)
		synctest.Wait()
		var ws []*vtCaller
		for i := 0; i < c.Waiters; i++ {
			time.Sleep(time.Millisecond)
			cl := w.newCaller("a", 0, 0)
			w.start(cl)
			synctest.Wait()
			ws = append(ws, cl)
		}
		if !holder.Done || !holder.OK || len(w.blocked()) != c.Waiters {
			w.unwind(2 * time.Second)
			w.flush()
			return kit.Outcome{Harness: "set-up failed"}
		}
		head, next := ws[0], ws[1]
		if lifo {
			head, next = ws[len(ws)-1], ws[len(ws)-2]
		}
		sc.arm(true)
		for _, a := range c.Order {
			if a == 0 {
				w.mu.Lock()
				holder.Released = true
				w.mu.Unlock()
				w.wg.Add(1)
				go func() { defer w.wg.Done(); defer notePanic(); complete(holder.L, c.Outcome) }()
			} else {
				w.wg.Add(1)
				go func() { defer w.wg.Done(); defer notePanic(); head.cancel() }()
			}
		}
		synctest.Wait()
		sc.arm(false)
		elapsed := w.now() - time.Duration(c.Waiters)*time.Millisecond
		elapsedAt := w.now()
		var granted []int
		for _, cl := range ws {
			if cl.Done && cl.OK {
				granted = append(granted, cl.ID)
			}
		}
		var viol *kit.Outcome
		switch {
		case elapsed != 0:
			o := kit.Outcome{Harness: "virtual clock advanced during the scenario"}
			viol = &o
		case !head.Done:
			o := kit.Viol(kind+":head-stuck", "the caller first in line (cancelled while a token was being handed over) neither got the token nor returned; points %v", sc.Trace)
			viol = &o
		case head.OK && len(granted) == 1:
			// the head got the token: fine
		case !head.OK && len(granted) == 1 && granted[0] == next.ID:
			// the head left, the next caller in the configured order was served: fine
		default:
			o := kit.Viol(kind+":tie-order", "%d callers waiting (%s); the first in line (caller %d) was cancelled at the instant a token was released: it returned ok=%v, callers granted: %v; expected either the head, or (if it left) caller %d which is next in line; spawn order %v; points %v",
				c.Waiters, ordName(lifo), head.ID, head.OK, granted, next.ID, c.Order, sc.Trace)
			viol = &o
		}
		// afterwards: whatever the coincidence left behind in the backlog's bookkeeping, the order must still hold.
		// Two more callers join the line, then the tokens are released one at a time: each release serves exactly the
		// caller that is first in the configured order among those still waiting.
		if viol == nil {
			var line []*vtCaller
			for _, cl := range ws {
				if !cl.Done {
					line = append(line, cl)
				}
			}
			for k := 0; k < 2; k++ {
				cl := w.newCaller("a", 0, 0)
				w.start(cl)
				synctest.Wait()
				if !cl.Done {
					line = append(line, cl)
				}
			}
			for len(line) > 0 && viol == nil {
				hs := w.heldByHarness()
				if len(hs) != 1 {
					break
				}
				w.release(hs[0], 0)
				synctest.Wait()
				want := line[0]
				if lifo {
					want = line[len(line)-1]
				}
				var got []int
				var rest []*vtCaller
				for _, cl := range line {
					if cl.Done && cl.OK {
						got = append(got, cl.ID)
					} else if !cl.Done {
						rest = append(rest, cl)
					}
				}
				if len(got) != 1 || got[0] != want.ID || w.now() != elapsedAt {
					o := kit.Viol(kind+":order-after-tie", "after the coincidence of a cancellation and a hand-off, with callers %s waiting (oldest first), one release served %v; %s order asks for caller %d; points %v", lineStr(line), got, ordName(lifo), want.ID, sc.Trace)
					viol = &o
				}
				line = rest
			}
		}
		msg := w.unwind(c.Stack.unwindWait())
		w.flush()
		if viol != nil {
			return *viol
		}
		if msg != "" {
			return kit.Viol(kind+":stuck", "%s", msg)
		}
		if b := st.busy(); b != 0 {
			return kit.Viol(kind+":end-busy", "after every granted listener completed: busy=%d", b)
		}
		sawGiveUp, sawHandOff := false, false
		for _, p := range sc.Trace {
			sawGiveUp = sawGiveUp || p == "queue.giveup"
			sawHandOff = sawHandOff || p == "queue.unblock.acquired"
		}
		return kit.Outcome{NonTrivial: sawGiveUp && sawHandOff, Labels: []string{"kind:" + kind, fmt.Sprintf("head-granted:%v", head.OK)}}
	})
}

var c11tStacks = []StackCfg{
	{Kind: "queue", Ordering: "fifo"}, {Kind: "queue", Ordering: "lifo"}, {Kind: "queue", Ordering: ""},
}

func TestC11_tie_enum_Coop(t *testing.T) {
	kit.RequireMode(t, "coop")
	if kit.Replay != "" {
		kit.Check(t, kit.Prop[c11tCase]{ID: "C11", Run: runC11T})
		return
	}
	d := kit.NewDirect[c11tCase](t, "C11", "exhaustive: evicting queue limiter (FIFO / LIFO / default) x 2-3 waiters x {release, cancel of the first in line} in both spawn orders x completion outcome x yields in {0,1,3}^k (k=6, thorough 8); allowed: the head is served, or it leaves and the next in order is served; non-trivial = give-up and hand-off overlapped")
	k := 6
	if kit.Thorough() {
		k = 8
	}
	vals := []uint8{0, 1, 3}
	total := 1
	for i := 0; i < k; i++ {
		total *= len(vals)
	}
	for _, base := range c11tStacks {
		for _, n := range []int{2, 3} {
			for _, order := range [][]int{{0, 1}, {1, 0}} {
				for code := kit.Shard; code < total; code += kit.Shards {
					ys := make(yieldList, k)
					x := code
					for i := range ys {
						ys[i] = vals[x%len(vals)]
						x /= len(vals)
					}
					stk := base
					stk.Strategy, stk.Limit, stk.Inject, stk.Evict, stk.Backlog, stk.TimeoutMs = "simple", 1, true, true, 4, 500
					c := c11tCase{Stack: stk, Waiters: n, Order: order, Outcome: code % 3, Yields: ys}
					stop := kit.Watch("C11", t.Name(), c)
					o := runC11T(t, c)
					stop()
					if !d.Account(c, o) {
						return
					}
				}
			}
		}
	}
}

func TestC11_tie_parallel(t *testing.T) {
	kit.RequireMode(t, "std")
	kit.Check(t, kit.Prop[c11tCase]{
		ID: "C11", Quick: 3000, Thor: 150_000,
		Rule: "the scenarios of TestC11_tie_enum_Coop with real parallelism inside the bubble",
		Gen: func(t *rapid.T) c11tCase {
			stk := rapid.SampledFrom(c11tStacks).Draw(t, "stack")
			stk.Strategy, stk.Limit, stk.Inject, stk.Evict, stk.Backlog, stk.TimeoutMs = rapid.SampledFrom([]string{"simple", "precise"}).Draw(t, "strategy"), 1, true, true, 4, 500
			return c11tCase{Stack: stk, Waiters: rapid.IntRange(2, 3).Draw(t, "waiters"), Order: rapid.Permutation([]int{0, 1}).Draw(t, "order"),
				Outcome: rapid.IntRange(0, 2).Draw(t, "outcome"), Yields: yieldList(rapid.SliceOfN(rapid.SampledFrom([]uint8{0, 0, 1, 2, 5}), 0, 10).Draw(t, "yields")), Par: true}
		},
		Run: runC11T, NoShrink: true, Timeout: 30 * time.Second,
	})
}

// ---- a release racing the FIRST waiter's way into the backlog, then a later arrival ----
//
// The holder releases while W1 is between "delegate refused" and "parked". Once everything is
// quiescent a second caller W2 arrives on its own. The released unit must have gone to W1 (it was the
// only caller in line); W2 being served while W1 still waits means the released capacity went to a caller
// that was not even waiting, ahead of one that was - for FIFO and LIFO alike.

type c11aCase struct {
	Stack   StackCfg  `json:"stack"`
	Order   []int     `json:"order"` // 0 = releaser, 1 = W1's arrival
	Outcome int       `json:"outcome"`
	Yields  yieldList `json:"yields"`
	Par     bool      `json:"par,omitempty"`
}

func runC11A(t *testing.T, c c11aCase) kit.Outcome {
	return bubble(t, func() kit.Outcome {
		t0 := time.Now()
		sc := newSched(c.Yields)
		sc.spin = c.Par
		sc.arm(false)
		st, err := buildStack(c.Stack, nil, sc, t0)
		if err != nil {
			return kit.Outcome{Harness: err.Error()}
		}
		sc.install()
		defer (*sched)(nil).install()
		w := newWorld(st, t0)
		kind := c.Stack.Kind + "-" + ordName(c.Stack.wantLIFO())
		holder := w.newCaller("a", 0, 0)
		w.start(holder)
		synctest.Wait()
		if !holder.Done || !holder.OK {
			w.unwind(2 * time.Second)
			w.flush()
			return kit.Outcome{Harness: "set-up failed"}
		}
		w1 := w.newCaller("a", 0, 0)
		sc.arm(true)
		for _, a := range c.Order {
			if a == 0 {
				w.mu.Lock()
				holder.Released = true
				w.mu.Unlock()
				w.wg.Add(1)
				go func() { defer w.wg.Done(); defer notePanic(); complete(holder.L, c.Outcome) }()
			} else {
				w.start(w1)
			}
		}
		synctest.Wait()
		sc.arm(false)
		w1Waiting := !w1.Done
		w2 := w.newCaller("a", 0, 0)
		w.start(w2)
		synctest.Wait()
		var viol *kit.Outcome
		switch {
		case w.now() != 0:
			o := kit.Outcome{Harness: "virtual clock advanced during the scenario"}
			viol = &o
		case w1.Done && !w1.OK:
			o := kit.Viol(kind+":first-refused", "the only caller in line was refused although the holder released and no bound had passed; points %v", sc.Trace)
			viol = &o
		case w1Waiting && w2.Done && w2.OK:
			o := kit.Viol(kind+":served-ahead", "the holder released while caller %d was on its way into the (empty) backlog; at quiescence caller %d was still waiting, and caller %d, arriving afterwards, was served ahead of it; spawn order %v; points %v",
				w1.ID, w1.ID, w2.ID, c.Order, sc.Trace)
			viol = &o
		}
		overlapped := false
		for i, p := range sc.Trace {
			if p == "queue.beforePush" {
				for _, q := range sc.Trace[:i] {
					overlapped = overlapped || q == "delegate.failed"
				}
				for _, q := range sc.Trace[i:] {
					overlapped = overlapped || q == "inner.completed"
				}
			}
		}
		msg := w.unwind(c.Stack.unwindWait())
		w.flush()
		if viol != nil {
			return *viol
		}
		if msg != "" {
			return kit.Viol(kind+":stuck", "%s", msg)
		}
		if b := st.busy(); b != 0 {
			return kit.Viol(kind+":end-busy", "after every granted listener completed: busy=%d", b)
		}
		parked := false
		for _, p := range sc.Trace {
			parked = parked || p == "queue.pushed"
		}
		return kit.Outcome{NonTrivial: parked, Labels: []string{"kind:" + kind, fmt.Sprintf("w1-parked:%v", parked), fmt.Sprintf("w1-granted-before-w2:%v", !w1Waiting), fmt.Sprintf("release-inside-push-window:%v", overlapped)}}
	})
}

func TestC11_arrive_enum_Coop(t *testing.T) {
	kit.RequireMode(t, "coop")
	if kit.Replay != "" {
		kit.Check(t, kit.Prop[c11aCase]{ID: "C11", Run: runC11A})
		return
	}
	d := kit.NewDirect[c11aCase](t, "C11", "exhaustive: queue limiter (FIFO / LIFO / default) with one unit held and an empty backlog x {release, arrival of W1} in both spawn orders x completion outcome x yields in {0,1,3}^k (k=6, thorough 8), then W2 arrives at quiescence; W2 must not be served while W1 still waits; non-trivial = W1 was parked in the backlog")
	k := 6
	if kit.Thorough() {
		k = 8
	}
	vals := []uint8{0, 1, 3}
	total := 1
	for i := 0; i < k; i++ {
		total *= len(vals)
	}
	for _, base := range c11tStacks {
		for _, order := range [][]int{{0, 1}, {1, 0}} {
			for code := kit.Shard; code < total; code += kit.Shards {
				ys := make(yieldList, k)
				x := code
				for i := range ys {
					ys[i] = vals[x%len(vals)]
					x /= len(vals)
				}
				stk := base
				stk.Strategy, stk.Limit, stk.Inject, stk.Evict, stk.Backlog, stk.TimeoutMs = "simple", 1, true, code%2 == 0, 4, 500
				c := c11aCase{Stack: stk, Order: order, Outcome: code % 3, Yields: ys}
				stop := kit.Watch("C11", t.Name(), c)
				o := runC11A(t, c)
				stop()
				if !d.Account(c, o) {
					return
				}
			}
		}
	}
}
