package harness

// deepClone: an exact, independent copy of a library object (unexported fields included), used to branch one
// history into two futures ("same prior history" twins) without relying on any random source being reproducible.
// Pointers, interfaces, slices, maps and arrays are copied recursively (cycles preserved); funcs and channels are
// shared. Only used on quiescent objects (no lock held, no goroutine inside).

import (
	"reflect"
	"unsafe"
)

func deepClone[T any](x T) T {
	seen := map[cloneKey]reflect.Value{}
	src := reflect.ValueOf(&x).Elem()
	dst := reflect.New(src.Type()).Elem()
	dst.Set(src)
	fixup(dst, seen)
	return dst.Interface().(T)
}

// open returns v without the read-only flag reflect puts on values reached through unexported fields.
func open(v reflect.Value) reflect.Value {
	if v.CanAddr() {
		return reflect.NewAt(v.Type(), unsafe.Pointer(v.UnsafeAddr())).Elem()
	}
	return v
}

// fixup replaces every reference inside the (already shallow-copied, addressable) value v by a deep copy.
// cloneKey: address and type (pointers to different zero-size types may share one address).
type cloneKey struct {
	p unsafe.Pointer
	t reflect.Type
}

func fixup(v reflect.Value, seen map[cloneKey]reflect.Value) {
	v = open(v)
	switch v.Kind() {
	case reflect.Ptr:
		if v.IsNil() {
			return
		}
		p := cloneKey{v.UnsafePointer(), v.Type()}
		if c, ok := seen[p]; ok {
			v.Set(c)
			return
		}
		n := reflect.New(v.Type().Elem())
		seen[p] = n
		open(n.Elem()).Set(open(v.Elem()))
		fixup(n.Elem(), seen)
		v.Set(n)
	case reflect.Interface:
		if v.IsNil() {
			return
		}
		inner := v.Elem()
		n := reflect.New(inner.Type()).Elem()
		n.Set(inner)
		fixup(n, seen)
		v.Set(n)
	case reflect.Struct:
		for i := 0; i < v.NumField(); i++ {
			fixup(v.Field(i), seen)
		}
	case reflect.Array:
		for i := 0; i < v.Len(); i++ {
			fixup(v.Index(i), seen)
		}
	case reflect.Slice:
		if v.IsNil() {
			return
		}
		n := reflect.MakeSlice(v.Type(), v.Len(), v.Cap())
		reflect.Copy(n, v)
		for i := 0; i < n.Len(); i++ {
			fixup(n.Index(i), seen)
		}
		v.Set(n)
	case reflect.Map:
		if v.IsNil() {
			return
		}
		n := reflect.MakeMapWithSize(v.Type(), v.Len())
		it := v.MapRange()
		for it.Next() {
			val := reflect.New(v.Type().Elem()).Elem()
			val.Set(it.Value())
			fixup(val, seen)
			n.SetMapIndex(it.Key(), val)
		}
		v.Set(n)
	}
}
