#!/bin/sh
# validate and check every delivered candidate of a round that has not been processed yet
#   ./seedround.sh <out-dir> [parallel]
# The harness sources are frozen in a scratch copy first, so the run is not disturbed by edits made meanwhile.
cd "$(dirname "$0")"
OUT=$1; P=${2:-3}
SNAP=/tmp/hsnap-$$
rm -rf $SNAP && mkdir -p $SNAP && rsync -a --exclude testdata/rapid harness/ $SNAP/
export VERIF_HARNESS=$SNAP
for d in $OUT/*/; do
  sid=$(basename $d)
  [ -f $d/patch.diff ] && [ -f $d/demo_test.go ] && [ -f $d/meta.json ] || continue
  [ -f seeded/$sid/meta.json ] && continue
  echo $sid
done | xargs -P $P -I{} sh -c 'sid={}; prop=${sid%%-*}; ./seedrun.py $prop '$OUT'/$sid $sid 2>&1 | tail -1 | cut -c1-400'
rm -rf $SNAP
