#!/bin/sh
# re-validate and re-check every seeded change kept under /verif/seeded (quick tier of its property)
cd "$(dirname "$0")"
for d in seeded/*/; do
  sid=$(basename $d); prop=${sid%%-*}
  ./seedrun.py $prop $d $sid "$@" 2>&1 | tail -1 | python3 -c "
import sys,json
d=json.loads(sys.stdin.read()); print(d['seed'], 'valid' if d['valid'].get('ok') else 'INVALID', d['checks'])"
done
