#!/bin/sh
# re-validate and re-check kept seeded changes (ids as arguments) against a frozen copy of the current harness
#   ./seedre.sh [-P n] <seed-id>...
cd "$(dirname "$0")"
P=3
if [ "$1" = "-P" ]; then P=$2; shift 2; fi
SNAP=/tmp/hsnap-$$
rm -rf $SNAP && mkdir -p $SNAP && rsync -a --exclude testdata/rapid harness/ $SNAP/
export VERIF_HARNESS=$SNAP
for sid in "$@"; do echo $sid; done | xargs -P $P -I{} sh -c 'sid={}; prop=${sid%%-*}; ./seedrun.py $prop seeded/$sid $sid 2>&1 | tail -1 | cut -c1-300'
rm -rf $SNAP
