#!/usr/bin/env python3
"""Regenerates section 10 of DESIGN.md (as built + seeded-change table) between the markers."""
import glob, json, os, re
HERE = os.path.dirname(os.path.abspath(__file__))
p = os.path.join(HERE, "DESIGN.md")
s = open(p).read()

rows = []
for f in sorted(glob.glob(os.path.join(HERE, "seeded", "*", "meta.json"))):
    m = json.load(open(f))
    sid = m["seed_id"]
    what = (m.get("what") or "").strip().replace("\n", " ").replace("|", "/")
    what = re.split(r"(?<=[.;])\s", what)[0][:230]
    needs = (m.get("needs") or "").strip().replace("\n", " ").replace("|", "/")
    needs = re.split(r"(?<=[.;])\s", needs)[0][:170]
    caught = []
    for prop, c in sorted(m.get("checks", {}).items()):
        sig = ""
        for l in c.get("first", []):
            mm = re.match(r"\s*\[([^\]]+)\]", l)
            if mm:
                sig = mm.group(1)
        caught.append("%s %s%s" % (prop, "caught" if c.get("caught") else "MISSED (exit %s)" % c.get("exit"), (" `" + sig + "`") if sig else ""))
    v = m.get("validated", {})
    valid = "yes" if v.get("ok") else ("suite flaky with the patch" if v.get("demo_fails_with_patch", "0").startswith(("2", "3")) and not v.get("suite_passes_with_patch") else "no")
    rows.append("| %s | %s | %s | %s | %s |" % (sid, what, needs, valid, "; ".join(caught)))

table = "\n".join(["| seeded change | what was changed | needs | valid | quick check |", "|---|---|---|---|---|"] + rows)

sec10 = open(os.path.join(HERE, "notes", "design_section10.md")).read().replace("<!-- TABLE -->", table)
marker = "<!-- SEEDED-TABLE -->"
i = s.index(marker)
j = s.index("---------------------------------------------------------------------------------------------------", i)
s = s[:i] + marker + "\n\n" + sec10 + "\n" + s[j:]
open(p, "w").write(s)
print("rows", len(rows))
