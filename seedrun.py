#!/usr/bin/env python3
"""Validate a seeded change and run the harness against it.

  ./seedrun.py <PROP> <candidate_dir> <seed_id> [--tier quick|thorough] [--props C01,C02,...]

candidate_dir holds patch.diff, demo_test.go, meta.json (as produced by a sub-agent). Steps:
  1. fresh scratch worktree of /repo HEAD under /tmp/mut/<seed_id>
  2. demo must PASS on the clean tree
  3. patch must apply, the repository's own suite must still PASS, the demo must FAIL
  4. run ./check for the property (and any extra ones) against the patched scratch tree
  5. write /verif/seeded/<seed_id>/{patch.diff,demo_test.go,meta.json}; remove the worktree
Nothing is ever applied to /repo itself.
"""
import json, os, shutil, subprocess, sys, time

VERIF = os.path.dirname(os.path.abspath(__file__))
ENV = dict(os.environ, GOFLAGS="-mod=mod", GOPROXY="off")


def sh(cmd, cwd=None, timeout=900):
    p = subprocess.run(cmd, shell=True, cwd=cwd, env=ENV, stdout=subprocess.PIPE, stderr=subprocess.STDOUT, text=True, timeout=timeout)
    return p.returncode, p.stdout


def main():
    prop, cand, sid = sys.argv[1], sys.argv[2], sys.argv[3]
    tier = "quick"
    props = [prop]
    args = sys.argv[4:]
    while args:
        a = args.pop(0)
        if a == "--tier":
            tier = args.pop(0)
        elif a == "--props":
            props = args.pop(0).split(",")
    meta = json.load(open(os.path.join(cand, "meta.json")))
    wt = "/tmp/mut/%s" % sid
    shutil.rmtree(wt, ignore_errors=True)
    sh("git -C /repo worktree prune")
    rc, out = sh("git -C /repo worktree add -q --detach %s HEAD" % wt)
    if rc != 0:
        print("worktree failed", out)
        return 2
    res = {"property": prop, "seed_id": sid, "what": meta.get("what"), "needs": meta.get("needs"),
           "demo_run": meta.get("demo_run"), "demo_dir": meta.get("demo_dir"), "validated": {}, "checks": {}}
    try:
        demo_dst = os.path.join(wt, meta["demo_dir"], "zz_seed_demo_test.go")
        shutil.copy(os.path.join(cand, "demo_test.go"), demo_dst)
        rc, out = sh(meta["demo_run"], cwd=wt)
        res["validated"]["demo_passes_on_clean_tree"] = rc == 0
        os.remove(demo_dst)
        rc, out = sh("git apply %s" % os.path.join(os.path.abspath(cand), "patch.diff"), cwd=wt)
        res["validated"]["patch_applies"] = rc == 0
        if rc != 0:
            print(out)
        rc, out = sh("go test -vet=off -count=1 ./...", cwd=wt)
        res["validated"]["suite_passes_with_patch"] = rc == 0
        if rc != 0:
            res["validated"]["suite_output_tail"] = out[-1500:]
        shutil.copy(os.path.join(cand, "demo_test.go"), demo_dst)
        fails = 0
        for _ in range(3):
            rc, out = sh(meta["demo_run"], cwd=wt)
            fails += rc != 0
        res["validated"]["demo_fails_with_patch"] = "%d/3" % fails
        os.remove(demo_dst)
        ok = res["validated"]["demo_passes_on_clean_tree"] and res["validated"]["patch_applies"] and res["validated"]["suite_passes_with_patch"] and fails >= 2
        res["validated"]["ok"] = ok
        for p in props:
            t0 = time.time()
            rc, out = sh("./check %s --tier %s --repo %s --no-evidence" % (p, tier, wt), cwd=VERIF, timeout=3600)
            first = [l for l in out.splitlines() if l.startswith("VIOLATION") or l.startswith("  [")][:2]
            res["checks"][p] = {"tier": tier, "exit": rc, "caught": rc == 1, "wall_s": round(time.time() - t0, 1), "first": first,
                                "summary": [l for l in out.splitlines() if " tier=" in l][-1:]}
    finally:
        sh("git -C /repo worktree remove --force %s" % wt)
        shutil.rmtree(wt, ignore_errors=True)
    dst = os.path.join(VERIF, "seeded", sid)
    os.makedirs(dst, exist_ok=True)
    if os.path.abspath(cand) != os.path.abspath(dst):
        shutil.copy(os.path.join(cand, "patch.diff"), os.path.join(dst, "patch.diff"))
        shutil.copy(os.path.join(cand, "demo_test.go"), os.path.join(dst, "demo_test.go"))
    res["ran"] = "seedrun.py: fresh worktree of /repo HEAD, demo on clean tree, git apply, repository suite, demo x3, ./check <prop> --repo <worktree>"
    json.dump(res, open(os.path.join(dst, "meta.json"), "w"), indent=1)
    print(json.dumps({"seed": sid, "valid": res["validated"], "checks": {k: (v["caught"], v["exit"], v["wall_s"]) for k, v in res["checks"].items()}}))
    return 0


if __name__ == "__main__":
    sys.exit(main())
