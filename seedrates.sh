#!/bin/sh
# detection rate of every seeded change over several VERIF_SEED values (quick tier of its property)
cd "$(dirname "$0")"
seeds=${*:-2 3 4}
for d in seeded/*/; do
  sid=$(basename $d); prop=${sid%%-*}
  line="$sid"
  for s in $seeds; do
    n=$(VERIF_SEED=$s ./mut.sh $sid $prop 2>/dev/null | grep -c "^VIOLATION" || true)
    if [ "$n" -gt 0 ]; then line="$line 1"; else line="$line 0"; fi
  done
  echo "$line"
done
