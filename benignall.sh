#!/bin/sh
# run every kept behaviour-preserving change (benign/*/patch.diff) through all 20 quick checks, P at a time,
# against a frozen copy of the current harness; prints only alarms and inconclusive runs
#   ./benignall.sh [P] [pattern]
cd "$(dirname "$0")"
P=${1:-3}; PAT=${2:-*}
SNAP=/tmp/hsnap-b$$
rm -rf $SNAP && mkdir -p $SNAP && rsync -a --exclude testdata/rapid harness/ $SNAP/
export VERIF_HARNESS=$SNAP
ls -d benign/$PAT/ | xargs -P $P -I{} sh -c './benign.sh {}patch.diff 2>&1 | sed "s|^|{}: |"'
rm -rf $SNAP
