#!/bin/sh
# usage: ./benign.sh <patch.diff> [tier]  — apply a (supposedly behaviour-preserving) patch to a scratch worktree and run every check
set -e
patch=$(readlink -f "$1"); tier=${2:-quick}
wt=/tmp/mut/benign-$$
git -C /repo worktree prune
git -C /repo worktree add -q --detach $wt HEAD
(cd $wt && git apply "$patch")
cd /verif
for p in C01 C02 C03 C04 C05 C06 C07 C08 C09 C10 C11 C12 C13 C14 C15 C16 C17 C18 C19 C20; do
  ./check $p --tier $tier --repo $wt --no-evidence | grep -E "^VIOLATION|^  \[|tier=" | grep -v "violations=0$" | cut -c1-400 || true
done
git -C /repo worktree remove --force $wt
echo "benign-run-done $1"
