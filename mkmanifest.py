#!/usr/bin/env python3
"""Generates MANIFEST.json from the table below (keeps it schema-valid by construction)."""
import json, os
HERE = os.path.dirname(os.path.abspath(__file__))

# id -> (technique, level text, level note, design ref)
CLAIMED = {
 "C02": ("rapid stateful property-based testing on a virtual clock (testing/synctest): generated event sequences over every limiter stack, conservation invariants at every quiescent point, zero state at the end; plus generated cooperative schedules",
         "generated arrival/completion/cancel/sleep/burst sequences over default, blocking, deadline, queue (FIFO/LIFO, eviction), deprecated constructors and pools over all four strategies; after every event at quiescence the strategy busy count, the limiter's in-flight gauge and every partition bin must equal the harness's own count of outstanding tokens, listener!=nil iff ok; at the end zero state, empty backlog and full re-admission",
         "virtual clock (synctest) and quiescence detection are trusted; schedules are sampled, not exhausted; fixed pool observed as a black box", "4/C02"),
 "C03": ("rapid model-based (stateful) testing: acquire/release/SetLimit/add/remove sequences against a reference admission model, all counters compared after every operation; real-thread histories checked for linearizability (porcupine) against the same model; native fuzzing of the op sequences",
         "both partitioned strategies driven by generated operation sequences (unknown keys, overlapping predicates, dynamic add/remove, SetLimit with tokens held) and compared after every step with an executable model of the admission rule and the share arithmetic",
         "concurrent part is real-thread and therefore probabilistic; float share arithmetic as documented: max(1, ceil(float64(total)*fraction)); dynamic add/remove only in the sequential part", "4/C03"),
 "C04": ("rapid property-based testing: generated valid configurations and hostile sample sequences, bounds invariant and recover() after every sample",
         "every built-in algorithm (alone, windowed, traced) fed generated sample sequences incl. rtt 0 / 2^62, in-flight 0 / 2^31-1, all-drop windows; after each sample the estimate must be a finite integer within [floor, ceiling] and no panic may occur",
         "configurations restricted to the validity conditions the property lists", "4/C04"),
 "C06": ("rapid property-based testing: reachable states via generated prefix histories, single drop and sustained drop runs against exact (AIMD) and bounded (Vegas, Gradient) oracles",
         "from generated reachable states a drop sample must not raise the estimate (AIMD: exact formula) and a sustained run of drops must reach the floor within a bound computed from the configuration",
         "bounded liveness: bounds are loose upper bounds derived from the configuration; Vegas baseline-maintenance samples are counted as the algorithm documents them", "4/C06"),
 "C07": ("rapid property-based testing: app-limited samples must not raise the estimate; saturated healthy runs must recover within configuration-derived bounds",
         "generated reachable states (prefix histories with drops and zero RTTs), then an app-limited sample (never raises) and a run of saturated drop-free samples at the baseline (AIMD +increment each, Gradient per-sample growth relation, Vegas/Gradient2 reach the ceiling within a bound)",
         "bounded liveness only; Vegas probe multipliers <=3 excluded from the liveness half (documented domain decision)", "4/C07"),
 "C08": ("rapid metamorphic/differential testing: twin instances with identical jitter and history, final sample differing only in RTT",
         "two identically prepared instances (same seed for the library's jitter, same history) receive a final sample that differs only in RTT; the higher RTT must never give the higher estimate",
         "states with the estimate above the configured maximum excluded (initial <= max)", "4/C08"),
 "C10": ("generated and exhaustively enumerated cooperative schedules (spawn order + yield counts at schedule points) inside synctest bubbles, plus a real-thread variant; quiescence oracle at zero elapsed virtual time",
         "a full limiter, releasing holders and 1-3 waiters started at one virtual instant; the harness owns the schedule (GOMAXPROCS=1, yields at library hook points and around an injected delegate); at quiescence with no time elapsed free capacity and a blocked waiter must not coexist. A small schedule space is enumerated exhaustively, larger ones sampled",
         "schedule control is cooperative: interleavings that need a preemption where no schedule point exists are not reached", "4/C10"),
 "C11": ("rapid model-based testing on a virtual clock: arrivals at distinct instants, releases, time-outs, cancellations against a reference backlog in the documented order",
         "every constructor of a queue limiter or ordered pool; each operation's set of returning callers is compared with a reference backlog served FIFO or LIFO as the constructor's name/documentation states",
         "ties between an expiry and an arrival at the same virtual instant are avoided by construction", "4/C11"),
 "C14": ("rapid property-based testing with recording doubles: per-call event grammar over generated option sets, limiter decisions, results and classifier answers",
         "unary client/server interceptors and the server-stream wrapper driven with recording limiter/listener/handler/stream doubles; each call's event list must match the grammar (acquire from the right limiter, call, classify, exactly one completion with the classifier's outcome; refusal: nothing but the classifier's status code)",
         "no network; grpc-go types only as interfaces", "4/C14"),
 "C15": ("rapid property-based testing: RTT plateaus and steps, baseline invariants after every sample and a staleness bound",
         "after every sample the baseline is unset or <= the sample and equals an observed RTT; a baseline lower than all later samples must change within the probe bound",
         "bound uses the largest estimate seen in the interval (Vegas) / twice the probe interval (Gradient)", "4/C15"),
 "C16": ("rapid stateful property-based testing: listener registration / sample / set sequences, notification completeness and agreement",
         "listeners registered at arbitrary points on every limit type and wrapper; after every operation each listener must have been called if the estimate changed and its last value must equal EstimatedLimit(); wrappers must report the delegate's estimate and forward samples unchanged",
         "callbacks only record (they run under the limit's lock)", "4/C16"),
 "C18": ("rapid property-based testing: generated Add/Get/Reset/Update sequences against reference folds and a fresh-twin differential; sample-window fold with permutation metamorphic relation; Update against a concurrent Add under generated cooperative schedules, judged against the two sequential orders on twins",
         "generated op sequences on every measurement type compared, after every step, with an independent reference fold (minimum, latest, warm-up mean, hull, non-negative variance), with a freshly constructed twin after each Reset, and with the change flag; exploration, not proof",
         "finite positive samples only (the property's domain); float comparisons with relative tolerance 1e-9 for means, exact elsewhere", "4/C18"),
}
CLAIMED.update({
 "C01": ("rapid stateful testing on a virtual clock (sequential gate oracle) + generated cooperative schedules and real-thread runs whose recorded histories are checked for linearizability (porcupine) against an atomic counting gate (strategies and limiter also built over a registry whose metric listeners are schedule points); a lifetime run of 2^32 real grant/release pairs per strategy kind in the thorough tier",
         "sequential: every Acquire granted iff outstanding < enforced limit while windows really close and the limit really moves; concurrent: worker programs under generated schedules (yields at the check-then-increment window, the sampling window, the scripted limit) and under real parallelism, the history incl. sample-driven limit updates must be linearizable against state=(held,limit)",
         "schedules are explored, not exhausted; porcupine v1.3.0 trusted; real-thread mode is probabilistic", "4/C01"),
 "C05": ("rapid stateful testing on a virtual clock: scripted estimate trajectories (0, negative, repeats) and real algorithms, enforcement compared after construction and after every event",
         "DefaultLimiter over all four strategy kinds, constructed with a strategy limit different from the first estimate; after construction and after every event the strategy limit must equal max(1, estimate), every partition share max(1, ceil(limit*fraction)), and the limit / limit.partition gauges must agree",
         "sequential completions (the update itself runs under the limiter lock); partition fractions fixed at 0.5/0.25", "4/C05"),
 "C09": ("rapid model-based testing: (a) DefaultLimiter with a recording limit on a virtual clock (exact RTTs), (b) WindowedLimit with a recording delegate; OnSample lists compared element-wise with a reference fold",
         "completion sequences with all outcomes, durations from 0 and generated in-flight values; the list of updates the algorithm receives must equal the reference fold (min or mean RTT, max in-flight, sticky drop flag, readiness rule, window period) element by element; ignored and sub-threshold completions leave no trace",
         "the windowed limit's readiness rule (closing sample's in-flight > window size) is taken as pinned by the existing suite; the period after a window without any success is unspecified (inherited overflow) and not compared", "4/C09"),
 "C12": ("rapid stateful testing on a virtual clock + generated cooperative schedules: backlog accounting at every quiescent point",
         "queue limiter (all constructors, ordered pools): at every quiescent point queue_size gauge == backlog length == callers blocked in Acquire <= bound, queue_limit gauge == bound, a caller arriving at a full backlog is answered at the same virtual instant",
         "quiescence via synctest.Wait; schedules sampled", "4/C12"),
 "C13": ("rapid property-based testing on a virtual clock: exact instants for arrival, cancellation, release, timeout and deadline, compared with a reference model",
         "one caller on each blocking limiter kind with timeout/deadline, cancellation and release instants generated around the arrival and around the bound (incl. exactly at it); (ok, return instant) must equal the model's; ties accept either answer at that instant",
         "virtual clock is exact, so 'no later' and 'not before' are equalities", "4/C13"),
 "C17": ("generated concurrent API-call programs under the Go race detector (race-detector stress; halt at first report)",
         "every limit, wrapper, strategy (incl. partition objects), limiter stack, measurement and both registries: 2-8 goroutines run generated sequences of exported methods behind a start barrier in a -race binary; a race report or a concurrent-map fatal error is the violation",
         "the race detector sees only races that occur in an executed interleaving; no shrinking (TSan reports a stack pair once per process); third-party code (go-metrics, datadog statsd) assumed race-free", "4/C17"),
 "C19": ("rapid property-based testing on a virtual clock + generated cooperative schedules: pools with generated arrival offsets and hold times",
         "fixed and generic pools in all orderings: the callers' own holder counter never exceeds the limit, every caller (callers <= limit+backlog) is granted within the sum of hold times of its arrival, zero state and full re-admission at the end",
         "bounded liveness on the virtual clock", "4/C19"),
 "C20": ("rapid property-based testing with a recording MetricRegistry (virtual clock) and with real go-metrics / statsd-writer back ends; registry life cycle on the real clock with logical stamps and goroutine ids",
         "(a) one in-flight sample per admission decision equal to the count at the decision, gauges equal to enforced values, each processed sample emits rtt/in-flight once and a drop increment iff dropped; (b) each sample reaches the backend metric of the right kind under prefix+ID, gauges polled only between Start and Stop by a single poller, Stop returns and stops it",
         "life-cycle oracles are load independent (stamps, goroutine ids); the two 30 s guards only ever yield 'inconclusive' unless a goroutine dump proves the hang; datadog checked at the statsd line level", "4/C20"),
})
# compressed-history devices per property (appended to the level text)
DEEP = {
 "C01": "up to 5000 tokens held and released in phases against limits up to 5000; in the thorough tier one instance of every strategy kind goes through 2^32 + 2^16 real grant/release pairs with tokens outstanding throughout, audited around 2^31 and 2^32",
 "C02": "partition objects removed and attached again with tokens out, judged per object; release storms of up to 16 x 512 tokens at one moment; stacks whose every component logs through a formatting debug logger",
 "C03": "bursts of up to 600 limit changes, re-attached partition objects, a second strategy built over the surviving objects, removals racing the matching functions, bins judged through whole limiter stacks",
 "C04": "sample lists fed up to 30 times over, windows of up to 131071 quiet samples, maxima up to MaxInt64",
 "C06": "prefix histories fed up to 30 times over, decimal ratios with float-noise products",
 "C07": "prefix histories fed up to 30 times over, ramps of up to 1000 ever slower samples, healthy runs continued through probes",
 "C08": "climbing histories judged after every prefix",
 "C09": "windows of up to 131072 samples, unbounded maximum window, completions on the boundary instant, folds judged behind a traced limit as well",
 "C10": "up to 2100 callers that blocked and gave up before the scenario; hand-offs over partitioned strategies judged for liveness against the admission rule",
 "C11": "up to 300 hand-offs over a standing backlog, wait-for-ever timeouts",
 "C12": "limits that grow or are cut under queued callers, callers with a context deadline of their own",
 "C13": "up to 1500 abandoned waits before the caller arrives, releases without usable capacity",
 "C14": "call lists gone through up to 400 times on one interceptor, refusal / grant storms",
 "C15": "the default probe interval judged observationally over thousands of samples and against a sanity bound of 2 x 50000 samples, second-scale RTTs 1 ns apart, caller-supplied minimum baselines",
 "C18": "windows of up to 90000 folded samples on top of constructor-built windows of up to 2^20",
 "C20": "hundreds of samples per backend metric, restart storms of up to 200 Stop/Start pairs",
}
PENDING_REASON = "check not built yet in this revision of the harness (planned, see DESIGN.md section 4)"

props = [json.loads(l) for l in open(os.path.join(HERE, "properties.jsonl"))]
checks, na = [], []
for p in props:
    pid = p["id"]
    if pid in CLAIMED:
        tech, text, note, ref = CLAIMED[pid]
        if pid in DEEP:
            text += "; long-lived objects are covered by histories generated in compressed form (phases, repeats and bulk stretches expanded at run time: " + DEEP[pid] + ") and parameters carry their type-boundary values next to ordinary ranges (DESIGN 7, round 11)"
        checks.append({
            "property_id": pid,
            "quick_cmd": "./check %s --tier quick" % pid,
            "thorough_cmd": "./check %s --tier thorough" % pid,
            "evidence_file": "/verif/evidence/%s.json" % pid,
            "replay_cmd_template": "./check %s --replay {path}" % pid,
            "engine": "harness",
            "level_claimed": {"category": "exploration", "text": text, "design_ref": "DESIGN.md " + ref},
            "level_note": note,
            "technique": tech,
        })
    else:
        na.append({"property_id": pid, "reason": PENDING_REASON})

m = {
 "version": 1,
 "setup_cmd": "./setup.sh",
 "hooks": {
   "guard": "verif",
   "enable": "go build tag: the harness is built with `go1.26.8 test -c -tags verif` and a go.mod `replace` pointing at /repo, so every check rebuilds from /repo's working tree with the hooks on",
   "baseline_off_cmd": "cd /repo && GOFLAGS=-mod=mod GOPROXY=off go test -json -vet=off -count=1 -timeout 25m ./...",
   "source_commits": [l.strip() for l in open(os.path.join(HERE, "hooks_commits.txt")) if l.strip()] if os.path.exists(os.path.join(HERE, "hooks_commits.txt")) else [],
   "add_only": True,
 },
 "engines": [{
   "name": "harness", "path": "/verif/harness",
   "serves_properties": [c["property_id"] for c in checks],
   "kind_free_text": "Go test module (rapid v1.3.0 property-based tests, testing/synctest virtual clock, generated cooperative schedules, porcupine history checking, race-detector stress) driven by /verif/check",
 }],
 "checks": checks,
 "notes": "Driver: /verif/check <ID> --tier quick|thorough [--replay FILE]. VERIF_SEED selects the rapid seed. Exit 0 held / 1 VIOLATION / 2 inconclusive (infrastructure). Known findings: /verif/known_findings.txt.",
 "not_applicable": na,
}
json.dump(m, open(os.path.join(HERE, "MANIFEST.json"), "w"), indent=1)
print("claimed", len(checks), "not_applicable", len(na))
