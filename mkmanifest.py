#!/usr/bin/env python3
"""Generates MANIFEST.json from the table below (keeps it schema-valid by construction)."""
import json, os
HERE = os.path.dirname(os.path.abspath(__file__))

# id -> (technique, level text, level note, design ref)
CLAIMED = {
 "C18": ("rapid property-based testing: generated Add/Get/Reset/Update sequences against reference folds and a fresh-twin differential; sample-window fold with permutation metamorphic relation",
         "generated op sequences on every measurement type compared, after every step, with an independent reference fold (minimum, latest, warm-up mean, hull, non-negative variance), with a freshly constructed twin after each Reset, and with the change flag; exploration, not proof",
         "finite positive samples only (the property's domain); float comparisons with relative tolerance 1e-9 for means, exact elsewhere", "4/C18"),
}
PENDING_REASON = "check not built yet in this revision of the harness (planned, see DESIGN.md section 4)"

props = [json.loads(l) for l in open(os.path.join(HERE, "properties.jsonl"))]
checks, na = [], []
for p in props:
    pid = p["id"]
    if pid in CLAIMED:
        tech, text, note, ref = CLAIMED[pid]
        checks.append({
            "property_id": pid,
            "quick_cmd": "./check %s --tier quick" % pid,
            "thorough_cmd": "./check %s --tier thorough" % pid,
            "evidence_file": "/verif/evidence/%s.json" % pid,
            "replay_cmd_template": "./check %s --replay {path}" % pid,
            "engine": "harness",
            "level_claimed": {"category": "exploration", "text": text, "design_ref": "DESIGN.md " + ref},
            "level_note": note,
            "technique": tech,
        })
    else:
        na.append({"property_id": pid, "reason": PENDING_REASON})

m = {
 "version": 1,
 "setup_cmd": "./setup.sh",
 "hooks": {
   "guard": "verif",
   "enable": "go build tag: the harness is built with `go1.26.8 test -c -tags verif` and a go.mod `replace` pointing at /repo, so every check rebuilds from /repo's working tree with the hooks on",
   "baseline_off_cmd": "cd /repo && GOFLAGS=-mod=mod GOPROXY=off go test -json -vet=off -count=1 -timeout 25m ./...",
   "source_commits": [l.strip() for l in open(os.path.join(HERE, "hooks_commits.txt")) if l.strip()] if os.path.exists(os.path.join(HERE, "hooks_commits.txt")) else [],
   "add_only": True,
 },
 "engines": [{
   "name": "harness", "path": "/verif/harness",
   "serves_properties": [c["property_id"] for c in checks],
   "kind_free_text": "Go test module (rapid v1.3.0 property-based tests, testing/synctest virtual clock, generated cooperative schedules, porcupine history checking, race-detector stress) driven by /verif/check",
 }],
 "checks": checks,
 "notes": "Driver: /verif/check <ID> --tier quick|thorough [--replay FILE]. VERIF_SEED selects the rapid seed. Exit 0 held / 1 VIOLATION / 2 inconclusive (infrastructure). Known findings: /verif/known_findings.txt.",
 "not_applicable": na,
}
json.dump(m, open(os.path.join(HERE, "MANIFEST.json"), "w"), indent=1)
print("claimed", len(checks), "not_applicable", len(na))
