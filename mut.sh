#!/bin/sh
# usage: ./mut.sh <seed-id> <PROP> [more check args]  — run a check against /verif/seeded/<seed-id>/patch.diff in a scratch worktree
set -e
sid=$1; shift
wt=/tmp/mut/wt-$sid-$$
git -C /repo worktree prune
git -C /repo worktree add -q --detach $wt HEAD
(cd $wt && git apply /verif/seeded/$sid/patch.diff)
cd /verif
rc=0
./check "$@" --repo $wt --no-evidence | grep -E "^VIOLATION|^  \[|tier=" | cut -c1-330 | head -6 || rc=$?
git -C /repo worktree remove --force $wt
